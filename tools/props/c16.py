"""C16 — executions are isolated. Streams:
  iso   : P1;…;Pn;Q in one process (separate interpreters, and one shared interpreter) vs Q in a brand-new process
  race  : N goroutines × reps through one shared Interpreter (LoadScript(src).Execute), plain and under the Go race
          detector (a second harness binary built with -race)
  pgiso : the same matrix through the REAL handlers of pkg/server (harness op `hseq`): one shared interpreter, one
          server.NewZnPlaygroundHandler and one server.NewZnHttpHandler; request i = a polluter (as SourceCode, inside a VarInput
          text, as the entry program of the web handler, or a request the handler must refuse: malformed JSON, unreadable body,
          syntax error), request i+1 = a probe; EVERY response of the sequence must equal the response the same request gets as
          the only request of a brand-new process
  srv   : server.NewZnThreadServer started through Interpreter.SetMainServer(…).Listen(url) on a loopback port / a unix socket,
          N goroutine clients × M requests over real connections, every request with its own source text and its own expected
          answer (harness op `srv`), in the normal build and under the race detector
  fileiso: histories of executions through LoadFile with imported custom modules over a directory tree that changes between the
          executions (props/c16_files.py; harness ops fseq / frace)
The process model (what is shared) is tied to the source by regenerated facts (Generated/Process.lean)."""
import os, subprocess, itertools, json
from concurrent.futures import ThreadPoolExecutor
from zngen import cps
import framework as fw
from props import srvgen as sg

RULE = ("iso: every polluter (constructor redefinition of the predefined type and of user types, every mutating method applicable to a "
        "predefined value, failing calls that leave frames, library imports, declarations of the names the probes use, uncaught errors) × "
        "every probe, sequences of 1–3 polluters, with separate interpreters and with one shared interpreter; the probe's outcome must equal "
        "its outcome in a fresh process. race: 8/32 goroutines × 150/1500 requests of 6 distinct programs through one shared interpreter; any "
        "foreign result or race report fails. pgiso: the polluter × probe matrix as HTTP requests through one ZnPlaygroundHandler / one ZnHttpHandler "
        "over one shared interpreter (polluters also inside VarInput texts, malformed JSON, unreadable bodies, syntax errors), every response = "
        "the response to that request alone in a fresh process. srv: ZnThreadServer on a loopback port / unix socket, 16/32 clients × 30/400 "
        "requests with distinct sources and answers each, plain and under -race. fileiso: 2–6 executions of main files through LoadFile in one process "
        "(separate / one shared interpreter) over 1–4 project directories whose modules have the same names and different sources, one project "
        "nested in another, module and main files rewritten / deleted / broken / repaired between executions, modules importing modules; every "
        "execution = what the files say at that moment (generator ground truth) = the same step in a brand-new process (sample); the same "
        "concurrently (8/32 goroutines, own project each), plain and under -race. Non-trivial = the sequence contains a polluter that touches something the probe reads.")
ASSUMPTIONS = ["data-race freedom in the Go memory model is sampled by the race detector, not proved",
               "pkg/server's handlers call LoadFile/LoadScript(...).Execute on a shared interpreter exactly as the race op does (pkg/server itself needs the Linux pipe hook to compile)"]
PARTIAL = "the Lean model proves the logical part (nothing mutable is shared; a request runs its own source under every interleaving); scheduler behaviour is runtime"

POLLUTERS = {
    'redefine-exception-ctor': '如何新建异常？\n    输入话\n    其内容 = “劫持”\n抛出异常：“x”！\n拦截异常：\n    输出 1\n',
    'redefine-exception-ctor-noarg': '如何新建异常？\n    （显示：“劫持”）\n',
    'mutate-predefined-number': '以数值（自增：5）\n以数值（自减：2）\n',
    'mutate-number-in-method': '如何改？\n    以数值（自增：100）\n（改）\n',
    'failing-call-leaves-frames': '如何坏？\n    输出 1 / 0\n（坏）\n',
    'failing-nested-calls': '如何甲？\n    输出（乙）\n如何乙？\n    抛出异常：“深”！\n（甲）\n',
    'uncaught-break': '结束循环\n',
    'import-json': '导入《@JSON》\n令X设为（生成JSON：【a = 1】）\n',
    'import-file': '导入《@文件》\n',
    'declare-probe-names': '令探针设为99\n如何查？\n    输出 -1\n定义狗：\n    其名设为“劫持”\n',
    'user-type-ctor': '定义狗：\n    其名设为“甲”\n如何新建狗？\n    其名 = “劫持”\n令D设为（新建狗）\n',
    'display-redefine-attempt': '令显示设为1\n',
    'huge-heap': '令L设为【】\n令I设为0\n每当I < 200：\n    I = I + 1\n    以L（后增：【I，I】）\n',
    'syntax-error': '令令令\n',
    # in-place mutators applied to every kind of value the RUNTIME hands to a program (a value it might keep and hand out again)
    'mutate-loop-index': '以序、项遍历【5，6，7】：\n    以序（自增：100）\n',
    'mutate-loop-item': '以项遍历【5，6，7】：\n    以项（自增：100）\n',
    'mutate-dict-loop-key': '以键、值遍历【“1*^3” = 1，b = 2】：\n    如果键 == “1*^3”：\n        令N设为以键（转换数值）\n',
    'mutate-number-literal': '如何取？\n    输出 3\n令X设为（取）\n以X（自增：5）\n令Y设为7\n以Y（自减：7）\n',
    'mutate-text-literal': '如何文？\n    输出 “1*^3”\n令T设为（文）\n令N设为以T（转换数值）\n',
    'mutate-length-and-chars': '令L设为【1，2】之长度\n以L（自增：9）\n令C设为“ab”之字符组\n以C（后增：“z”）\n令K设为【a = 1】之所有索引\n以K（后增：“z”）\n',
    'syntax-error-late': '令甲设为1\n令乙设为【1，2\n令丙设为3\n',
    'syntax-error-in-block': '如何坏？\n    输出 1 +\n（坏）\n',
    'http-request-headers-in-place': '导入《@验证HTTP》\n令请求设为（新建HTTP请求：“POST”、“http://a.example/x”、【“用户” = “甲”】）\n请求之头部#“Authorization” = “令牌”\n令二设为（新建HTTP请求：“POST”、“http://a.example/y”、“文本体”）\n二之头部#“X” = “1”\n',
    'http-response-in-place': '导入《@验证HTTP》\n令答设为（新建HTTP响应：200、“好”、【“K” = “1”】）\n答之头部#“Set-Cookie” = “a=1”\n',
    'redefine-library-class-ctor': '导入《@验证HTTP》\n如何新建HTTP响应？\n    输入码\n    （显示：“劫持”）\n令答设为（新建HTTP响应：200）\n',
    # the same through an alias: the library class reaches a method as an argument and the constructor is declared for the parameter
    'redefine-library-class-ctor-through-alias': '导入《@验证HTTP》\n如何改造？\n    输入某类型\n    如何新建某类型？\n        输入码\n        （显示：“劫持”）\n（改造：HTTP响应）\n令答设为（新建HTTP响应：200）\n',
    'redefine-exception-ctor-through-alias': '如何改造？\n    输入某类型\n    如何新建某类型？\n        输入文\n        其内容 = “劫持”\n（改造：异常）\n',
    'json-parse-result-changed-unbound': '导入《@JSON》\n令文设为“{"a":[1,2],"b":{"c":1}}”\n令X设为以（解析JSON：文）（写入：“多”、99）\n令Y设为以（解析JSON：文）（移除：“a”）\n',
    'mutate-number-straight-from-literal': '如何升？\n    输入数\n    输出以数（自增：1）\n令甲设为（升：41）\n令乙设为以100（自减：30）\n令丙设为以【7，8】#1（自增：5）\n',
    'mutate-list-literal-in-method': '如何列？\n    输出【1，2】\n令A设为（列）\n以A（后增：3）\n',
}
PROBES = {
    'exception-content': '如何试？\n    抛出异常：“真话”！\n    拦截异常：\n        输出 其内容\n输出（试）\n',
    'exception-object': '输出（新建异常：“甲”）之内容\n',
    'predefined-number': '输出 数值\n',
    'predefined-number-arith': '令N设为数值\n输出 N + 1\n',
    'own-names': '令探针设为7\n如何查？\n    输出 探针\n定义狗：\n    其名设为“旺”\n输出【（查），（新建狗）之名】\n',
    'json': '导入《@JSON》\n输出（生成JSON：【b = 2，a = 【1，2】】）\n',
    'error-chain': '如何深？\n    输出 1 / 0\n（深）\n',
    'this-at-top': '输出 其名\n',
    'truth': '输出【真，假，空】\n',
    'http-request': '导入《@验证HTTP》\n令甲设为（新建HTTP请求：“POST”、“http://b.example/r”、【“数” = 1】）\n令乙设为（新建HTTP请求：“POST”、“http://b.example/t”、“体”）\n令丙设为（新建HTTP请求：“GET”、“http://b.example/g”）\n输出【甲之头部，乙之头部，丙之头部】\n',
    'http-response': '导入《@验证HTTP》\n令答设为（新建HTTP响应：201、“好”、【“K” = “1”】）\n输出【答之状态码，答之头部】\n',
    'json-parse': '导入《@JSON》\n令文设为“{"a":[1,2],"b":{"c":1}}”\n输出（解析JSON：文）\n',
    'number-literals': '如何升？\n    输入数\n    输出以数（自增：1）\n输出【41，100，7，（升：41），以100（自减：30），41 + 100】\n',
    'loop-indices': '令和设为0\n令出设为【】\n以序、项遍历【5，6，7】：\n    和 = 和 + 序\n    以出（后增：项）\n输出【和，出】\n',
    'dict-loop-keys': '令出设为【】\n以键、值遍历【“1*^3” = 1，b = 2】：\n    以出（后增：键）\n输出 出\n',
    'literals': '如何取？\n    输出 3\n如何文？\n    输出 “1*^3”\n如何列？\n    输出【1，2】\n输出【（取），7，（文），（列），【1，2】之长度，“ab”之字符组，【a = 1】之所有索引】\n',
}
# programs that change what they read: executed repeatedly from ONE loaded program object, every execution starts afresh
REEXEC = {
    'bump-predefined-number': '以数值（自增：5）\n输出 数值\n',
    'redefine-exception-ctor-then-throw': '如何新建异常？\n    输入话\n    其内容 = “劫持”\n如何试？\n    抛出异常：“真话”！\n    拦截异常：\n        输出 其内容\n输出（试）\n',
    'grow-list-literal': '令L设为【1】\n以L（后增：2）\n输出 L\n',
    'declare-and-count': '令N设为0\n每当N < 3：\n    N = N + 1\n输出 N\n',
    'bump-loop-index': '令和设为0\n以序、项遍历【5，6，7】：\n    以序（自增：10）\n    和 = 和 + 序\n输出 和\n',
    'literal-with-escapes': '令文设为“a`SP`b`U+4E2D`c`CRLF`d”\n令引设为“左`“`右”\n输出【文，引】\n',
    'object-default': '定义狗：\n    其名设为【1】\n令D设为（新建狗）\n以D之名（后增：2）\n输出 D之名\n',
}


# ---- the real handlers (pgiso) and the real server (srv) -------------------------------------------------------------
# requests for the playground handler whose VarInput text does the polluting (the text is compiled and evaluated by
# exec.ExecVarInputText before the program runs): (VarInput, SourceCode)
VARINPUT_POLLUTERS = {
    'vi-mutate-predefined-number': ('甲 = 以数值（自增：5）', '输入甲\n以数值（自减：2）\n输出甲\n'),
    'vi-exception-class-ctor': ('类 = 异常', '输入类\n如何新建类？\n    输入话\n    其内容 = “劫持”\n'),
    'vi-exception-object-changed': ('错 = （新建异常：“x”）', '输入错\n错之内容 = “劫持”\n输出错之内容\n'),
    'vi-list-grown': ('甲 = 【1，2】', '输入甲\n以甲（后增：3）\n输出甲\n'),
    'vi-text-to-number': ('甲 = 以“1*^3”（转换数值）\n乙 = “1*^3”', '输入甲、乙\n令丙设为以乙（转换数值）\n输出【甲，丙】\n'),
    'vi-probe-names': ('探针 = 99\n名 = “劫持”', '输入探针、名\n如何查？\n    输出 -1\n定义狗：\n    其名设为“劫持”\n输出探针\n'),
    'vi-division-by-zero': ('甲 = 1 / 0', '输入甲\n输出甲\n'),
    'vi-undefined-name': ('甲 = 乙', '输入甲\n输出甲\n'),
    'vi-half-assignment': ('甲 = ', '输入甲\n输出甲\n'),
    'vi-not-an-assignment': ('输出 1', '输出 2\n'),
    'vi-syntax-error': ('令令令', '输出 2\n'),
    'vi-ok-source-syntax-error': ('甲 = 1', '输入甲\n令令令\n'),
    'vi-ok-source-fails': ('甲 = 0', '输入甲\n如何坏？\n    输出 1 / 甲\n（坏）\n'),
    'vi-missing-input': ('甲 = 1', '输入甲、乙\n输出乙\n'),
}
# requests the playground handler must refuse before any program runs (respondError): raw body bytes, truncated?
REFUSED = {
    'json-cut': (b'{', False), 'json-array': (b'[1,2]', False), 'json-string': (b'"x"', False), 'json-empty-body': (b'', False),
    'json-source-not-text': (b'{"SourceCode": 5}', False), 'json-varinput-not-text': ('{"SourceCode":"输出 1","VarInput":7}'.encode(), False),
    'json-invalid-utf8': (b'{"SourceCode":"\xff\xfe"}', False), 'json-trailing': ('{"SourceCode":"输出 1"} x'.encode(), False),
    'body-ends-early': ('{"SourceCode":"输出 1"}'.encode(), True), 'body-ends-early-empty': (b'', True),
    'json-no-source': (b'{}', False), 'json-other-fields': ('{"sourcecode":"输出 5","Extra":[1]}'.encode(), False),
}
VARINPUT_PROBES = {
    'vi-predefined-number': ('甲 = 数值', '输入甲\n输出【甲，数值】\n'),
    'vi-exception-object': ('错 = （新建异常：“甲”）', '输入错\n输出错之内容\n'),
    'vi-exception-class': ('类 = 异常', '输入类\n输出（新建类：“话”）之内容\n'),
    'vi-two-values': ('甲 = 【1，2】\n乙 = “1*^3”', '输入甲、乙\n输出【甲，乙，探针】\n'),
    'vi-arith': ('甲 = 41 + 100', '输入甲\n输出 甲 + 1\n'),
    # the very VarInput texts the polluting requests send
    'vi-same-text-list': ('甲 = 【1，2】', '输入甲\n输出甲\n'),
    'vi-same-text-exception': ('错 = （新建异常：“x”）', '输入错\n输出错之内容\n'),
    'vi-same-text-class': ('类 = 异常', '输入类\n如何试？\n    抛出类：“真话”！\n    拦截类：\n        输出 其内容\n输出（试）\n'),
}
WEB_GET = dict(method='GET', target='/入口?k=1', headers=[('X-Id', '7')], body='')


def handler_requests():
    """name → step, for the polluting and the probing side"""
    pol, prb = {}, {}
    for n, src in POLLUTERS.items():
        pol['pg:' + n] = sg.pg_step(src)
        pol['web:' + n] = sg.http_step(src, **WEB_GET)
    for n, (vi, src) in VARINPUT_POLLUTERS.items():
        pol['pg:' + n] = sg.pg_step(src, vi)
    for n, (raw, cut) in REFUSED.items():
        pol['pg:' + n] = sg.pg_step(raw=raw, truncated=cut)
    pol['web:body-ends-early'] = sg.http_step('输入当前请求\n输出当前请求之内容\n', 'POST', '/入口', [('Content-Type', 'application/json')], '{"a":1}', kind='httpT')
    pol['web:json-body-cut'] = sg.http_step('输入当前请求\n输出当前请求之内容\n', 'POST', '/入口', [('Content-Type', 'application/json')], '{"a":')
    pol['web:request-object-changed'] = sg.http_step('输入当前请求\n当前请求之头部#“X-Id” = “劫持”\n当前请求之方法 = “劫持”\n以当前请求之查询参数（移除：“k”）\n输出当前请求之头部\n', **WEB_GET)
    for n, src in PROBES.items():
        prb['pg:' + n] = sg.pg_step(src)
        prb['web:' + n] = sg.http_step(src, **WEB_GET)
    for n, (vi, src) in VARINPUT_PROBES.items():
        prb['pg:' + n] = sg.pg_step(src, vi)
    prb['web:request-object'] = sg.http_step('输入当前请求\n输出【当前请求之方法，当前请求之路径，当前请求之头部，当前请求之查询参数，当前请求之内容】\n', **WEB_GET)
    return pol, prb


def fresh_answers(ctx, steps):
    """every distinct request as the ONLY request of a brand-new harness process"""
    names = list(steps)
    size = max(1, (len(names) + 3) // 4)
    chunks = [names[i:i + size] for i in range(0, len(names), size)]

    def ask(chunk):
        a = ctx.run_go(['hfresh %d %s' % (len(chunk), ' '.join(steps[n] for n in chunk))], timeout_ms=120000, parallel=False)[0]
        parts = a.split(' ;; ')
        return parts if len(parts) == len(chunk) else [a] * len(chunk)
    with ThreadPoolExecutor(max_workers=4) as ex:
        outs = [x for part in ex.map(ask, chunks) for x in part]
    return dict(zip(names, outs))


def solo_answers(ctx, steps):
    """every distinct request as the first request of a new interpreter + new handlers, inside ONE harness process; asked twice, in
    opposite orders and in two processes — an answer that depends on what the process served before is no oracle (returned as None)"""
    names = list(steps)
    fwd = 'hsolo %d %s' % (len(names), ' '.join(steps[n] for n in names))
    rev = 'hsolo %d %s' % (len(names), ' '.join(steps[n] for n in reversed(names)))
    with ThreadPoolExecutor(max_workers=2) as ex:
        a, b = list(ex.map(lambda l: ctx.run_go([l], timeout_ms=120000, parallel=False)[0], [fwd, rev]))
    pa, pb = a.split(' ;; '), list(reversed(b.split(' ;; ')))
    if len(pa) != len(names) or len(pb) != len(names):
        return {n: a for n in names}, []
    unstable = []
    for i, (n, x, y) in enumerate(zip(names, pa, pb)):
        if x == y:
            continue
        # reduce: the request alone in a new process, and after one predecessor in another new process
        case, got, alone = fwd, x, y
        if len(unstable) < 4:
            alone = ctx.run_go(['hsolo 1 ' + steps[n]], timeout_ms=20000, parallel=False)[0]
            for prev in ([names[i - 1]] if i > 0 else []) + ([names[i + 1]] if i + 1 < len(names) else []) + [n]:
                line = 'hsolo 2 %s %s' % (steps[prev], steps[n])
                a2 = ctx.run_go([line], timeout_ms=20000, parallel=False)[0].split(' ;; ')
                if len(a2) == 2 and a2[1] != alone:
                    case, got = line, a2[1]
                    break
            else:
                got = x if x != alone else y
        unstable.append((n, case, got, alone))
    return dict(zip(names, pa)), unstable


def pgiso_stream(ctx):
    rng = ctx.rng
    pol, prb = handler_requests()
    allreq = dict(pol)
    allreq.update(prb)
    if ctx.quick():
        # a process start costs 0.1–0.2 s here: the probing requests (the oracle of "request i+1") are answered by brand-new
        # processes, the polluting requests' own answers by new interpreter + handlers in one process (thorough: all by new processes)
        fresh = fresh_answers(ctx, prb)
        solo, unstable = solo_answers(ctx, pol)
        for n, case, got, alone in unstable:
            ctx.violation('pgiso:new-interpreter', case, 'request %s on a new interpreter + new handlers, after other requests of the process: %s' % (n, sg.show(got)),
                          sg.show(alone) + '   (the same request alone in a fresh process)')
        fresh.update(solo)
    else:
        fresh = fresh_answers(ctx, allreq)
    if all(a == 'bad-op' for a in fresh.values()):
        ctx.notes.append('pgiso/srv unavailable: pkg/server does not link (verif pipe hook pkg/server/name_pipe_linux.go absent from the tree)')
        ctx.count('pgiso:unavailable')
        return None, None
    # a request that panics its handler or answers nothing usable even alone is no oracle for isolation: reported, not used
    for n, a in fresh.items():
        ctx.count('pgiso:fresh:' + (a.split(' ')[0] if sg.parse_resp(a) else a.split(' ')[0][:12]))
    seqs = []
    pg_pol = [n for n in pol if n.startswith('pg:')]
    pg_prb = [n for n in prb if n.startswith('pg:')]
    web_pol = [n for n in pol if n.startswith('web:')]
    web_prb = [n for n in prb if n.startswith('web:')]
    for p in pg_pol:                       # the full matrix through the playground handler
        for q in pg_prb:
            seqs.append([p, q])
    for n in allreq:                       # the identical request twice: the second answer is the first one
        seqs.append([n, n])
    k = ctx.n(300, 10 ** 9)                # the three mixed combinations: a sample (quick) / everything (thorough)
    for ps, qs in ((web_pol, web_prb), (pg_pol, web_prb), (web_pol, pg_prb)):
        pairs = [[p, q] for p in ps for q in qs]
        rng.shuffle(pairs)
        seqs.extend(pairs[:k])
    names = list(allreq)
    for _ in range(ctx.n(250, 5000)):      # longer histories, probes and polluters in any order
        seqs.append([rng.choice(names) for _ in range(rng.randint(3, 6))])
    lines = ['hseq %d %s' % (len(sq), ' '.join(allreq[n] for n in sq)) for sq in seqs]
    go = ctx.run_go(lines, timeout_ms=20000)
    shown = 0
    failing = []
    for sq, line, g in zip(seqs, lines, go):
        ctx.evaluations += 1
        parts = g.split(' ;; ')
        ctx.count('pgiso:history' if len(sq) > 2 else 'pgiso:same-request-twice' if sq[0] == sq[1] else 'pgiso:%s→%s' % (sq[0].split(':')[0], sq[1].split(':')[0]))
        if parts != [fresh[n] for n in sq]:
            failing.append((sq, line, g))
        ctx.nontriv(line)
        if shown < 1 and len(sq) == 2 and sq[0] == 'pg:redefine-exception-ctor':
            shown += 1
            ctx.sample({'stream': 'pgiso', 'sequence': sq, 'responses': [sg.show(x) for x in parts]})
    # a sequence that also fails as the only line of a new process is a self-contained failing history: those are reported first
    # (state kept at package level makes a sequence fail only because of the sequences the same harness process served before it)
    failing.sort(key=lambda t: len(t[0]))
    own, carried = [], []
    for sq, line, g in failing:
        if len(own) < 3 and len(own) + len(carried) < 24:
            g2 = ctx.run_go([line], timeout_ms=20000, parallel=False)[0]
            if g2.split(' ;; ') != [fresh[n] for n in sq]:
                own.append((sq, line, g2, ''))
                continue
        carried.append((sq, line, g, '   [seen after other sequences in the same harness process]'))
    for sq, line, g, note in own + carried:
        parts = g.split(' ;; ')
        want = [fresh[n] for n in sq]
        bad = next((i for i in range(len(sq)) if i >= len(parts) or parts[i] != want[i]), 0)
        gotk = parts[bad] if bad < len(parts) else g
        ctx.violation('pgiso', line, 'response %d (%s) after %s: %s' % (bad + 1, sq[bad], '+'.join(sq[:bad]) or 'no other request of this sequence',
                                                                        sg.show(gotk) + ' | ' + gotk.rpartition(' | ')[2][:80]) + note,
                      sg.show(want[bad]) + ' | ' + want[bad].rpartition(' | ')[2][:80] + '   (the same request alone in a fresh process)')
    ctx.streams.append({'stream': 'pgiso', 'cases': len(lines), 'polluting_requests': len(pol), 'probing_requests': len(prb),
                        'refused_requests': len(REFUSED) + 2, 'varinput_polluters': len(VARINPUT_POLLUTERS)})
    return allreq, fresh


def srv_requests(K):
    """K families of requests, every one with its own source and (where the manual fixes it) its own known answer"""
    pg, known = {}, {}
    for k in range(1, K + 1):
        pg['const-%d' % k] = sg.pg_step('输出 %d\n' % (1000 + k)); known['const-%d' % k] = (200, str(1000 + k))
        pg['names-%d' % k] = sg.pg_step('令甲设为%d\n如何算？\n    输出 甲 * 2\n定义狗：\n    其名设为“狗%d”\n输出【（算），（新建狗）之名】\n' % (k, k))
        known['names-%d' % k] = (200, '[%d，狗%d]' % (2 * k, k))
        pg['loop-%d' % k] = sg.pg_step('令和设为0\n令次设为0\n每当次 < 150：\n    次 = 次 + 1\n    和 = 和 + %d\n输出 和\n' % k); known['loop-%d' % k] = (200, str(150 * k))
        pg['throw-%d' % k] = sg.pg_step('如何坏？\n    抛出异常：“错%d号”！\n（坏）\n' % k); known['throw-%d' % k] = (500, '错%d号' % k)
        pg['varinput-%d' % k] = sg.pg_step('输入甲\n输出 甲 + 1\n', '甲 = %d' % (7000 + k)); known['varinput-%d' % k] = (200, str(7001 + k))
        pg['varinput-bad-%d' % k] = sg.pg_step('输入甲\n输出 甲\n', '甲 = 无名%d号' % k); known['varinput-bad-%d' % k] = (500, '无名%d号' % k)
        pg['json-%d' % k] = sg.pg_step('导入《@JSON》\n输出（生成JSON：【k = %d】）\n' % k); known['json-%d' % k] = (200, '{"k":%d}' % k)
        pg['ctor-%d' % k] = sg.pg_step('如何新建异常？\n    输入话\n    其内容 = “劫持%d”\n如何试？\n    抛出异常：“真话”！\n    拦截异常：\n        输出 其内容\n输出（试）\n' % k)
        pg['catch-%d' % k] = sg.pg_step('如何试？\n    抛出异常：“真话%d”！\n    拦截异常：\n        输出 其内容\n输出（试）\n' % k); known['catch-%d' % k] = (200, '真话%d' % k)
        pg['number-%d' % k] = sg.pg_step('以数值（自增：%d）\n输出 数值\n' % k)
    pg['syntax'] = sg.pg_step('令令令\n'); known['syntax'] = (500, None)
    pg['malformed'] = sg.pg_step(raw=b'{'); known['malformed'] = (500, None)
    entry = ('输入当前请求\n令体设为当前请求之内容\n令数设为体#“n”\n输出【“k” = 当前请求之查询参数#“k”，“倍” = 数 * 2，“头” = 当前请求之头部#“X-Id”，“法” = 当前请求之方法】\n')
    web = {}
    J = [('Content-Type', 'application/json')]
    for k in range(1, 3 * K + 1):
        web['echo-%d' % k] = sg.http_step(entry, 'POST', '/入口?k=%d' % k, J + [('X-Id', 'id%d' % k)], '{"n":%d}' % (10 * k))
        known['web:echo-%d' % k] = (200, json.dumps({'k': str(k), '倍': 20 * k, '头': 'id%d' % k, '法': 'POST'}, ensure_ascii=False, separators=(',', ':')))
    web['bad-json'] = sg.http_step(entry, 'POST', '/入口?k=0', J + [('X-Id', 'x')], '{"n":'); known['web:bad-json'] = (500, None)
    web['wrong-type'] = sg.http_step(entry, 'PUT', '/入口?k=0', J + [('X-Id', 'x')], '{"n":"文"}'); known['web:wrong-type'] = (500, None)
    web['no-key'] = sg.http_step(entry, 'POST', '/入口', J + [('X-Id', 'x')], '{"n":1}'); known['web:no-key'] = (500, None)
    return pg, web, known


def run_under_race_detector(line, timeout_ms=600000):
    rb = fw.B + '/znharness-race'
    if not os.path.exists(rb):
        return None
    p = subprocess.run([rb], input=line + '\n', stdout=subprocess.PIPE, stderr=subprocess.PIPE, text=True,
                       env=dict(os.environ, ZNH_TIMEOUT_MS=str(timeout_ms), GORACE='halt_on_error=0'))
    races = p.stderr.count('WARNING: DATA RACE')
    first = p.stderr.split('WARNING: DATA RACE', 1)[1][:1500] if races else ''
    return p.stdout.strip(), races, first


def srv_stream(ctx):
    K = ctx.n(2, 4)
    pg, web, known = srv_requests(K)
    both = {'pg:' + n: s for n, s in pg.items()}
    both.update({'web:' + n: s for n, s in web.items()})
    if ctx.quick():
        fresh, unstable = solo_answers(ctx, both)
        for n, case, got, alone in unstable:
            ctx.violation('srv:new-interpreter', case, 'request %s on a new interpreter + new handlers, after other requests of the process: %s' % (n, sg.show(got)),
                          sg.show(alone) + '   (the same request alone in a fresh process)')
    else:
        fresh = fresh_answers(ctx, both)
    if all(a == 'bad-op' for a in fresh.values()):
        return
    # the solo answers are themselves checked against what the program text says (the oracle of srv is not just "same as alone")
    for n, (status, body) in known.items():
        key = n if n.startswith('web:') else 'pg:' + n
        p = sg.parse_resp(fresh[key])
        ctx.evaluations += 1
        got = p and (p[0], p[2].decode('utf-8', 'replace'))
        okk = p is not None and p[0] == status and (body is None or (body == got[1] if status == 200 else body in got[1]))
        if not okk:
            ctx.violation('srv:solo-answer', 'hseq 1 ' + both[key], sg.show(fresh[key]), '%d %r   (request %s: the answer its own source prescribes)' % (status, body, n))
    clients, reps = ctx.n(16, 32), ctx.n(30, 400)
    rclients, rreps = ctx.n(8, 16), ctx.n(12, 150)
    for fam, transport, reqs in (('pg', 'tcp', pg), ('web', 'unix', web), ('pg', 'unix', pg), ('web', 'tcp', web)):
        if ctx.quick() and (fam, transport) in (('pg', 'unix'), ('web', 'tcp')):
            continue
        names = list(reqs)
        pairs = ' '.join('%s %s' % (reqs[n], sg.hx(sg.wire_want(fresh[fam + ':' + n]) or 'unusable')) for n in names)
        line = 'srv %s %d %d %d %s' % (transport, clients, reps, len(names), pairs)
        out = ctx.run_go([line], timeout_ms=300000, parallel=False)[0]
        ctx.evaluations += clients * reps
        ctx.count('srv:%s:%s:requests' % (fam, transport), clients * reps)
        ctx.nontriv(line)
        if not (out.startswith('ok %d ' % (clients * reps)) and out.endswith('nohandler=err badscheme=err badurl=err inuse=err')):
            m = out.split(' ')
            idx = int(m[1][4:]) if out.startswith('mismatch req=') else -1
            ctx.violation('srv:' + fam, line, out[:1500] + ('   (request %s)' % names[idx] if idx >= 0 else ''),
                          'ok %d nohandler=err badscheme=err badurl=err inuse=err   (every client gets the answer of ITS request; Start refuses a missing handler, an unknown scheme, a malformed URL and an address in use)' % (clients * reps))
        rline = 'srv %s %d %d %d %s' % (transport, rclients, rreps, len(names), pairs)
        r = run_under_race_detector(rline)
        if r is None:
            continue
        rout, races, first = r
        ctx.evaluations += rclients * rreps
        ctx.count('srv:%s:race-detector:requests' % fam, rclients * rreps)
        ctx.count('srv:race-detector:reports', races)
        if races or not rout.startswith('ok '):
            ctx.violation('srv-race-detector:' + fam, rline, ('DATA RACE ×%d: %s' % (races, first)) if races else rout[:1500], 'no race report, every answer its own')
    ctx.streams.append({'stream': 'srv', 'cases': 2 if ctx.quick() else 4, 'clients': clients, 'requests_per_client': reps,
                        'distinct_requests': len(both), 'under_race_detector': '%d×%d' % (rclients, rreps)})
    ctx.sample({'stream': 'srv', 'request': 'names-1', 'solo': sg.show(fresh['pg:names-1'])})


def _oracle(ctx, lines):
    """answers of `freshrun` lines (each one program alone in a brand-new process) used as the ORACLE of the isolation streams. On a
    heavily loaded machine starting a process can exceed the watchdog: such an answer (timeout / crash) is asked again alone with a long
    watchdog, and if it still cannot be had the oracle is None for that line — the comparisons that need it are skipped and counted, never
    reported: a missing oracle says nothing about the code under check"""
    out = []
    for line, a in zip(lines, ctx.run_go(lines, parallel=False)):
        tries = 0
        while a.startswith(('timeout', 'crash')) and tries < 3:
            tries += 1
            a = ctx.run_go([line], timeout_ms=60000, parallel=False)[0]
        out.append(None if a.startswith(('timeout', 'crash')) else a)
    return out


def run(ctx):
    rng = ctx.rng
    # ---- iso ------------------------------------------------------------------------------------------
    pnames, qnames = list(POLLUTERS), list(PROBES)
    seqs = [[p] for p in pnames]
    extra = ctx.n(40, 600)
    for _ in range(extra):
        seqs.append([rng.choice(pnames) for _ in range(rng.randint(2, 3))])
    cases = []
    for sq in seqs:
        for q in qnames:
            for shared in (0, 1):
                cases.append((sq, q, shared))
    lines = ['seq %d %d %s %s' % (sh, len(sq) + 1, ' '.join(cps(POLLUTERS[p]) for p in sq), cps(PROBES[q])) for sq, q, sh in cases]
    fresh_lines = ['freshrun ' + cps(PROBES[q]) for q in qnames]
    fresh = dict(zip(qnames, _oracle(ctx, fresh_lines)))
    go = ctx.run_go(lines)
    for (sq, q, sh), line, g in zip(cases, lines, go):
        ctx.evaluations += 1
        ctx.count('iso:' + q)
        if fresh[q] is None:            # the machine was too busy to start a fresh process in time: no oracle, no verdict
            ctx.count('iso:oracle-unavailable')
            continue
        if g != fresh[q]:
            ctx.violation('iso' + ('-shared' if sh else ''), line, g, fresh[q] + '   (probe %s alone in a fresh process; polluters %s)' % (q, '+'.join(sq)))
        ctx.nontriv(line)
    ctx.sample({'sequence': seqs[0] + ['exception-content'], 'line': lines[0][:200], 'go': go[0], 'fresh': fresh[qnames[0]]})
    ctx.streams.append({'stream': 'iso', 'cases': len(lines), 'polluters': len(pnames), 'probes': len(qnames)})
    # ---- reexec: one loaded program executed several times -----------------------------------------------
    rnames = list(REEXEC)
    rfresh = _oracle(ctx, ['freshrun ' + cps(REEXEC[r]) for r in rnames])
    rlines = ['reexec 3 ' + cps(REEXEC[r]) for r in rnames]
    rgo = ctx.run_go(rlines, parallel=False)
    for r, line, g, fr in zip(rnames, rlines, rgo, rfresh):
        ctx.evaluations += 1
        ctx.count('reexec:' + r)
        if fr is None:
            ctx.count('reexec:oracle-unavailable')
            continue
        want = ' ;; '.join([fr] * 3)
        if g != want:
            ctx.violation('reexec', line, g, want + '   (the program %s alone in a fresh process, three times)' % r)
        ctx.nontriv(line)
    ctx.streams.append({'stream': 'reexec', 'cases': len(rlines)})
    # ---- fileiso: executions of files with imported custom modules over a changing directory tree (props/c16_files.py) ----
    if os.environ.get('VERIF_C16_FILES', '1') != '0':
        from props import c16_files
        c16_files.stream(ctx, run_under_race_detector)
    # ---- the real handlers and the real server -----------------------------------------------------------------------
    if os.environ.get('VERIF_C16_HANDLERS', '1') != '0':
        pgiso_stream(ctx)
        srv_stream(ctx)
    # the spec side of iso is the probe alone on the model evaluator from its pristine initial state
    from props import progs
    # (model correspondence of the probes themselves)
    # ---- race -----------------------------------------------------------------------------------------
    progs6 = ['输出 %d + %d\n' % (i, i) for i in range(1, 4)] + \
             ['如何算？\n    输入N\n    如果N <= 0：\n        输出 0\n    输出 N + （算：N - 1）\n输出（算：%d）\n' % k for k in (5, 9)] + \
             ['令L设为【%d】\n以L（后增：1）\n输出 L\n' % 7]
    g, reps = ctx.n(8, 32), ctx.n(150, 1500)
    line = 'race %d %d %s' % (g, reps, ' '.join(cps(p) for p in progs6))
    out = ctx.run_go([line], timeout_ms=120000, parallel=False)[0]
    ctx.evaluations += g * reps
    ctx.count('race:requests', g * reps)
    if out != 'ok':
        ctx.violation('race', line, out, 'ok   (every request must get the result of its own program)')
    # under the race detector
    rb = fw.B + '/znharness-race'
    if os.path.exists(rb):
        p = subprocess.run([rb], input=('race %d %d %s\n' % (min(g, 8), min(reps, 100), ' '.join(cps(p) for p in progs6))),
                           stdout=subprocess.PIPE, stderr=subprocess.PIPE, text=True,
                           env=dict(os.environ, ZNH_TIMEOUT_MS='300000', GORACE='halt_on_error=0'))
        ctx.evaluations += 1
        races = p.stderr.count('WARNING: DATA RACE')
        ctx.count('race-detector:reports', races)
        if races or p.stdout.strip() != 'ok':
            first = p.stderr.split('WARNING: DATA RACE', 1)[1][:1200] if races else p.stdout[:300]
            ctx.violation('race-detector', 'race (under -race) ' + line[:120], 'DATA RACE ×%d: %s' % (races, first), 'no race report')
        ctx.streams.append({'stream': 'race-detector', 'cases': 1, 'reports': races})
    else:
        ctx.notes.append('race-detector binary not built (znharness-race missing); plain race stream only')
    ctx.streams.append({'stream': 'race', 'cases': 1, 'goroutines': g, 'reps': reps})


def replay(ctx, data):
    case = data['case']
    print('case:', case[:300])
    g = ctx.run_go([case], timeout_ms=300000)[0]
    print('go  :', g[:3000])
    if case.startswith('hseq ') or case.startswith('hsolo '):
        for i, r in enumerate(g.split(' ;; ')):
            print('  response %d: %s | %s' % (i + 1, sg.show(r), r.rpartition(' | ')[2][:120]))
        steps = case.split(' ')[2:]
        for i, st in enumerate(steps):
            if len(steps) > 8 and i >= 8:
                break
            a = ctx.run_go(['hseq 1 ' + st], timeout_ms=20000, parallel=False)[0]
            print('  request %d alone in a fresh process: %s | %s' % (i + 1, sg.show(a), a.rpartition(' | ')[2][:120]))
    if case.startswith('fseq '):
        f = case.split(' ', 2)
        a = ctx.run_go(['fseq 2 ' + f[2]], timeout_ms=60000, parallel=False)[0]
        for i, (x, y) in enumerate(zip(g.split(' ;; '), a.split(' ;; '))):
            print('  execution %d: %s   in a brand-new process: %s%s' % (i + 1, x, y, '' if x == y else '   <-- differs'))
    print('want:', data.get('spec'))
