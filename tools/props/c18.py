"""C18 — errors point at the line and call chain where they arose.
Runtime stream: programs with one fault planted at a generator-known line and call depth; the generator's ground
truth (line of the innermost statement, call-site line of every active call) is compared with the location lines of
the rendered error; the same programs go through the three-way run (Go = model = spec result/trace)."""
from props import progs, c18_handled, c18_decl
from props.progs import replay  # noqa
from zngen import *

RULE = ("programs with one fault (抛出, 1/0, undefined name, index out of range, failing built-in; a call of a user method / constructor / "
        "object method with the wrong number of arguments, a call of a name that holds a number or a text — the chain ends at the CALLER's "
        "line, the call that never began has no entry; a 每当 loop whose condition can no longer be evaluated on its second or third pass — "
        "the line is the loop's; a failing library function after 导入《@JSON》 — the library's frame is shown as built-in code; a type / "
        "method / constructor declaration that fails while the declarations of its block are executed ahead of the other statements: failing "
        "property default, a name declared twice, a constructor for a name that is no type — the line is the declaration's; a type declaration "
        "that fails THROUGH A CALL made while its property defaults are evaluated (a method, a chain of two methods, a user-defined "
        "constructor, an object method, a call with the wrong number of arguments, a failing built-in method; the failing default first / "
        "in the middle / last; declarations before it that succeeded through calls of the same callee, declarations after it that are "
        "never reached — props/c18_decl.py): the declaration's line is a call-site line, followed by the callees' lines; a statement that "
        "is a BARE member expression `变量之不存在` on a list / text / object / number value or `其不存在` in the body of an object method "
        "or a constructor, and the same member expressions as the failing part of a larger statement whose earlier parts span lines — the "
        "line is the statement's) planted at a "
        "known line inside a chain of 0–4 nested calls, inside branches/loops, after earlier handled exceptions (stale frames must not "
        "appear: 1–3 episodes of 1–5 calls — methods, object methods, constructors — with 1–4 handlers of which all but the outermost "
        "raise again by 抛出 of the same / another type, a runtime fault, a failing call or built-in, handlers that handle another failing "
        "call inside them, loops of 2–3 passes around the handled call, entered from the program body or from a call that is still "
        "active at the fault — props/c18_handled.py), after single- and multi-line comments and multi-line text literals (physical line counting), with LF or CRLF line ends; "
        "expected chain = call-site line of every active call, innermost statement line last; programs whose 导入 statement fails "
        "(missing library / module, the same library twice) on a line ≥ 2 after comments and blank lines — the line is that statement's; "
        "syntax errors planted on a generator-known line: a stray ） after wide characters (caret column), and a line inserted after a "
        "complete statement that is indented deeper than that statement, with spaces or TABs (error 20 on THAT line, caret 0). "
        "Non-trivial = call depth ≥ 1, a multi-line construct before the fault, or one of the fault kinds named after the first semicolon.")
ASSUMPTIONS = ["stream chain: all frames are in the main module or in a standard library; stream chain-modules: the same kind of programs with "
               "a closed set of their methods / types moved into an imported module file (every entry of the expected chain names its module)",
               "a call of a library function is `unmodelled` in the evaluator model, programs with a 导入 statement are `unspecified` in the "
               "spec semantics: for them the generator's ground truth (line, chain) is the comparison that counts (a failing 导入 statement "
               "itself IS modelled: Go = evaluator model on code, line and chain)"]
PARTIAL = ("syntax-error line/caret (lexer Lines table, error printer) are the lexer/parser workers' theorems; this module covers runtime "
           "errors and uncaught exceptions")


def filler(g, rng):
    k = rng.random()
    if k < 0.3:
        return ExprS(Call('显示', [Num(str(g.fresh()))]))
    if k < 0.45:
        return Raw('注：说明%d' % g.fresh())
    if k < 0.55:
        return Raw('/* 多行\n   注释%d */' % g.fresh())
    if k < 0.65:
        return Raw('注：“跨行\n注释%d”' % g.fresh())
    if k < 0.8:
        v = '文%d' % g.fresh()
        lit = rng.choice(['第一行\n第二行\n三', '第一行\n第二行\n三', '首`行\n次行\n三', '首行`\n次行', '首`未闭\n次行\n`三'])
        d = Decl([v], Str(lit))
        return d
    v = '数%d' % g.fresh()
    return Decl([v], Num(str(rng.randint(0, 9))))


def ml(rng, args):
    """with some probability the call gets a multi-line text as its first argument: the statement then spans several physical
    lines, and its line is the one it STARTS on"""
    if rng.random() < 0.3:
        return [Str(rng.choice(['上\n下', '一\n二\n三', '末\n']))] + args
    return args


class F:
    """a planted fault: `pre` statements that go right before it in the same block, the statement itself (tagged 'fault': the line the
    error has to point at), the expected last entry of the chain after that line (`native` for built-in / library code, else nothing),
    definitions the program needs at top level, import lines, and the kind (for the evidence counts)"""

    def __init__(self, stmt, tail=None, pre=(), defs=(), imports=(), kind='plain', bare=False, inner=None, in_ctor=False):
        self.stmt, self.tail, self.pre, self.defs, self.imports, self.kind = stmt, tail, list(pre), list(defs), list(imports), kind
        self.bare = bare    # has to stand directly in the body of its method / of the program (declarations: only there are they executed)
        # `inner`: a statement inside one of `defs` (an object method that `stmt` calls) where the error really arises: `stmt` is then one
        # more active call (its line is a call-site line) and the chain ends at the line of `inner`
        self.inner = inner
        self.in_ctor = in_ctor  # the statement reads 其: the body it stands in has to be a constructor (如何新建型i？)


def shown(rng, e):
    """the failing expression as a statement: displayed (possibly after a multi-line text), bound by 令, or bare"""
    k = rng.random()
    if k < 0.5:
        return ExprS(Call('显示', ml(rng, [e])))
    if k < 0.75:
        return Decl(['得%d' % rng.randint(100, 999)], e)
    return ExprS(e)


def args_n(rng, n):
    return [rng.choice([Num(str(rng.randint(1, 9))), Str('参')]) for _ in range(n)]


def fault_arity(g, rng):
    """(a) a user method / constructor / object method called with the wrong number of arguments: error before the first statement of
    the callee — the chain ends at the caller's line"""
    n_in = rng.randint(0, 2)
    n_arg = rng.choice([k for k in range(0, 4) if k != n_in])
    ins = ['入%d' % i for i in range(n_in)]
    u = g.fresh()
    k = rng.random()
    lead = [filler(g, rng) for _ in range(rng.randint(0, 2))]
    if k < 0.45:
        name = '错参%d' % u
        return F(shown(rng, Call(name, args_n(rng, n_arg))), defs=[Func(name, ins, lead + [Ret(Num('1'))])], kind='arity-method')
    if k < 0.75:
        cname = '错型%d' % u
        return F(shown(rng, New(cname, args_n(rng, n_arg))),
                 defs=[Class(cname, [('名', Str('型'))], []), Func(cname, ins, lead + [ExprS(Call('显示', [Str('建')]))], ctor=True)],
                 kind='arity-constructor')
    cname = '法型%d' % u
    return F(shown(rng, MCall(New(cname, []), [('法', args_n(rng, n_arg))])),
             defs=[Class(cname, [('名', Str('型'))], [Func('法', ins, lead + [Ret(Num('1'))])])], kind='arity-object-method')


def fault_not_method(g, rng):
    """(b) a call of a name that holds a number / a text"""
    v = '数甲%d' % g.fresh()
    val = Num(str(rng.randint(0, 9))) if rng.random() < 0.7 else Str('文')
    return F(shown(rng, Call(v, args_n(rng, rng.randint(0, 2)))), pre=[Decl([v], val)], kind='not-a-method')


def fault_while_cond(g, rng):
    """(c) 每当 whose condition stops being evaluable on pass 2 or 3 (the body turns the counter into a text): the error belongs to the
    line of the 每当 statement, not to the last statement the previous pass executed"""
    c = '计%d' % g.fresh()
    k = rng.choice([0, 1])
    body = [filler(g, rng) for _ in range(rng.randint(0, 2))]
    body.append(If(Bin('eq', Var(c), Num(str(k))), [ExprS(Assign(Var(c), Str('文')))],
                   els=[ExprS(Assign(Var(c), Bin('+', Var(c), Num('1'))))]))
    body += [ExprS(Call('显示', [Str('过')])) for _ in range(rng.randint(0, 2))]
    return F(While(Bin('lt', Var(c), Num('5')), body), pre=[Decl([c], Num('0'))], kind='while-condition-pass-%d' % (k + 2))


def fault_library(g, rng):
    """(d) a library function that fails: its frame has no source text, it is listed as built-in code"""
    bad = rng.choice(['{', '[1,', '{"a":', 'nul', ''])
    return F(shown(rng, Call('解析JSON', [Str(bad)])), tail='native', imports=[(1, '@JSON', [], '\n')], kind='library-function')


def fault_declaration(g, rng):
    """(f) a type / method / constructor declaration that fails: declarations are executed before the other statements of their block
    (of the program, of a method body at any call depth); the error belongs to the line on which the declaration starts"""
    u = g.fresh()
    k = rng.random()
    if k < 0.4:
        cname = '败型%d' % u
        props = [('名', Str('型'))] if rng.random() < 0.5 else []
        props.append(('龄', rng.choice([Bin('/', Num('1'), Num('0')), Var('未定名'), Index(Arr([Num('1')]), Num('5'))])))
        if rng.random() < 0.3:
            props.append(('尾', Num('3')))
        return F(Class(cname, props, []), kind='declaration-property-default', bare=True)
    if k < 0.65:
        name = '重名%d' % u
        return F(Func(name, [], [Ret(Num('2'))]), pre=[Func(name, [], [filler(g, rng), Ret(Num('1'))])], kind='declaration-method-twice',
                 bare=True)
    if k < 0.85:
        cname = '重型%d' % u
        return F(Class(cname, [('名', Str('乙'))], []), pre=[Class(cname, [('名', Str('甲'))], [])], kind='declaration-type-twice', bare=True)
    return F(Func('无此型%d' % u, [], [ExprS(Call('显示', [Str('建')]))], ctor=True), kind='declaration-constructor-of-nothing', bare=True)


def member_holder(g, rng):
    """a value without the member 不存在…: (expression, definitions it needs, what it is)"""
    k = rng.random()
    if k < 0.3:
        return Arr([Num('1'), Num('2')]), [], 'list'
    if k < 0.55:
        return Str(rng.choice(['文', '', '甲乙'])), [], 'text'
    if k < 0.85:
        cname = '员型%d' % g.fresh()
        return New(cname, []), [Class(cname, [('名', Str('型'))], [])], 'object'
    if k < 0.93:
        return Dict([(Str('a'), Num('1'))]), [], 'dictionary'
    return Num(str(rng.randint(0, 9))), [], 'number'


def spread(rng, bad):
    """a statement whose LAST part is the failing expression `bad` and whose earlier parts span physical lines: the error belongs to
    the line the statement starts on"""
    k = rng.random()
    t = Str(rng.choice(['上\n下', '一\n二\n三', '末\n']))
    if k < 0.4:
        return ExprS(Call('显示', [t, bad]))
    if k < 0.7:
        return Decl(['得%d' % rng.randint(100, 999)], Arr([Num('1'), t, bad]))
    if k < 0.85:
        return ExprS(Call('显示', [Arr([t, Num('2')]), Bin('+', Num('1'), bad)]))
    return Decl(['得%d' % rng.randint(100, 999)], Dict([(Str('a'), t), (Str('b'), bad)]))


def fault_member(g, rng):
    """(g) a member expression that fails (no such member).  As a statement of its own — `变量之不存在`, `其不存在` — the node that is
    executed IS the member expression: the error belongs to its line (the parser used to leave that line 0: reported as line 1).  As
    the last part of a statement whose earlier parts span lines: the statement's line."""
    name = rng.choice(['不存在', '无此项', '无此属性'])
    dot = rng.choice(['之', '之', '的'])
    k = rng.random()
    if k < 0.5:
        # `变量之不存在`
        v = '持%d' % g.fresh()
        val, defs, what = member_holder(g, rng)
        bad = Prop(Var(v), name, dot)
        if rng.random() < 0.6:
            return F(ExprS(bad), pre=[Decl([v], val)], defs=defs, kind='member-bare-of-' + what)
        return F(spread(rng, bad), pre=[Decl([v], val)], defs=defs, kind='member-spread-of-' + what)
    bad = This(name)
    stmt = ExprS(bad) if rng.random() < 0.6 else spread(rng, bad)
    form = 'bare' if isinstance(stmt, ExprS) and stmt.e is bad else 'spread'
    if k < 0.85:
        # `其不存在` in the body of an object method: the statement that calls the method is one more active call
        cname = '属型%d' % g.fresh()
        stmt.tag = 'inner'
        body = [filler(g, rng) for _ in range(rng.randint(0, 3))] + [stmt, ExprS(Call('显示', [Str('不达')]))]
        if rng.random() < 0.3:
            body = [filler(g, rng), If(Var('真'), body[:-1])] + body[-1:]
        cls = Class(cname, [('名', Str('型'))], [Func('法', [], body)])
        if rng.random() < 0.5:
            v = '物%d' % g.fresh()
            return F(ExprS(MCall(Var(v), [('法', [])])), pre=[Decl([v], New(cname, []))], defs=[cls], inner='inner',
                     kind='member-this-%s-in-object-method' % form)
        return F(ExprS(Call('显示', ml(rng, [MCall(New(cname, []), [('法', [])])]))), defs=[cls], inner='inner',
                 kind='member-this-%s-in-object-method' % form)
    # … in the body of a constructor (the new object is 其 there)
    return F(stmt, in_ctor=True, kind='member-this-%s-in-constructor' % form)


def fault(g, rng):
    if rng.random() < 0.07:
        return c18_decl.fault_decl_call(g, rng)      # (f') a declaration that fails through a call made while it is evaluated
    k = rng.random()
    if k < 0.12:
        return fault_arity(g, rng)
    if k < 0.24:
        return fault_member(g, rng)
    if k < 0.31:
        return fault_not_method(g, rng)
    if k < 0.40:
        return fault_while_cond(g, rng)
    if k < 0.47:
        return fault_library(g, rng)
    if k < 0.57:
        return fault_declaration(g, rng)
    k = rng.random()
    if k < 0.25:
        return F(Throw('异常', [Str('误')]))
    if k < 0.45:
        return F(ExprS(Call('显示', ml(rng, [Bin('/', Num('1'), Num('0'))]))))
    if k < 0.6:
        return F(ExprS(Call('显示', ml(rng, [Var('未定名')]))))
    if k < 0.7:
        return F(ExprS(Call('显示', ml(rng, [Index(Arr([Num('1')]), Num('5'))]))))
    if k < 0.78:
        # an assignment whose right-hand side spans lines
        return F(ExprS(Assign(Var('未定名'), Arr([Str('上\n下'), Num('2')]))))
    if k < 0.9:
        return F(ExprS(MCall(Arr([Num('1')]), [('交换', [Num('5'), Num('6')])])), 'native', kind='builtin-method')
    return F(ExprS(MCall(Num('1'), [('无此法', [])])), 'native', kind='builtin-method')


def gen_import(g, rng):
    """(e) a failing 导入 statement on a line ≥ 2: after comments (single-line, multi-line, a comment text spanning lines), blank lines,
    possibly a successful import.  (zngen.Program: imports = [(libType, name, items, text after the statement)], header = text before
    the first 导入; `import_lines` holds the 0-based line of every 导入 keyword after rendering.)"""
    def gap(lo):
        return ''.join(rng.choice(['注：说明%d\n' % g.fresh(), '\n', '\n', '/* 多行\n   注释%d */\n' % g.fresh(),
                                   '注：“跨行\n注释%d”\n' % g.fresh()]) for _ in range(rng.randint(lo, 3)))
    k = rng.random()
    if k < 0.35:
        ims = ([(1, '@文件', [], '\n' + gap(0))] if rng.random() < 0.4 else []) + [(1, '@无此库%d' % g.fresh(), [], '\n')]
        header, kind = gap(1), 'import-missing-library'
    elif k < 0.5:
        ims = [(2, '无此模块%d' % g.fresh(), [], '\n')]
        header, kind = gap(1), 'import-missing-module'
    else:
        lib, fn = rng.choice([('@JSON', '解析JSON'), ('@JSON', '生成JSON'), ('@文件', None)])
        ims = [(1, lib, [fn] if fn and rng.random() < 0.4 else [], '\n' + gap(0)), (1, lib, [], '\n')]
        header, kind = gap(0), 'import-twice'
    main = [filler(g, rng) for _ in range(rng.randint(0, 3))] + [ExprS(Call('显示', [Str('不达')]))]
    p = Program([], main, imports=ims, header=header)
    p.fault_import = len(ims) - 1       # the failing statement is the last 导入
    return p, 0, None, kind


def gen(g, rng):
    if rng.random() < 0.06:
        return gen_import(g, rng)
    depth = rng.randint(0, 4)
    body = []
    # an earlier handled exception: its frames must not show up later
    handled = rng.random() < 0.5
    # … mostly as 1–3 episodes whose handlers raise again, fail, or handle other failures inside them, entered from the program body or
    # from one of the calls that are active at the fault (props/c18_handled.py); sometimes the plain shape below
    episodes = c18_handled.plan(g, rng, depth) if handled and rng.random() < 0.8 else []
    if episodes:
        handled = False
        body += c18_handled.etype_defs()
        for _at, ep in episodes:
            body += ep.defs
    if handled:
        # … whatever number of calls the exception crossed before it was taken
        hd = rng.randint(1, 3)
        chain = ['内败'] + ['中败%d' % i for i in range(1, hd)]
        body.append(Func('先败', [], [ExprS(Call('显示', [Str('试')])), ExprS(Call(chain[-1], []))],
                         [('异常', [Ret(Num('0'))])] if rng.random() < 0.7 else [('异常', [ExprS(Call('显示', [Str('拦')]))])]))
        for i in range(len(chain) - 1, 0, -1):
            body.append(Func(chain[i], [], [ExprS(Call('显示', [Call(chain[i - 1], [])])), Ret(Num('2'))]))
        body.append(Func('内败', [], [Throw('异常', [Str('早')])]))
    names = ['层%d' % i for i in range(1, depth + 1)]
    uses_other = [False]
    # some levels are user-defined constructors (如何新建型i？): their frame is an active call like any other
    is_ctor = [rng.random() < 0.25 for _ in range(depth)]

    def call_of(i):
        return New('型%d' % (i + 1), []) if is_ctor[i] else Call(names[i], [])
    flt = fault(g, rng)
    if flt.in_ctor:
        # the statement reads 其: it has to stand in a constructor's body
        if depth == 0:
            depth = rng.randint(1, 4)
            names = ['层%d' % i for i in range(1, depth + 1)]
            is_ctor = [rng.random() < 0.25 for _ in range(depth)]
        is_ctor[depth - 1] = True
    fstmt, tail = flt.stmt, flt.tail
    fstmt.tag = 'fault'
    for i in range(depth, 0, -1):
        fb = [filler(g, rng) for _ in range(rng.randint(0, 3))]
        for at, ep in episodes:
            if at == i:
                # an episode that begins and ends while this call (and its callers) are active
                fb += c18_handled.site_stmts(g, rng, ep) + [filler(g, rng) for _ in range(rng.randint(0, 1))]
        if i == depth:
            inner = flt.pre + [fstmt] + list(getattr(flt, 'post', []))   # post: declarations after the failing one
        else:
            inner = ExprS(Call('显示', ml(rng, [call_of(i)])))
            inner.tag = 'call_%d' % i
            inner = [inner]
        k = rng.random()
        if i == depth and flt.bare:
            k = 1.0
        if k < 0.3:
            fb.append(If(Var('真'), [filler(g, rng)] + inner))
        elif k < 0.5:
            c = '计%d' % g.fresh()
            fb.append(Decl([c], Num('0')))
            fb.append(While(Bin('lt', Var(c), Num('1')), [ExprS(Assign(Var(c), Bin('+', Var(c), Num('1'))))] + inner))
        else:
            fb += inner
        # some bodies on the way have handlers — for ANOTHER exception type: the exception passes them untouched, and so do the frames
        # of the calls that failed below
        other = [('旁错', [ExprS(Call('显示', [Str('旁')])), Ret(Num('0'))])] if rng.random() < 0.3 else []
        if other:
            uses_other[0] = True
        if is_ctor[i - 1]:
            body.append(Class('型%d' % i, [('名', Str('型'))], []))
            body.append(Func('型%d' % i, [], fb, other, ctor=True))
        else:
            fb.append(Ret(Num('1')))
            body.append(Func(names[i - 1], [], fb, other))
    main = [filler(g, rng) for _ in range(rng.randint(0, 4))]
    if handled:
        main.append(ExprS(Call('显示', [Call('先败', [])])))
    for at, ep in episodes:
        if at == 0:
            main += c18_handled.site_stmts(g, rng, ep) + [filler(g, rng) for _ in range(rng.randint(0, 1))]
    main += [filler(g, rng) for _ in range(rng.randint(0, 2))]
    if depth == 0:
        main += flt.pre + [fstmt] + list(getattr(flt, 'post', []))
    else:
        c0 = ExprS(Call('显示', ml(rng, [call_of(0)])))
        c0.tag = 'call_0'
        main.append(c0)
    main.append(ExprS(Call('显示', [Str('不达')])))
    if uses_other[0]:
        body.insert(0, Class('旁错', [('内容', Str(''))], []))
    # what the fault needs: definitions (anywhere among the others: they are hoisted), import lines
    for d in flt.defs:
        body.insert(rng.randint(0, len(body)), d) if not isinstance(d, Func) or not d.ctor else body.append(d)
    p = Program([], body + main, imports=flt.imports)
    p.handled_kinds = (['episodes-%d' % len(episodes)] + sorted({k for _at, ep in episodes for k in ep.kinds})) if episodes else \
        (['plain'] if handled else [])
    # tags of the statements inside callees that are active at the fault, outermost first (one tag or a list of tags)
    p.fault_inner = [flt.inner] if isinstance(flt.inner, str) else list(flt.inner or [])
    p.decl_kinds = list(getattr(flt, 'kind_extra', []))
    return p, depth, tail, flt.kind


def run(ctx):
    from props import sites
    sites.report(ctx)   # regenerated site inventory vs the modelled sites (diagnosis of a broken obligation; DESIGN §12)
    g = progs.G(ctx.rng)
    rng = ctx.rng
    n = ctx.n(2500, 60000)
    ps = []
    meta = []
    for _ in range(n):
        p, depth, tail, kind = gen(g, rng)
        ps.append((p, {}))
        meta.append((depth, tail, kind))
    # check_lines: the line a member node (x 之 p / 其 p: the member name's line; x # i: the #'s line) carries in the parsed tree is the
    # line the generator wrote that token on — the evaluator makes exactly this line current when the node is a statement of its own
    srcs, go, model, spec = progs.run_stream(ctx, 'chain', ps, check_lines=('member',),
                                             nontrivial=lambda src, go: '层1' in src or '多行' in src or '第二行' in src or '导入' in src
                                             or '错参' in src or '错型' in src or '法型' in src or '数甲' in src or '“文”' in src
                                             or '败型' in src or '重名' in src or '重型' in src or '无此型' in src or '持' in src or '属型' in src or '唤型' in src)
    # ground truth of the generator vs the rendered error
    wrong = []
    for (p, _), (depth, tail, kind), src, g_out in zip(ps, meta, srcs, go):
        tags = dict(p.tags)
        if getattr(p, 'fault_import', None) is not None:
            tags['fault'] = p.import_lines[p.fault_import]
        exp = ['main:%d' % (tags['call_%d' % i] + 1) for i in range(depth)] + ['main:%d' % (tags['fault'] + 1)]
        for t in getattr(p, 'fault_inner', None) or []:
            exp.append('main:%d' % (tags[t] + 1))
        if tail:
            exp.append(tail)
        case = 'run ' + cps(src)
        f = g_out.split(' ')
        got = f[3] if g_out.startswith('err') and len(f) > 3 else g_out
        ctx.count('chain-depth-%d' % depth)
        ctx.count('fault-' + kind)
        for hk in getattr(p, 'handled_kinds', []):
            ctx.count('handled:' + hk)
        for dk in getattr(p, 'decl_kinds', []):
            ctx.count(dk)
        if got != '>'.join(exp):
            wrong.append((len(src), case, g_out, 'expected chain ' + '>'.join(exp)))
    for _n, case, g_out, exp in sorted(wrong):     # the shortest program first: it heads the replay file
        ctx.violation('chain:ground-truth', case, g_out, exp)
    for what, case, got, want in getattr(ctx, 'node_line_mismatches', []):
        ctx.violation(what, case, got, want)
    ctx.node_line_mismatches = []
    # ---- the same kind of programs with a closed set of their methods / types in an imported module: every entry of the chain names
    # the module its frame runs in (main:<line> / <module>:<line>), lines counted in that module's own file -------------------------
    xs, xmeta = [], {}
    for _ in range(ctx.n(500, 15000)):
        p, depth, tail, kind = gen(g, rng)
        if p.imports:
            continue
        xs.append((p, {}))
        xmeta[id(p)] = (depth, tail, kind)
    split = progs.run_split_stream(ctx, 'chain-modules', xs,
                                   nontrivial=lambda src, go: progs.hx(progs.MODULE_NAME) + ':' in go.split(' | ')[0])
    for p, mainp, modp, msrc, dsrc, g_out in split:
        depth, tail, kind = xmeta[id(p)]
        mt, dt = dict(mainp.tags), dict(modp.tags)

        def where(tag):
            if tag in mt:
                return 'main:%d' % (mt[tag] + 1)
            return '%s:%d' % (progs.hx(progs.MODULE_NAME), dt[tag] + 1)
        exp = [where('call_%d' % i) for i in range(depth)] + [where('fault')]
        for t in getattr(p, 'fault_inner', None) or []:
            exp.append(where(t))
        if tail:
            exp.append(tail)
        f = g_out.split(' ')
        got = f[3] if g_out.startswith('err') and len(f) > 3 else g_out
        ctx.count('chain-modules-frames-in-module-%d' % sum(1 for e in exp if not e.startswith('main:') and e != 'native'))
        if got != '>'.join(exp):
            ctx.violation('chain-modules:ground-truth', 'runfiles 2 %s %s %s %s %s' % (
                progs.hx('主.zn'), cps(msrc), progs.hx(progs.MODULE_NAME + '.zn'), cps(dsrc), progs.hx('主.zn')),
                g_out, 'expected chain ' + '>'.join(exp))
    # ---- hand-written module chains: a module whose FIRST physical line is the one that fails, imports or calls (a frame whose only
    # statement so far stands on line 1 is started like any other) -----------------------------------------------------------------
    hand_mods = [
        ({'主.zn': '注：头\n导入“乙”\n（显示：1）\n', '乙.zn': '（显示：1/0）\n'}, 'main:2>%s:1' % progs.hx('乙')),
        ({'主.zn': '注：头\n\n导入“乙”\n', '乙.zn': '导入“丙”\n（显示：2）\n', '丙.zn': '注：一\n注：二\n（显示：1/0）\n'},
         'main:3>%s:1>%s:3' % (progs.hx('乙'), progs.hx('丙'))),
        ({'主.zn': '导入“乙”\n', '乙.zn': '（显示：（算：0））\n如何算？\n    输入N\n    输出 1/N\n'},
         'main:1>%s:1>%s:4' % (progs.hx('乙'), progs.hx('乙'))),
        ({'主.zn': '导入“乙”\n（显示：（算：0））\n', '乙.zn': '如何算？\n    输入N\n    输出 1/N\n'}, 'main:2>%s:3' % progs.hx('乙')),
        ({'主.zn': '（显示：1/0）\n'}, 'main:1'),
        ({'主.zn': '导入“乙”\n', '乙.zn': '抛出异常：“首行”！\n'}, 'main:1>%s:1' % progs.hx('乙')),
    ]
    hm_lines = []
    for files, _exp in hand_mods:
        parts = []
        for rel, src in files.items():
            parts += [progs.hx(rel), cps(src)]
        hm_lines.append('runfiles %d %s %s' % (len(files), ' '.join(parts), progs.hx('主.zn')))
    hm_go = ctx.run_go(hm_lines)
    for line, g_out, (_files, exp) in zip(hm_lines, hm_go, hand_mods):
        ctx.evaluations += 1
        f = g_out.split(' ')
        got = f[3] if g_out.startswith('err') and len(f) > 3 else g_out
        ctx.count('hand-modules')
        ctx.nontriv(line)
        if got != exp:
            ctx.violation('hand-modules:ground-truth', line, g_out, 'expected chain ' + exp)
    ctx.streams.append({'stream': 'hand-modules', 'cases': len(hm_lines)})
    # ---- syntax errors: a stray token planted on a generator-known line, after wide characters -------------
    syn_lines, syn_expect = [], []
    for src in srcs[: ctx.n(400, 8000)]:
        lines_ = src.split('\n')
        # candidate positions: top-level (unindented) lines after the definitions
        cands = [i for i, l in enumerate(lines_) if l and not l.startswith(' ') and not l.startswith('如何') and not l.startswith('注') and not l.startswith('/*') and '*/' not in l and '”' not in l[:1]]
        cands = [i for i in cands if i > 0 and not lines_[i - 1].rstrip().endswith(('：', '，', '、', '【', '{'))]
        # avoid planting inside a multi-line literal / comment: only lines whose predecessors have balanced quotes
        ok = []
        bal = 0
        for i, l in enumerate(lines_):
            if bal == 0 and i in cands:
                ok.append(i)
            bal += l.count('“') - l.count('”') + l.count('/*') - l.count('*/')
        if not ok:
            continue
        i = rng.choice(ok)
        pre = rng.choice(['', '甲乙丙 ', 'ab ', '数甲 ', '“~” ', '“a~~b”  ', '“甲~” '])   # “ ” ~ are one column wide, CJK two
        bad = lines_[:i] + [pre + '）'] + lines_[i:]
        text = '\n'.join(bad)
        width = sum(2 if ord(c) > 0x2E80 else 1 for c in pre)
        syn_lines.append('run ' + cps(text))
        syn_expect.append('main:%d caret=%d' % (i + 1, width))
    # ---- … and a complete statement followed by an over-indented line: the error is ON that line, at its first token (caret 0) ----
    n_over = 0
    for src in srcs[: ctx.n(400, 8000)]:
        lines_ = src.split('\n')
        ok, bal, deepest, deep_at = [], 0, 0, {}
        for i, l in enumerate(lines_):
            if bal == 0:
                k = (len(l) - len(l.lstrip(' '))) // 4
                if l.strip():
                    deepest = max(deepest, k)
                # line i is complete here: it closes what it opens and does not end in ： ？ ， 、 【 { (输入 lines included since repair 07aabbd)
                b2 = bal + l.count('“') - l.count('”') + l.count('/*') - l.count('*/')
                if b2 == 0 and l.strip() and not l.rstrip().endswith(('：', '？', '，', '、', '【', '{')) and not l.lstrip().startswith(('注', '/*', '//')) \
                        and l.count('（') == l.count('）') and l.count('【') == l.count('】'):
                    ok.append(i)
                    deep_at[i] = (k, deepest)
            bal += l.count('“') - l.count('”') + l.count('/*') - l.count('*/')
        if not ok:
            continue
        i = rng.choice(ok)
        k, deepest = deep_at[i]
        tab = rng.random() < 0.5
        unit = '\t' if tab else '    '
        if tab:
            # the whole program indented with TABs (lines inside a multi-line literal or comment keep their text)
            bal, conv = 0, []
            for l in lines_:
                if bal == 0:
                    n4 = (len(l) - len(l.lstrip(' '))) // 4
                    conv.append('\t' * n4 + l[4 * n4:])
                else:
                    conv.append(l)
                bal += l.count('“') - l.count('”') + l.count('/*') - l.count('*/')
            lines_ = conv
        steps = rng.choice([k + 1, k + 1, k + 2, deepest + 1])
        between = rng.choice([[], [], [''], ['注：说明']])
        body = rng.choice(['（显示：“余”）', '输出9', '令余设为1', '余', '）', '否则：', '拦截异常：'])
        bad = lines_[:i + 1] + between + [unit * steps + body] + lines_[i + 1:]
        syn_lines.append('run ' + cps('\n'.join(bad)))
        syn_expect.append('main:%d caret=0' % (i + 1 + len(between) + 1))
        n_over += 1
        ctx.count('syntax-overindent-' + ('tab' if tab else 'spaces'))
    # ---- … and an exec block that ends while still in its 输入 section (repair 07aabbd): a line indented deeper / less than the 输入 line right
    # after it → the error is ON that line (caret 0); the 输入 line last in the text → at the end of the text (its line, caret = its width)
    n_after = 0
    inp_srcs = list(srcs[: ctx.n(400, 8000)]) + ['如何算？\n    输入N\n    输出 N\n（显示：（算：1））', '如何外？\n    输入N\n    如何内？\n        输入M、K\n        输出 M\n    输出 N\n（显示：1）',
                                                 '定义盒：\n    其甲设为1\n    如何取？\n        输入N\n        输出 N\n（显示：2）'] * ctx.n(4, 40)
    for src in inp_srcs:
        lines_ = src.split('\n')
        ok, bal = [], 0
        for i, l in enumerate(lines_):
            b2 = bal + l.count('“') - l.count('”') + l.count('/*') - l.count('*/')
            if bal == 0 and b2 == 0 and l.lstrip(' ').startswith('输入') and not l.rstrip().endswith(('、', '，', '输入')) \
                    and (len(l) - len(l.lstrip(' '))) % 4 == 0 and '注' not in l and '//' not in l:
                ok.append(i)
            bal = b2
        if not ok:
            continue
        i = rng.choice(ok)
        k = (len(lines_[i]) - len(lines_[i].lstrip(' '))) // 4
        kind = rng.choice(['over', 'dedent', 'last'] if k > 0 else ['over', 'last'])
        if kind == 'last':
            tail = rng.choice(['', '', '\n', '\n\n', '\n注：说明', '\n' + '    ' * k + '// x', '\n/* 多\n行 */', '\n' + '    ' * k])
            text = '\n'.join(lines_[:i + 1]) + tail
            last = text.split('\n')[-1].lstrip(' ')
            exp = 'main:%d caret=%d' % (text.count('\n') + 1, sum(2 if ord(c) > 0x2E80 else 1 for c in last))
        else:
            steps = k + rng.choice([1, 1, 2]) if kind == 'over' else rng.randrange(k)
            between = rng.choice([[], [], [''], ['注：说明'], ['/* 多\n行 */']])
            body = rng.choice(['（显示：“余”）', '输出9', '令余设为1', '余', '）', '否则：', '拦截异常：'])
            text = '\n'.join(lines_[:i + 1] + between + ['    ' * steps + body] + lines_[i + 1:])
            exp = 'main:%d caret=0' % ('\n'.join(lines_[:i + 1] + between).count('\n') + 2)
        syn_lines.append('run ' + cps(text))
        syn_expect.append(exp)
        n_after += 1
        ctx.count('syntax-after-input-line-' + kind)
    syn_go = ctx.run_go(syn_lines)
    for line, g_out, exp in zip(syn_lines, syn_go, syn_expect):
        ctx.evaluations += 1
        ctx.count('syntax-planted')
        f = g_out.split(' ')
        got = ' '.join(f[3:5]) if g_out.startswith('err syn') and len(f) >= 5 else g_out
        if got != exp:
            ctx.violation('syntax:ground-truth', line, g_out, 'expected syntax error at ' + exp)
        ctx.nontriv(line)
    ctx.streams.append({'stream': 'syntax-planted', 'cases': len(syn_lines), 'overindented': n_over, 'after_input_line': n_after})
    # ---- the same broken texts as an IMPORTED module (real files): the error names that module, the line and the caret are the ones
    # of the module's own text; nothing of the importing file has run, the modules imported before it have
    def _files(files, main):
        return 'runfiles %d %s %s' % (len(files), ' '.join('%s %s' % (hx(n + '.zn'), cps(t)) for n, t in files), hx(main + '.zn'))
    good = '（显示：“好”）\n如何好法？\n    输出1'
    mod_lines, mod_expect = [], []
    picks = [k for k, g_out in enumerate(syn_go) if g_out.startswith('err syn')]
    for k in rng.sample(picks, min(len(picks), ctx.n(60, 1500))):
        text = ''.join(chr(int(x, 16)) for x in syn_lines[k].split(' ')[1].split('.'))
        code = syn_go[k].split(' ')[2]
        shape = rng.choice(['direct', 'after-good', 'nested', 'subdir'])
        head = rng.choice(['', '注：说明\n', '\n\n'])
        name, files, trace = '坏', [], '-'
        if shape == 'direct':
            files = [('主', head + '导入“坏”\n（显示：“主”）'), ('坏', text)]
        elif shape == 'after-good':
            files = [('主', head + '导入“好”\n导入“坏”\n（显示：“主”）'), ('好', good), ('坏', text)]
            trace = hx('好')
        elif shape == 'nested':
            files = [('主', head + '导入“好”\n导入“中”\n（显示：“主”）'), ('好', good), ('中', '导入“坏”\n（显示：“中”）'), ('坏', text)]
            trace = hx('好')
        else:
            name = '子-坏'
            files = [('主', head + '导入“子-坏”\n（显示：“主”）'), ('子/坏', text)]
        mod_lines.append(_files(files, '主'))
        mod_expect.append('err syn %s %s:%s | %s' % (code, hx(name), syn_expect[k].split(':', 1)[1], trace))
        ctx.count('syntax-in-module-' + shape)
    for line, g_out, exp in zip(mod_lines, ctx.run_go(mod_lines), mod_expect):
        ctx.evaluations += 1
        if g_out != exp:
            ctx.violation('syntax-in-module:ground-truth', line, g_out, 'expected ' + exp)
        ctx.nontriv(line)
    ctx.streams.append({'stream': 'syntax-in-module', 'cases': len(mod_lines)})
    # the same programs with CRLF line ends: physical lines are the same
    crlf = [s.replace('\n', '\r\n') for s in srcs[: max(200, n // 5)]]
    lines = ['run ' + cps(s) for s in crlf]
    go2 = ctx.run_go(lines)
    for s, a, b in zip(lines, go2, go):
        ctx.evaluations += 1
        if a.split(' | ')[0] != b.split(' | ')[0]:
            # results may legitimately differ only when a multi-line literal is part of the displayed result (CR inside the text)
            ctx.violation('chain:crlf', s, a, b)
    ctx.streams.append({'stream': 'chain-crlf', 'cases': len(lines)})
    from props import c18_lineends   # the same kind of programs with MIXED line ends and blank runs, judged by the spec's physical lines
    mixed = []
    while len(mixed) < ctx.n(600, 15000):
        p, d, t, _kind = gen(g, rng)
        if p.imports:
            continue      # the mixed renderer lays out the statement block only: programs with an import block stay in the chain stream
        mixed.append((p, ['call_%d' % i for i in range(d)] + ['fault'] + list(p.fault_inner or []), t))
    c18_lineends.run_mixed(ctx, g, mixed)
