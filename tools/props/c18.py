"""C18 — errors point at the line and call chain where they arose.
Runtime stream: programs with one fault planted at a generator-known line and call depth; the generator's ground
truth (line of the innermost statement, call-site line of every active call) is compared with the location lines of
the rendered error; the same programs go through the three-way run (Go = model = spec result/trace)."""
from props import progs
from props.progs import replay  # noqa
from zngen import *

RULE = ("programs with one fault (抛出, 1/0, undefined name, index out of range, failing built-in) planted at a known line inside a chain "
        "of 0–4 nested calls, inside branches/loops, after earlier handled exceptions (stale frames must not appear), after single- and "
        "multi-line comments and multi-line text literals (physical line counting), with LF or CRLF line ends; syntax errors planted on a "
        "generator-known line: a stray ） after wide characters (caret column), and a line inserted after a complete statement that is indented "
        "deeper than that statement, with spaces or TABs (error 20 on THAT line, caret 0); expected chain = call-site "
        "line of every active call, innermost statement line last. Non-trivial = call depth ≥ 1 or a multi-line construct before the fault.")
ASSUMPTIONS = ["all frames are in the main module in this stream (cross-module chains are exercised by C15's module stream)"]
PARTIAL = ("syntax-error line/caret (lexer Lines table, error printer) are the lexer/parser workers' theorems; this module covers runtime "
           "errors and uncaught exceptions")


def filler(g, rng):
    k = rng.random()
    if k < 0.3:
        return ExprS(Call('显示', [Num(str(g.fresh()))]))
    if k < 0.45:
        return Raw('注：说明%d' % g.fresh())
    if k < 0.55:
        return Raw('/* 多行\n   注释%d */' % g.fresh())
    if k < 0.65:
        return Raw('注：“跨行\n注释%d”' % g.fresh())
    if k < 0.8:
        v = '文%d' % g.fresh()
        lit = rng.choice(['第一行\n第二行\n三', '第一行\n第二行\n三', '首`行\n次行\n三', '首行`\n次行', '首`未闭\n次行\n`三'])
        d = Decl([v], Str(lit))
        return d
    v = '数%d' % g.fresh()
    return Decl([v], Num(str(rng.randint(0, 9))))


def ml(rng, args):
    """with some probability the call gets a multi-line text as its first argument: the statement then spans several physical
    lines, and its line is the one it STARTS on"""
    if rng.random() < 0.3:
        return [Str(rng.choice(['上\n下', '一\n二\n三', '末\n']))] + args
    return args


def fault(g, rng):
    k = rng.random()
    if k < 0.25:
        return Throw('异常', [Str('误')]), None
    if k < 0.45:
        return ExprS(Call('显示', ml(rng, [Bin('/', Num('1'), Num('0'))]))), None
    if k < 0.6:
        return ExprS(Call('显示', ml(rng, [Var('未定名')]))), None
    if k < 0.7:
        return ExprS(Call('显示', ml(rng, [Index(Arr([Num('1')]), Num('5'))]))), None
    if k < 0.78:
        # an assignment whose right-hand side spans lines
        return ExprS(Assign(Var('未定名'), Arr([Str('上\n下'), Num('2')]))), None
    if k < 0.9:
        return ExprS(MCall(Arr([Num('1')]), [('交换', [Num('5'), Num('6')])])), 'native'
    return ExprS(MCall(Num('1'), [('无此法', [])])), 'native'


def gen(g, rng):
    depth = rng.randint(0, 4)
    body = []
    # an earlier handled exception: its frames must not show up later
    handled = rng.random() < 0.5
    if handled:
        # … whatever number of calls the exception crossed before it was taken
        hd = rng.randint(1, 3)
        chain = ['内败'] + ['中败%d' % i for i in range(1, hd)]
        body.append(Func('先败', [], [ExprS(Call('显示', [Str('试')])), ExprS(Call(chain[-1], []))],
                         [('异常', [Ret(Num('0'))])] if rng.random() < 0.7 else [('异常', [ExprS(Call('显示', [Str('拦')]))])]))
        for i in range(len(chain) - 1, 0, -1):
            body.append(Func(chain[i], [], [ExprS(Call('显示', [Call(chain[i - 1], [])])), Ret(Num('2'))]))
        body.append(Func('内败', [], [Throw('异常', [Str('早')])]))
    names = ['层%d' % i for i in range(1, depth + 1)]
    uses_other = [False]
    # some levels are user-defined constructors (如何新建型i？): their frame is an active call like any other
    is_ctor = [rng.random() < 0.25 for _ in range(depth)]

    def call_of(i):
        return New('型%d' % (i + 1), []) if is_ctor[i] else Call(names[i], [])
    fstmt, tail = fault(g, rng)
    fstmt.tag = 'fault'
    for i in range(depth, 0, -1):
        fb = [filler(g, rng) for _ in range(rng.randint(0, 3))]
        if i == depth:
            inner = fstmt
        else:
            inner = ExprS(Call('显示', ml(rng, [call_of(i)])))
            inner.tag = 'call_%d' % i
        k = rng.random()
        if k < 0.3:
            fb.append(If(Var('真'), [filler(g, rng), inner]))
        elif k < 0.5:
            c = '计%d' % g.fresh()
            fb.append(Decl([c], Num('0')))
            fb.append(While(Bin('lt', Var(c), Num('1')), [ExprS(Assign(Var(c), Bin('+', Var(c), Num('1')))), inner]))
        else:
            fb.append(inner)
        # some bodies on the way have handlers — for ANOTHER exception type: the exception passes them untouched, and so do the frames
        # of the calls that failed below
        other = [('旁错', [ExprS(Call('显示', [Str('旁')])), Ret(Num('0'))])] if rng.random() < 0.3 else []
        if other:
            uses_other[0] = True
        if is_ctor[i - 1]:
            body.append(Class('型%d' % i, [('名', Str('型'))], []))
            body.append(Func('型%d' % i, [], fb, other, ctor=True))
        else:
            fb.append(Ret(Num('1')))
            body.append(Func(names[i - 1], [], fb, other))
    main = [filler(g, rng) for _ in range(rng.randint(0, 4))]
    if handled:
        main.append(ExprS(Call('显示', [Call('先败', [])])))
    main += [filler(g, rng) for _ in range(rng.randint(0, 2))]
    if depth == 0:
        main.append(fstmt)
    else:
        c0 = ExprS(Call('显示', ml(rng, [call_of(0)])))
        c0.tag = 'call_0'
        main.append(c0)
    main.append(ExprS(Call('显示', [Str('不达')])))
    if uses_other[0]:
        body.insert(0, Class('旁错', [('内容', Str(''))], []))
    return Program([], body + main), depth, tail


def run(ctx):
    g = progs.G(ctx.rng)
    rng = ctx.rng
    n = ctx.n(2500, 60000)
    ps = []
    meta = []
    for _ in range(n):
        p, depth, tail = gen(g, rng)
        ps.append((p, {}))
        meta.append((depth, tail))
    srcs, go, model, spec = progs.run_stream(ctx, 'chain', ps,
                                             nontrivial=lambda src, go: '层1' in src or '多行' in src or '第二行' in src)
    # ground truth of the generator vs the rendered error
    for (p, _), (depth, tail), src, g_out in zip(ps, meta, srcs, go):
        tags = p.tags
        exp = ['main:%d' % (tags['call_%d' % i] + 1) for i in range(depth)] + ['main:%d' % (tags['fault'] + 1)]
        if tail:
            exp.append(tail)
        case = 'run ' + cps(src)
        f = g_out.split(' ')
        got = f[3] if g_out.startswith('err') and len(f) > 3 else g_out
        ctx.count('chain-depth-%d' % depth)
        if got != '>'.join(exp):
            ctx.violation('chain:ground-truth', case, g_out, 'expected chain ' + '>'.join(exp))
    # ---- syntax errors: a stray token planted on a generator-known line, after wide characters -------------
    syn_lines, syn_expect = [], []
    for src in srcs[: ctx.n(400, 8000)]:
        lines_ = src.split('\n')
        # candidate positions: top-level (unindented) lines after the definitions
        cands = [i for i, l in enumerate(lines_) if l and not l.startswith(' ') and not l.startswith('如何') and not l.startswith('注') and not l.startswith('/*') and '*/' not in l and '”' not in l[:1]]
        cands = [i for i in cands if i > 0 and not lines_[i - 1].rstrip().endswith(('：', '，', '、', '【', '{'))]
        # avoid planting inside a multi-line literal / comment: only lines whose predecessors have balanced quotes
        ok = []
        bal = 0
        for i, l in enumerate(lines_):
            if bal == 0 and i in cands:
                ok.append(i)
            bal += l.count('“') - l.count('”') + l.count('/*') - l.count('*/')
        if not ok:
            continue
        i = rng.choice(ok)
        pre = rng.choice(['', '甲乙丙 ', 'ab ', '数甲 ', '“~” ', '“a~~b”  ', '“甲~” '])   # “ ” ~ are one column wide, CJK two
        bad = lines_[:i] + [pre + '）'] + lines_[i:]
        text = '\n'.join(bad)
        width = sum(2 if ord(c) > 0x2E80 else 1 for c in pre)
        syn_lines.append('run ' + cps(text))
        syn_expect.append('main:%d caret=%d' % (i + 1, width))
    # ---- … and a complete statement followed by an over-indented line: the error is ON that line, at its first token (caret 0) ----
    n_over = 0
    for src in srcs[: ctx.n(400, 8000)]:
        lines_ = src.split('\n')
        ok, bal, deepest, deep_at = [], 0, 0, {}
        for i, l in enumerate(lines_):
            if bal == 0:
                k = (len(l) - len(l.lstrip(' '))) // 4
                if l.strip():
                    deepest = max(deepest, k)
                # line i is complete here: it closes what it opens, does not end in ： ？ ， 、 【 {, and is not a 输入 line
                b2 = bal + l.count('“') - l.count('”') + l.count('/*') - l.count('*/')
                if b2 == 0 and l.strip() and not l.rstrip().endswith(('：', '？', '，', '、', '【', '{')) and not l.lstrip().startswith(('输入', '注', '/*', '//')) \
                        and l.count('（') == l.count('）') and l.count('【') == l.count('】'):
                    ok.append(i)
                    deep_at[i] = (k, deepest)
            bal += l.count('“') - l.count('”') + l.count('/*') - l.count('*/')
        if not ok:
            continue
        i = rng.choice(ok)
        k, deepest = deep_at[i]
        tab = rng.random() < 0.5
        unit = '\t' if tab else '    '
        if tab:
            # the whole program indented with TABs (lines inside a multi-line literal or comment keep their text)
            bal, conv = 0, []
            for l in lines_:
                if bal == 0:
                    n4 = (len(l) - len(l.lstrip(' '))) // 4
                    conv.append('\t' * n4 + l[4 * n4:])
                else:
                    conv.append(l)
                bal += l.count('“') - l.count('”') + l.count('/*') - l.count('*/')
            lines_ = conv
        steps = rng.choice([k + 1, k + 1, k + 2, deepest + 1])
        between = rng.choice([[], [], [''], ['注：说明']])
        body = rng.choice(['（显示：“余”）', '输出9', '令余设为1', '余', '）', '否则：', '拦截异常：'])
        bad = lines_[:i + 1] + between + [unit * steps + body] + lines_[i + 1:]
        syn_lines.append('run ' + cps('\n'.join(bad)))
        syn_expect.append('main:%d caret=0' % (i + 1 + len(between) + 1))
        n_over += 1
        ctx.count('syntax-overindent-' + ('tab' if tab else 'spaces'))
    syn_go = ctx.run_go(syn_lines)
    for line, g_out, exp in zip(syn_lines, syn_go, syn_expect):
        ctx.evaluations += 1
        ctx.count('syntax-planted')
        f = g_out.split(' ')
        got = ' '.join(f[3:5]) if g_out.startswith('err syn') and len(f) >= 5 else g_out
        if got != exp:
            ctx.violation('syntax:ground-truth', line, g_out, 'expected syntax error at ' + exp)
        ctx.nontriv(line)
    ctx.streams.append({'stream': 'syntax-planted', 'cases': len(syn_lines), 'overindented': n_over})
    # the same programs with CRLF line ends: physical lines are the same
    crlf = [s.replace('\n', '\r\n') for s in srcs[: max(200, n // 5)]]
    lines = ['run ' + cps(s) for s in crlf]
    go2 = ctx.run_go(lines)
    for s, a, b in zip(lines, go2, go):
        ctx.evaluations += 1
        if a.split(' | ')[0] != b.split(' | ')[0]:
            # results may legitimately differ only when a multi-line literal is part of the displayed result (CR inside the text)
            ctx.violation('chain:crlf', s, a, b)
    ctx.streams.append({'stream': 'chain-crlf', 'cases': len(lines)})
    from props import c18_lineends   # the same kind of programs with MIXED line ends and blank runs, judged by the spec's physical lines
    c18_lineends.run_mixed(ctx, g, [(p, ['call_%d' % i for i in range(d)] + ['fault'], t) for p, d, t in (gen(g, rng) for _ in range(ctx.n(600, 15000)))])
