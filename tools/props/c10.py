"""C10 — no program can crash the host process.

The property oracle is the same for every stream: the answer of the REAL code is a value or a Zn error; it is never
`panic` (a Go runtime panic, recovered only by the harness), never contains `nil!` (a nil element handed to the
caller), never `crash …` (the process died: stack overflow, fatal error) and never `timeout`.

Streams
  members:<type>   the FULL product receiver × member of the regenerated tables (Generated/Members, read through the driver
                   op `members`) × argument tuples from a boundary pool: arity 0, 1 (whole pool), 2 (core pool squared;
                   thorough: whole pool squared) complete, arity 3–4 sampled (thorough: arity 3 complete over the core pool)
  cross            every member name of every table (and unknown / empty names) applied to receivers of every OTHER type
  index            `#` read / write on every receiver with every pool value as index (value.New{Array,HashMap}IV … Reduce{R,L}HS)
  member-iv        之 read / write through value.NewMemberIV
  construct        Construct of every constructable value (user class, 异常, 数值, HTTP请求, HTTP响应) and of the others
  call             Function.Exec(nil, args) of the user method, 显示, 取随机数 and every registered library function
                   (file functions only see paths inside a private temporary directory)
  misc             String(), DuplicateValue, CompareValues with the three verbs (and an unknown one)
  varinput         ExecVarInputText / ExecExpressionInputText: valid assignments, undefined names, 其, calls, garbage, texts whose tree
                   fails each of the tree checks; Go = model (Model/VarInput.lean: parser model + evaluator model in an empty VM);
                   varinput:trace the same with the display trace and ExecExpressionInputText on several entries (one shared VM);
                   varinput:tree the model's tree-level entry points on the tree the REAL parser built
  httpval          Construct of HTTP请求 / HTTP响应 (pkg/common) with every argument tuple of arity ≤ 2 over the pool, a third / fourth
                   argument behind well-typed pairs, then EVERY property of the object and the arguments afterwards: Go = model
                   (Model/HttpValues.lean; the member sweep above also compares objects and classes of the two with the model)
  loop-self        every list / dictionary method (complete tables) applied inside a 遍历 loop to the collection being traversed:
                   receivers of 0–4 items × argument forms (loop variables, constants, the collection itself) × loop forms
  programs         ill-typed generated PROGRAMS through `run`: every step (random member / method / operator / index /
                   constructor / library call / control statement on values of random types; loops whose body applies the
                   collection's own methods / item writes / reassignment to the collection being traversed) in its own method with a
                   拦截异常 handler so that the run goes on after each fault; constructors for predefined names; 其 / 此
                   outside methods; nested definitions
  mods             two- and three-MODULE programs (op `runfiles`, props/c10mods.py): method values, objects and classes cross module
                   borders (passed, returned, stored in lists, called / constructed over there), faults of every kind planted at
                   lines placed against the END of the other module's line table (short helper / long main and the reverse), every
                   error rendered; judged: no panic / crash / timeout and a well-formed rendered error; evaluator model
                   (`runfilesast`) compared where it answers
Correspondence Go ≈ model is checked on every `value` case the model answers (list, dictionary, number and text
members, `#` / 之 reductions, default and 异常 constructors, 显示, display, copy, equality); the rest is `unmodelled`
(texts that are not valid UTF-8, case mapping of non-English cased letters, 转换数值 on inf / nan / hexadecimal /
underscore spellings and on numerals that may be out of range, library functions).
"""
import os, subprocess, sys
from zngen import *
import framework as fw

RULE = ("one case = one application of one member / index / constructor / library function / input text to one receiver and one "
        "argument tuple, run on the real code (harness op `value`), or one ill-typed generated program (op `run`). Full product "
        "receiver pool × member tables × argument pool for arity ≤ 2 (quick: core pool squared, thorough: whole pool squared), arity "
        "3–4 sampled; quick ≈ 150 000 calls, thorough ≈ 3 000 000. A case is non-trivial when the call reached a member function "
        "(the answer is not 'no such property/method') or, for programs, when at least one step ran past its first statement.")
ASSUMPTIONS = [
    "a Go panic inside an operation is observed through recover() in the harness; a fatal runtime error (stack overflow) through the death of the worker process",
    "file functions are exercised only on paths inside a private temporary directory (the harness maps the first text argument)",
    "user methods called directly on an object by a host (no VM frame) answer an error; inside programs they run in a live VM (programs stream)",
    "the predefined 数值 is one process-wide object (mutable: C16): its cases are compared with the model on the outcome class only",
]
PARTIAL = ("file and network primitives are OS calls (error paths sampled, not proved); Go stack exhaustion by unbounded recursion of "
           "user methods is outside the quantifier; library functions are swept on the real code but have "
           "no Lean model (the HTTP value classes and the input-variable texts are modelled: Model/HttpValues.lean, Model/VarInput.lean); the text methods are modelled inside TextFragment (partlyModelledMembers: case mapping of non-English cased letters "
           "and the special spellings / possible overflow of strconv.ParseFloat answer notModelled and are swept on the real code only)")

F = {  # float64 bit patterns
    '0': '0000000000000000', '-0': '8000000000000000', '1': '3ff0000000000000', '-1': 'bff0000000000000',
    '2': '4000000000000000', '3': '4008000000000000', '0.5': '3fe0000000000000', '-2.5': 'c004000000000000',
    'inf': '7ff0000000000000', '-inf': 'fff0000000000000', '2^63': '43e0000000000000', '-2^63': 'c3e0000000000000',
    '1e308': '7fe1ccf385ebc8a0', 'tiny': '0000000000000001', '1e30': '46293e5939a08cea', '-1e30': 'c6293e5939a08cea',
    '9': '4022000000000000', '-10': 'c024000000000000', '4': '4010000000000000', '-2': 'c000000000000000',
    '-4': 'c010000000000000', '2.5': '4004000000000000', '-3': 'c008000000000000',
}


def N(k):
    return 'n:nan' if k == 'nan' else 'n:' + F[k]


def S(t):
    return 's:' + (t.encode('utf-8').hex() if isinstance(t, str) else t.hex()) if t else 's:-'


# the core pool (14 values: one of every kind the code distinguishes, numbers at every boundary)
CORE = [N('1'), N('-1'), N('0.5'), N('nan'), N('inf'), N('2^63'), S(''), S('a'), S(b'\xff'), 'b:1', 'null', '[]',
        '{61=%s}' % N('1'), 'obj']
EXT = [N('0'), N('-0'), N('2'), N('3'), N('-inf'), N('-2^63'), N('1e308'), N('tiny'), N('-2.5'), N('-10'),
       S('\U0001F600'), S('你好'), S('a,b'), S('{#1}'), 'b:0', '[%s,[%s]]' % (N('1'), S('a')), '[%s,%s]' % (S('a'), S('b')),
       '{}', '{61={62=null}}', 'fn', 'cls', 'exc:61', 'predef', 'go:x', 'req', 'reqcls',
       # the receiver itself as an argument, bare and inside a fresh list / dictionary (aliasing: a collection must
       # never come to contain itself — displaying or copying it would exhaust the Go stack)
       'self', '[self]', '{61=self}']
POOL = CORE + EXT
# positions around the ends of the receivers of the pool (lengths 0…3): every pair is tried on lists and texts
INDEXES = [N(k) for k in ('0', '1', '2', '3', '4', '-1', '-2', '-3', '-4', '-10', '0.5', '2.5')]
INDEXES_QUICK = [N(k) for k in ('0', '1', '2', '3', '4', '-1', '-4', '-10', '2.5')]

RECEIVERS = {
    'number': [N('0'), N('-0'), N('1'), N('-1'), N('0.5'), N('-2.5'), N('nan'), N('inf'), N('-inf'), N('2^63'), N('1e308'),
               N('tiny'), 'predef'],
    'string': [S(''), S('a'), S('abc'), S('你好'), S('\U0001F600x'), S(b'\xff'), S(b'a\xffb'), S('12'), S('1*^3'),
               S('{#1}-{#2}'), S('  a b  '), S('1*10^400')],
    'bool': ['b:1', 'b:0'],
    'null': ['null'],
    'array': ['[]', '[%s]' % N('1'), '[%s,%s,null]' % (N('1'), S('a')), '[[],[%s]]' % N('1'), '[%s,%s]' % (S('a'), S('b')),
              '[obj]', '[[[[]]]]', '[{}]', '[%s,%s,%s]' % (N('1'), N('2'), N('3'))],
    'hashmap': ['{}', '{61=%s}' % N('1'), '{61=%s,62=[%s]}' % (N('1'), N('1')), '{61={62=%s}}' % N('1'), '{-=null}',
                # a literal that names a key twice (NewHashMap keeps the first position and the last value)
                '{61=%s,61=%s}' % (N('1'), N('2')), '{61=%s,62=null,61=[%s]}' % (N('1'), N('3'))],
    'object': ['obj', 'req', 'resp'],
    'class': ['cls', 'glob:' + '异常'.encode().hex(), 'reqcls', 'respcls'],
    'function': ['fn', 'glob:' + '显示'.encode().hex(), 'glob:' + '取随机数'.encode().hex()],
    'exception': ['exc:61', 'exc:-'],
    'govalue': ['go:x'],
}
# quick tier: the full product runs on these receivers of the two biggest tables (every receiver in thorough, and in
# the cross / index / misc streams of both tiers)
QUICK_RECEIVERS = {
    'number': [N('0'), N('1'), N('-2.5'), N('nan'), N('inf'), N('2^63'), 'predef'],
    'string': [S(''), S('abc'), S('你好'), S('\U0001F600x'), S(b'a\xffb'), S('1*^3'), S('{#1}-{#2}'), S('  a b  ')],
}
OBJECT_MEMBERS = [('g', 'a'), ('g', 'b'), ('s', 'a'), ('s', 'b'), ('m', '取a'), ('m', '加'), ('m', '坏'), ('g', '自身'),
                  ('g', 'URL'), ('s', '头部'), ('g', '状态码')]
UNKNOWN_NAMES = ['没有此项', '', 'a', '自身', '文本 ']


def hx(s):
    return s.encode('utf-8').hex() if s else '-'


def bad_answer(g):
    return g.startswith('panic') or g.startswith('crash') or g.startswith('timeout') or 'nil!' in g


def is_bug_answer(g):
    return g.startswith('bad-') or g == 'skip' or g == 'notrun'


def load_tables(ctx):
    line = ctx.run_lean(['members'], parallel=False)[0]
    t = {'types': [], 'members': {}, 'ctor': [], 'libs': [], 'globals': [], 'classes': []}
    for tok in line.split(' '):
        k, _, rest = tok.partition(':')
        f = rest.split(':')
        if k == 'T':
            t['types'].append(f[0])
            t['members'].setdefault(f[0], [])
        elif k == 'M':
            t['members'].setdefault(f[0], []).append((f[1], bytes.fromhex(f[2]).decode() if f[2] != '-' else ''))
        elif k == 'K':
            t['ctor'].append(f[0])
        elif k == 'L':
            t['libs'].append((bytes.fromhex(f[0]).decode(), f[1], bytes.fromhex(f[2]).decode()))
        elif k == 'G':
            t['globals'].append(bytes.fromhex(f[0]).decode())
        elif k == 'C':
            t['classes'].append((bytes.fromhex(f[0]).decode(), [bytes.fromhex(x).decode() for x in f[1].split(',') if x], f[2].split(',')))
    if not t['members'] or not t['libs'] or not t['globals']:
        raise RuntimeError('member tables could not be read from the driver: ' + line[:200])
    return t


# ---------------------------------------------------------------------------------------------------
# judging one batch

def go_run(ctx, cases, timeout_ms=6000, parallel=True):
    """the harness with its working directory inside the run's private directory (relative file names used by programs
    stay there; the file functions of the `value` op work in per-process sub-directories of it)"""
    tmp = getattr(ctx, 'c10_tmp', None)
    if tmp is None:
        import tempfile
        tmp = ctx.c10_tmp = tempfile.mkdtemp(prefix='znv-c10-')
        open(tmp + '/存在.txt', 'w').write('内容')
    env = dict(os.environ, ZNH_TIMEOUT_MS=str(timeout_ms), ZNH_C10_DIR=tmp, GOMAXPROCS='2')
    return fw.run_lines(['sh', '-c', 'cd "$0" && exec "$1"', tmp, fw.B + '/znharness'], cases, env=env, parallel=parallel, restart=True)


def cleanup(ctx):
    tmp = getattr(ctx, 'c10_tmp', None)
    if tmp:
        import shutil
        shutil.rmtree(tmp, ignore_errors=True)
        ctx.c10_tmp = None


def judge(ctx, stream, cases, compare_model=True):
    go = go_run(ctx, cases)
    model = ctx.run_lean(cases) if compare_model else None
    nbad = 0
    for i, c in enumerate(cases):
        g = go[i]
        ctx.evaluations += 1
        if is_bug_answer(g):
            raise RuntimeError('generator/harness bug: %s -> %s' % (c, g))
        if g.startswith(('timeout', 'crash')):
            # a timed-out or crashed operation is re-run alone with a generous watchdog before it is judged
            g = go_run(ctx, [c], timeout_ms=30000, parallel=False)[0]
            ctx.count(stream + ':rerun-alone')
        if bad_answer(g):
            nbad += 1
            ctx.violation(stream, c, g, 'a value or a Zn error (never panic / nil / crash / timeout)')
            ctx.count(stream + ':' + g.split(' ')[0])
            continue
        if model is not None:
            m = model[i]
            if m == 'unmodelled':
                ctx.count(stream + ':unmodelled')
            elif is_bug_answer(m):
                raise RuntimeError('driver bug: %s -> %s' % (c, m))
            else:
                ctx.count(stream + ':modelled')
                same = (g == m)
                if not same and ('reqcls' in c or 'respcls' in c):
                    # the JSON exception of the HTTP constructors quotes encoding/json's own words: message text is never compared
                    import re
                    nx = lambda x: re.sub(r'err sigexc exc:[0-9a-f-]+', 'err sigexc', x)
                    same = nx(g) == nx(m)
                if not same and 'predef' in c:
                    same = g.split(' ')[:3] == m.split(' ')[:3] if g.startswith('err') else g.split(' ')[0] == m.split(' ')[0]
                if not same:
                    ctx.disagreement(stream, c, g, m)
        head = g.split(' | ')[0]
        if head not in ('err rt 45', 'err rt 46'):
            ctx.nontriv(c)
        ctx.count(stream + ':' + (' '.join(head.split(' ')[:3]) if head.startswith('err') else 'ok'))
    if len(ctx.samples) < 10 and cases:
        k = len(cases) // 2
        ctx.sample({'stream': stream, 'case': cases[k], 'go': go[k], 'model': model[k] if model else None})
    return nbad


class Batcher:
    """collects cases per stream and flushes in batches (memory: thorough tier produces millions of lines)"""

    def __init__(self, ctx, size=250000):
        self.ctx, self.size = ctx, size
        self.buf = {}
        self.total = {}

    def add(self, stream, case):
        b = self.buf.setdefault(stream, [])
        b.append(case)
        if len(b) >= self.size:
            self.flush(stream)

    def flush(self, stream=None):
        for s in ([stream] if stream else list(self.buf)):
            b = self.buf.get(s) or []
            if b:
                judge(self.ctx, s, b)
                self.total[s] = self.total.get(s, 0) + len(b)
                self.buf[s] = []

    def done(self):
        self.flush()
        for s, n in sorted(self.total.items()):
            self.ctx.streams.append({'stream': s, 'cases': n})


def line(recv, kind, member, args=()):
    return 'value %s %s %s%s' % (recv, kind, hx(member), ''.join(' ' + a for a in args))


# ---------------------------------------------------------------------------------------------------
# the sweep

def arg_tuples(ctx, arity_full2, n3, n4):
    """arity 0, 1 complete over POOL; arity 2 complete over `arity_full2`²"""
    yield ()
    for a in POOL:
        yield (a,)
    for a in arity_full2:
        for b in arity_full2:
            yield (a, b)


def sweep(ctx, t):
    rng = ctx.rng
    quick = ctx.quick()
    B = Batcher(ctx)
    pool2 = CORE if quick else POOL
    n3 = 24 if quick else 0       # thorough: arity 3 complete over CORE
    n4 = 12 if quick else 400
    allnames = []
    for ty, ms in t['members'].items():
        for k, nm in ms:
            if (k, nm) not in allnames:
                allnames.append((k, nm))

    # 1. own members: full product
    idxs = INDEXES_QUICK if quick else INDEXES
    for ty, recvs in RECEIVERS.items():
        own = list(t['members'].get(ty, []))
        if ty == 'object':
            own += OBJECT_MEMBERS
        stream = 'members:' + ty
        if quick and ty in QUICK_RECEIVERS:
            recvs = QUICK_RECEIVERS[ty]
        for recv in recvs:
            for kind, nm in own:
                if kind == 'g':
                    B.add(stream, line(recv, 'g', nm))
                elif kind == 's':
                    for a in POOL:
                        B.add(stream, line(recv, 's', nm, (a,)))
                else:
                    for tup in arg_tuples(ctx, pool2, n3, n4):
                        B.add(stream, line(recv, 'm', nm, tup))
                    if ty in ('array', 'string'):
                        for i in idxs:
                            B.add(stream, line(recv, 'm', nm, (i,)))
                            for j in idxs:
                                B.add(stream, line(recv, 'm', nm, (i, j)))
                    if quick:
                        for _ in range(n3):
                            B.add(stream, line(recv, 'm', nm, tuple(rng.choice(POOL) for _ in range(3))))
                    else:
                        for a in CORE:
                            for b in CORE:
                                for c in CORE:
                                    B.add(stream, line(recv, 'm', nm, (a, b, c)))
                    for _ in range(n4):
                        B.add(stream, line(recv, 'm', nm, tuple(rng.choice(POOL) for _ in range(4))))
    B.flush()

    # 2. every name of every table on receivers of every other type (+ unknown names), as getter, setter and method
    names = list(dict.fromkeys([nm for _, nm in allnames] + UNKNOWN_NAMES))
    for ty, recvs in RECEIVERS.items():
        own = set(t['members'].get(ty, []))
        for recv in recvs:
            for nm in names:
                if ('g', nm) not in own:
                    B.add('cross', line(recv, 'g', nm))
                if ('s', nm) not in own:
                    for a in (rng.sample(POOL, 2) if quick else POOL):
                        B.add('cross', line(recv, 's', nm, (a,)))
                if ('m', nm) not in own:
                    tups = [(), (rng.choice(POOL),), (rng.choice(POOL), rng.choice(POOL))]
                    if not quick:
                        tups += [(a,) for a in POOL] + [tuple(rng.choice(POOL) for _ in range(rng.randint(2, 4))) for _ in range(6)]
                    for tup in tups:
                        B.add('cross', line(recv, 'm', nm, tup))
    B.flush()

    # 3. # and 之
    allrecv = [r for rs in RECEIVERS.values() for r in rs]
    vals = ['null', N('1'), '[]'] if quick else POOL
    for recv in allrecv:
        for idx in POOL + INDEXES + [N('9'), N('1e30'), N('-1e30')]:
            B.add('index', line(recv, 'ir', '', (idx,)))
            for v in vals:
                B.add('index', line(recv, 'iw', '', (idx, v)))
    for ty, recvs in RECEIVERS.items():
        names = [nm for k, nm in t['members'].get(ty, []) if k in 'gs'] + ['a', 'b', '自身', '没有此项', '', '内容', '头部']
        for recv in recvs:
            for nm in dict.fromkeys(names):
                B.add('member-iv', line(recv, 'mr', nm))
                for v in vals:
                    B.add('member-iv', line(recv, 'mw', nm, (v,)))
    B.flush()

    # 4. constructors, functions
    ctor_recv = RECEIVERS['class'] + ['predef', N('1')] + ['null', S('a'), '[]', '{}', 'obj', 'fn', 'exc:61', 'b:1', 'go:x']
    for recv in ctor_recv:
        real_ctor = recv in RECEIVERS['class'] or recv in ('predef', N('1'))
        for tup in arg_tuples(ctx, pool2 if (real_ctor or not quick) else [], 0, 0):
            B.add('construct', line(recv, 'c', '', tup))
        for k in (3, 4):
            for _ in range(100 if quick else 2000):
                B.add('construct', line(recv, 'c', '', tuple(rng.choice(POOL) for _ in range(k))))
    fn_recv = [('fn', ''), ('glob:' + hx('显示'), ''), ('glob:' + hx('取随机数'), 'rand')]
    for lib, k, nm in t['libs']:
        fn_recv.append(('lib:%s:%s' % (hx(lib), hx(nm)), ''))
    paths = [S('f'), S('d'), S('deep'), S(''), S('@dir'), S('x' * 300), S('a/b'), S('子目录/甲.txt')]
    jsons = [S(x) for x in ['null', '{}', '[]', '{"a":1}', '{"a":[1,null,{"b":true}],"c":"\\ud800"}', '{"a":1e999}', '1', '"x"', '{',
                            '{"a":{"a":{"a":{"a":{}}}}}', '[' * 200, '{"a":' * 100 + '1' + '}' * 100, '{"":0}', ' {"a" : 1.5e-7} ']]
    for recv, member in fn_recv:
        for tup in arg_tuples(ctx, pool2, 0, 0):
            B.add('call', line(recv, 'call', member, tup))
        for k in (3, 4):
            for _ in range(60 if quick else 1000):
                B.add('call', line(recv, 'call', member, tuple(rng.choice(POOL) for _ in range(k))))
        if recv.startswith('lib:'):
            for p in paths + jsons:
                B.add('call', line(recv, 'call', member, (p,)))
                for q in [S('内容'), S(''), S(b'\xff\xfe'), N('1'), 'null']:
                    B.add('call', line(recv, 'call', member, (p, q)))
    for recv in ['null', N('1'), S('a'), '[]', 'obj', 'cls']:      # not functions at all
        B.add('call', line(recv, 'call', '', ()))
    # the non-constructables / non-functions of other kinds are answered by the harness as eval.go does

    # 5. display, copy, comparison
    for recv in allrecv + [p for p in POOL if 'self' not in p]:
        B.add('misc', line(recv, 'str', ''))
        B.add('misc', line(recv, 'dup', ''))
        for verb in ('1', '2', '3', '9'):
            for a in (POOL if not quick or verb == '1' else CORE):
                B.add('misc', line(recv, 'cmp', verb, (a,)))
    B.done()


# ---------------------------------------------------------------------------------------------------
# the validators themselves (Model/Validate.lean)

VPATS = ['number', 'string', 'array', 'hashmap', 'bool', 'object', 'function', 'govalue', 'any', 'string+', 'string*', 'any?', 'hashmap?',
         'number+', 'bool*', 'golang:x', 'golang:y', 'unknown', 'any+', 'number?']
VBAD = ['', '+', '?', ' ', ':']      # patterns without a word character: FindStringSubmatch answers nil (no caller passes one)


def validator_cases(ctx, t):
    """registered pattern lists × every arity 0..4 (property + correspondence); random pattern lists (correspondence only)"""
    rng = ctx.rng
    vpool = [N('1'), S('a'), '[]', '{}', 'b:1', 'null', 'obj', 'fn', 'go:x', 'go:y', 'cls', 'exc:61']
    reg, free = [], []
    import itertools
    regpats = []
    line0 = ctx.run_lean(['members'], parallel=False)[0]
    for tok in line0.split(' '):
        if tok.startswith('V:'):
            _, kind, pats = tok.split(':', 2)
            regpats.append((kind, pats))
    for kind, pats in sorted(set(regpats)):
        k = {'Least': 'vlp', 'Exact': 'vep', 'All': 'vap'}[kind]
        for ar in range(0, 5):
            tuples = itertools.product(vpool, repeat=ar) if ar <= 2 else [tuple(rng.choice(vpool) for _ in range(ar)) for _ in range(ctx.n(40, 400))]
            for tup in tuples:
                reg.append('value - %s %s%s' % (k, hx(pats), ''.join(' ' + a for a in tup)))
    for _ in range(ctx.n(3000, 60000)):
        k = rng.choice(['vlp', 'vlp', 'vep', 'vap'])
        np_ = 1 if k == 'vap' else rng.randint(0, 4)
        pats = [rng.choice(VPATS if rng.random() < 0.93 else VBAD) for _ in range(np_)]
        if k == 'vap' and pats == ['']:
            pats = ['any']
        tup = tuple(rng.choice(vpool) for _ in range(rng.randint(0, 4)))
        free.append('value - %s %s%s' % (k, hx(','.join(pats)), ''.join(' ' + a for a in tup)))
    return reg, free


def judge_validators(ctx, t):
    reg, free = validator_cases(ctx, t)
    judge(ctx, 'validators:registered', reg)
    ctx.streams.append({'stream': 'validators:registered', 'cases': len(reg)})
    # patterns nobody registers: Go vs model only (a pattern without a word character panics in both)
    go = go_run(ctx, free)
    model = ctx.run_lean(free)
    for c, g, m in zip(free, go, model):
        ctx.evaluations += 1
        if g != m and not (g.startswith('panic') and m == 'panic'):
            ctx.disagreement('validators:free', c, g, m)
        ctx.count('validators:free:' + ' '.join(g.split(' ')[:3]))
        if not g.startswith('ok'):
            ctx.nontriv(c)
    ctx.streams.append({'stream': 'validators:free', 'cases': len(free)})


# ---------------------------------------------------------------------------------------------------
# input-variable texts

VI_ATOMS = ['1', '-2.5', '1*10^400', '“文”', '真', '空', '【1，2】', '【A = 1】', '【=】', 'Y', '其Y', '其', '此', '（显示：1）', '（显示）',
            '（取随机数）', '（未定：1）', '（新建异常：“x”）', '（新建异常）', '（新建数值：1）', '（新建未定）', '以1（加：2）',
            '以“a”（拼接：1）', '以【】（右移）', '【1】#1', '【1】#9', '【A=1】#A', '【A=1】#“B”', '1#1', '“a”之长度', '空之长度',
            '1 / 0', '1 + “a”', '真 且 1', '1 为 1', '{1 + 2} * 3', '数值', '异常', '显示', '【1，【2，【3】】】', '【A=【B=空】】',
            # names bound INSIDE the text (得到) and then used in every position a name can stand in
            '（显示：1）得到乙', '以1（加：2）得到乙', '（取随机数）得到丙', '（乙）', '（乙：1）', '（丙：乙）', '以乙（加：1）', '乙#1', '乙之长度', '（新建乙）', '乙',
            '（X）', '（Y：1）', '以X（后增：1）', '（新建X）']
VI_JUNK = list('=＝：，、（）【】{}“”！？#之其令设为恒为如果每当输出定义如何新建抛出拦截 \n\t“1aＡ')


def varinput_cases(ctx):
    rng = ctx.rng
    texts = ['', ' ', '\n', 'X = 1', 'X = 1\nY = 2', 'X 设为 1', 'X = Y', 'X = 其Y', 'X', '1 = 1', 'X = 1 = 2', 'X =', '= 1',
             'X = 1；Y = X', 'X = 1\nY = X', '令X = 1', '令X设为1', '输出 1', '如果真：\n    X = 1', '定义甲：\n    其a设为1', '如何f？\n    输出 1',
             'X = （f）', '甲 = （显示：1）得到乙\n丙 = （乙）', '甲 = （显示：1）得到乙\n丙 = 以乙（加：1）', 'X = 1\nY = （X）', '拦截异常：\n    X = 1', 'X = 1\n拦截异常：\n    输出 1', '【1】#1 = 2', 'X之a = 1', '抛出异常：“x”！', '导入《@JSON》\nX = 1',
             '输入A\nX = A', 'X = `U+D800`', 'X = “\\', 'X = 【', '）', '为', 'X = 1*^', '﻿X = 1', 'X = 1\r\nY = 2\r\n']
    for a in VI_ATOMS:
        texts.append('X = ' + a)
        texts.append('X = ' + a + '\nY = ' + rng.choice(VI_ATOMS))
        texts.append(a)
    n = ctx.n(600, 40000)
    for _ in range(n):
        r = rng.random()
        if r < 0.4:
            k = rng.randint(1, 4)
            texts.append('\n'.join('%s = %s' % (rng.choice(['X', 'Y', '甲', '真', '1']), rng.choice(VI_ATOMS)) for _ in range(k)))
        elif r < 0.7:
            a, b = rng.choice(VI_ATOMS), rng.choice(VI_ATOMS)
            op = rng.choice([' + ', ' / ', ' 为 ', ' 且 ', ' > ', '#', '之', ' = ', '、', '，'])
            texts.append('X = ' + a + op + b)
        else:
            texts.append(''.join(rng.choice(VI_JUNK + VI_ATOMS) for _ in range(rng.randint(1, 12))))
    cases = []
    for tx in texts:
        cases.append('value - vi %s' % hx(tx))
        cases.append('value - ei %s' % hx(tx))
        cases.append('value - ei %s' % hx(tx.replace('X = ', '', 1)))
    # raw bytes that are not UTF-8
    for raw in (b'\xff', b'X = \xff', b'X = \xe4\xbd', b'\xc0\x80', b'X = 1\x00'):
        cases.append('value - vi %s' % raw.hex())
        cases.append('value - ei %s' % raw.hex())
    return cases


# texts whose tree fails each check of exec_varinput.go (assertASTIsVarAssignBlock / assertASTIsSingleExpr / the target test), and
# texts that pass them in unusual ways
VI_SHAPES = [
    # ExecBlock == nil: nothing but blanks, comments, imports
    ' ', '\n', '\n\n', '注：x', '注：“x”\n', '导入《@JSON》', '导入《@JSON》\n\n',
    # a child that is neither an assignment nor an empty statement (first, in the middle, last)
    '输出 1', '令X = 1', 'X', '1 + 1', '（显示：1）', '如果真：\n    X = 1', '每当假：\n    X = 1', '遍历【1】：\n    X = 1',
    '定义甲：\n    其a设为1', '如何f？\n    输出 1', '抛出异常：“x”', 'X = 1\n输出 X', 'X = 1\n（显示：X）\nY = 2', '（显示：1）\nX = 1',
    'X = （显示：1）\n结束循环', '继续循环',
    # the target is not a plain name: nothing before it is undone (the earlier right-hand sides HAVE run)
    'X之a = 1', '【1】#1 = 2', '其a = 1', 'X = （显示：1）\nX之a = 2', 'X = （显示：1）\nY = （显示：2）\n【1】#1 = （显示：3）', '以X（f）之a = 1',
    # empty statements are skipped
    '；', '；；', 'X = 1；', '；X = 1', 'X = 1；；Y = 2', 'X = 1；\n；Y = X',
    # the single-expression test counts children: an empty statement is a child too
    '1；', '；1', '1；2', '1\n2', 'X；Y', '1 + 2；', '（显示：1）；（显示：2）',
    # an exception handler after the assignments: only the children are looked at, the handler is ignored
    'X = 1\n拦截异常：\n    输出 1', 'X = 1 / 0\n拦截异常：\n    输出 1', 'X = Y\n拦截异常：\n    输出 1', '1 / 0\n拦截异常：\n    输出 2',
    # later assignments see nothing of earlier ones (no scope), overwrite earlier ones of the same name
    'X = 1\nX = 2', 'X = 1\nY = 2\nX = 3', 'X = 1\nY = X', 'X = （显示：1）\nX = （显示：2）', '1 = 2\n1 = 3', 'X = 1\nX = Y',
    # an assignment as a right-hand side / inside an expression
    'X = Y = 1', 'X = 【Y = 1】', 'X = （显示：1）得到乙\n乙 = 2', 'X = （显示：1）得到乙\nY = 乙\nZ = （乙）',
    # a scope appears with the first call: names bound by 得到 live in it from then on
    'A = （显示：1）得到乙\nB = （显示：2）得到乙', 'A = （显示：1）得到真', 'A = 以1（加：2）得到乙\nB = 乙 + 1', 'A = （显示：乙）得到乙',
    'A = （未定）\nB = （显示：1）得到乙\nC = 乙', 'A = 以【1】（没有）\nB = 其', 'A = （显示：1）\nB = 其X',
]


def varinput_multi_cases(ctx):
    """ExecExpressionInputText on several entries: ONE VM for all of them, evaluated in sorted key order"""
    rng = ctx.rng
    names = ['甲', '乙', '丙', 'A', 'b', '1', '真']
    fixed = [
        [('甲', '（显示：1）得到丙'), ('乙', '丙')], [('乙', '（显示：1）得到丙'), ('甲', '丙')], [('A', '1'), ('b', 'A')],
        [('甲', '（未定）'), ('乙', '其X')], [('甲', '以【1】（没有）'), ('乙', '（显示：2）得到丙'), ('丙', '丙')], [('甲', '1 / 0'), ('乙', '（显示：1）')],
        [('乙', '1 / 0'), ('甲', '（显示：1）')], [('甲', 'X = 1'), ('乙', 'X')], [('甲', '（显示：1）得到丙'), ('乙', '（丙）')], [('甲', ''), ('乙', '1')],
        [('甲', '1；'), ('乙', '1')], [('', '1')], [],
    ]
    cases = []
    for es in fixed:
        cases.append('vitext ei' + ''.join(' %s %s' % (hx(k), hx(v)) for k, v in es))
    for _ in range(ctx.n(400, 20000)):
        ks = rng.sample(names, rng.randint(2, 4))
        es = [(k, rng.choice(VI_ATOMS) if rng.random() < 0.9 else rng.choice(VI_SHAPES)) for k in ks]
        cases.append('vitext ei' + ''.join(' %s %s' % (hx(k), hx(v)) for k, v in es))
    return cases


def judge_varinput(ctx):
    """input-variable texts: Go = model (Model/VarInput.lean: the parser MODEL on the text, the evaluator model in an empty VM),
    without and with the display trace, one entry and several; and Go = the model run on the tree the REAL parser built"""
    vi = varinput_cases(ctx)
    for tx in VI_SHAPES:
        vi.append('value - vi %s' % hx(tx))
        vi.append('value - ei %s' % hx(tx))
    judge(ctx, 'varinput', vi)
    ctx.streams.append({'stream': 'varinput', 'cases': len(vi)})
    tr = []
    for c in vi:
        f = c.split(' ')
        tr.append('vitext vi %s' % f[3] if f[2] == 'vi' else 'vitext ei %s %s' % (hx('甲'), f[3]))
    tr = sorted(set(tr)) + varinput_multi_cases(ctx)
    judge(ctx, 'varinput:trace', tr)
    ctx.streams.append({'stream': 'varinput:trace', 'cases': len(tr)})
    # tree level: the real parser's tree (harness op `ast`) through the model's tree-level entry points
    texts = []
    for c in vi:
        f = c.split(' ')
        if f[3] == '-':
            continue
        try:
            texts.append((f[2], bytes.fromhex(f[3]).decode('utf-8')))
        except UnicodeDecodeError:
            pass
    texts = sorted(set(texts))
    asts = go_run(ctx, ['ast ' + cps(tx) for _, tx in texts])
    lines, goline = [], []
    for (kind, tx), a in zip(texts, asts):
        if a.startswith('ok (prog'):
            lines.append(('viast ' if kind == 'vi' else 'eiast ') + a[3:])
            goline.append('value - %s %s' % (kind, hx(tx)))
    go = go_run(ctx, goline)
    model = ctx.run_lean(lines)
    for c, ln, g, m in zip(goline, lines, go, model):
        ctx.evaluations += 1
        if is_bug_answer(m):
            raise RuntimeError('driver bug: %s -> %s' % (ln[:200], m))
        if m == 'unmodelled':
            ctx.count('varinput:tree:unmodelled')
        elif g != m and not bad_answer(g):
            ctx.disagreement('varinput:tree', c, g, m)
        else:
            ctx.count('varinput:tree:' + ('ok' if g.startswith('ok') else ' '.join(g.split(' ')[:3])))
            ctx.nontriv(c)
    ctx.streams.append({'stream': 'varinput:tree', 'cases': len(lines)})


# ---------------------------------------------------------------------------------------------------
# the value classes of pkg/common: Construct, then every property of the object (harness op `httpval`, Model/HttpValues.lean)

def httpval_cases(ctx):
    import itertools
    rng = ctx.rng
    pool = [p for p in POOL if 'self' not in p]
    core = [p for p in CORE]
    cases = []
    for k in ('req', 'resp'):
        cases.append('httpval %s' % k)
        cases += ['httpval %s %s' % (k, a) for a in pool]
        cases += ['httpval %s %s %s' % (k, a, b) for a, b in itertools.product(pool, pool)]
        # a third argument behind every well-typed (and one ill-typed) pair of mandatory ones
        firsts = [(S('GET'), S('/a')), (S(''), S('')), (N('1'), S('/a'))] if k == 'req' else \
                 [(N('1'), S('ok')), (N('nan'), '[]'), (N('1'), '{61=%s}' % N('inf')), (N('1'), 'null'), (N('1'), 'obj'), (S('a'), S('b'))]
        for (a, b) in firsts:
            cases += ['httpval %s %s %s %s' % (k, a, b, c) for c in pool]
            cases += ['httpval %s %s %s %s %s' % (k, a, b, c, d) for c in core for d in core[:4]]
        for _ in range(ctx.n(300, 20000)):
            cases.append('httpval %s %s' % (k, ' '.join(rng.choice(pool) for _ in range(rng.randint(2, 4)))))
    # a request body (dictionary) that cannot be written as JSON — a number that is not finite, at the top or below a list / a
    # dictionary: the constructor fails with the JSON exception (never a half-built request, never a panic)
    for body in ('{61=%s}' % N('inf'), '{61=%s}' % N('nan'), '{61=[%s]}' % N('-inf'), '{61=%s,62={63=%s}}' % (N('1'), N('nan')),
                 '{61=[%s,%s]}' % (N('1'), S('a'))):
        cases.append('httpval req %s %s %s' % (S('GET'), S('/a'), body))
    return cases


def judge_httpval(ctx):
    import re
    cases = httpval_cases(ctx)
    go = go_run(ctx, cases)
    model = ctx.run_lean(cases)
    # the message of the JSON exception quotes encoding/json's own words: only the class of the error is compared
    norm = lambda x: re.sub(r'err sigexc exc:[0-9a-f-]+', 'err sigexc', x)
    for c, g, m in zip(cases, go, model):
        ctx.evaluations += 1
        if is_bug_answer(g) or is_bug_answer(m):
            raise RuntimeError('generator/harness/driver bug: %s -> %s / %s' % (c, g, m))
        if bad_answer(g):
            ctx.violation('httpval', c, g, 'a value or a Zn error (never panic / nil / crash / timeout)')
            continue
        if m == 'unmodelled':
            ctx.count('httpval:unmodelled')
        elif norm(g) != norm(m):
            ctx.disagreement('httpval', c, g, m)
        head = norm(g).split(' | ')[0]
        ctx.count('httpval:' + (' '.join(head.split(' ')[:3]) if head.startswith('err') else 'ok'))
        if head != 'err rt 82':
            ctx.nontriv(c)
    ctx.streams.append({'stream': 'httpval', 'cases': len(cases)})


# ---------------------------------------------------------------------------------------------------
# ill-typed programs

class Raw(E):
    def __init__(self, text):
        self.text = text

    def emit(self, r):
        r.w(self.text)
        return 'raw'


VARS = {'数': 'num', '文': 'str', '列': 'arr', '典': 'dict', '是': 'bool', '无': 'null', '物': 'obj', '法': 'fn', '类': 'cls',
        '错': 'exc', '数值': 'num', '嵌': 'arr', '深典': 'dict'}
LITS = ['0', '1', '2', '-1', '0.5', '-2.5', '1*10^400', '-1*10^400', '9223372036854775808', '1*10^30', '“”', '“a”', '“你好”',
        '“{#1}”', '“1*^3”', '真', '假', '空', '【】', '【=】', '【1，2，3】', '【“a”，“b”】', '【A = 1，B = 【2】】', '【【】，【1】】']


class PG:
    def __init__(self, rng, t):
        self.rng, self.t = rng, t
        self.names = [nm for ms in t['members'].values() for _, nm in ms] + ['取a', '加', '坏', 'a', 'b', '自身', '没有此项']
        self.methods = [nm for ms in t['members'].values() for k, nm in ms if k == 'm'] + ['取a', '加', '坏', '没有此法']
        self.props = [nm for ms in t['members'].values() for k, nm in ms if k in 'gs'] + ['a', 'b', '自身', '没有此项']
        self.funcs = ['显示', '取随机数', '函', '未定法', '数', '甲'] + [nm for _, _, nm in t['libs']]
        self.k = 0
        # methods of the two collection types (complete tables): applied to a collection inside a loop over that very collection
        self.coll_methods = {ty: [nm for k, nm in t['members'].get(ty, []) if k == 'm'] for ty in ('array', 'hashmap')}

    def atom(self):
        r = self.rng.random()
        if r < 0.55:
            return self.rng.choice(list(VARS))
        if r < 0.9:
            return self.rng.choice(LITS)
        return self.rng.choice(['未定', '其a', '此', '（新建甲）', '（新建异常：“e”）', '路径'])

    def expr(self, d=2):
        rng = self.rng
        r = rng.random()
        if d <= 0 or r < 0.3:
            return self.atom()
        if r < 0.45:
            return '以%s（%s%s）' % (self.paren(self.expr(d - 1)), rng.choice(self.methods), self.args())
        if r < 0.55:
            return '%s之%s' % (self.paren(self.expr(d - 1)), rng.choice(self.props))
        if r < 0.68:
            i = self.expr(d - 1)
            return '%s#%s' % (self.paren(self.expr(d - 1)), i if i in VARS or i in ('0', '1', '2', '“a”') else '{' + i + '}')
        if r < 0.82:
            op = rng.choice([' + ', ' - ', ' * ', ' / ', ' | ', ' % ', ' == ', ' /= ', ' > ', ' <= ', ' 为 ', ' 不为 ', ' 且 ', ' 或 '])
            return '{%s}%s{%s}' % (self.expr(d - 1), op, self.expr(d - 1))
        if r < 0.9:
            return '（%s%s）' % (rng.choice(self.funcs), self.args())
        if r < 0.95:
            return '（新建%s%s）' % (rng.choice(['甲', '异常', '数值', '数', '未定', '文', '函', '类']), self.args())
        return '【%s】' % '，'.join(self.arg(d - 1) for _ in range(rng.randint(1, 3)))

    def paren(self, e):
        return e if e in VARS or e in LITS[:9] else '{' + e + '}'

    def arg(self, d=1):
        e = self.expr(d)
        # `以 x（m）、…` continues a method chain: a method call used as an argument needs braces
        return '{' + e + '}' if e.startswith('以') else e

    def args(self):
        k = self.rng.choice([0, 0, 1, 1, 1, 2, 2, 3, 4])
        if k == 0:
            return ''
        return '：' + '、'.join(self.arg(1) for _ in range(k))

    def stmt(self, ind):
        rng = self.rng
        r = rng.random()
        pad = '    ' * ind
        if r < 0.3:
            return pad + '（显示：%s）' % self.arg(2)
        if r < 0.45:
            return pad + self.expr(3)
        if r < 0.55:
            tgt = rng.choice(['%s之%s' % (rng.choice(list(VARS)), rng.choice(self.props)),
                              '%s#%s' % (rng.choice(list(VARS)), rng.choice(['0', '1', '9', '“a”', '数', '文', '{0 - 1}', '{1*10^30}'])),
                              rng.choice(list(VARS)), '未定', '真', '其a'])
            return pad + '%s = %s' % (tgt, self.expr(2))
        if r < 0.62:
            return pad + '如果%s：\n%s    （显示：1）' % (self.expr(1), pad)
        if r < 0.64:
            names = rng.choice(['', '以项', '以键、值'])
            return pad + '%s遍历%s：\n%s    （显示：%s）' % (names, self.expr(1), pad, self.expr(1))
        if r < 0.69:
            # a loop whose body changes the collection it runs over (removes items, adds items, rewrites them), directly or
            # through a copy-free path (嵌#1, 深典#“A”); the later passes must still end in a value or a Zn error
            tgt, ty = rng.choice([('列', 'array'), ('列', 'array'), ('列', 'array'), ('嵌', 'array'), ('嵌#1', 'array'), ('典', 'hashmap'),
                                  ('深典', 'hashmap'), ('深典#“A”', 'hashmap'), ('典#“B”', 'hashmap')])
            names = rng.choice(['', '以项', '以键、值', '以键、值'])
            lines = []
            for _ in range(rng.randint(1, 2)):
                k = rng.random()
                if k < 0.75 and self.coll_methods[ty]:
                    m = rng.choice(self.coll_methods[ty])
                    a = self.args() if rng.random() < 0.6 else rng.choice(['', '：键', '：值', '：键、值', '：值、键', '：1', '：“A”', '：%s' % tgt])
                    lines.append('以%s（%s%s）' % (tgt, m, a))
                elif k < 0.9:
                    lines.append('%s#%s = %s' % (tgt, rng.choice(['1', '2', '“A”', '键'] if names == '以键、值' else ['1', '2', '“A”']), self.arg(1)))
                else:
                    lines.append('%s = %s' % (tgt.split('#')[0], rng.choice(['【】', '【=】', '【1】', '空', self.arg(1)])))
            if rng.random() < 0.5:
                lines.append('（显示：%s）' % rng.choice(['项', '值', '键', tgt] if names else [tgt]))
            return pad + '%s遍历%s：\n' % (names, tgt) + '\n'.join(pad + '    ' + ln for ln in lines)
        if r < 0.74:
            return pad + '每当%s：\n%s    结束循环' % (rng.choice(['数', '文', '空', '列', '1', '“a”', '物', '未定']), pad)
        if r < 0.8:
            return pad + '抛出%s%s！' % (rng.choice(['异常', '甲', '数值', '数', '未定', '函']), self.args() or '：“x”')
        if r < 0.85:
            return pad + '令%s设为%s' % (rng.choice(['新%d' % rng.randint(1, 3), '真', '数', '显示', '此']), self.expr(2))
        if r < 0.9:
            return pad + '输出 %s' % self.expr(2)
        if r < 0.93:
            return pad + rng.choice(['结束循环', '继续循环'])
        if r < 0.97:
            # a constructor for a predefined / unrelated name, with a body that needs the current module
            nm = rng.choice(['异常', '数值', '甲', '数', '未定', '显示', '错'])
            body = rng.choice(['令Y设为1 / 0', '定义乙：\n%s        其c设为1' % pad, '以物（取a）', '（显示：其a）', '如何g？\n%s        输出 1' % pad,
                               '输出 其a', '其a = 5', '抛出异常：“内”！'])
            s = pad + '如何新建%s？\n%s    输入X\n%s    %s' % (nm, pad, pad, body)
            if rng.random() < 0.6:
                s += '\n%s    拦截异常：\n%s        输出 1' % (pad, pad)
            return s
        return pad + '定义丙：\n%s    其a设为%s\n\n%s    如何取？\n%s        输出 其a' % (pad, self.expr(1), pad, pad)

    def program(self):
        rng = self.rng
        head = ''
        if rng.random() < 0.7:
            head += '导入《@JSON》\n'
        if rng.random() < 0.7:
            head += '导入《@文件》\n'
        pre = ['输入路径',
               '定义甲：', '    其a设为1', '    其b设为【1，2】', '', '    如何取a？', '        输出 其a', '', '    如何加？', '        输入X',
               '        输出 X + 其a', '', '    如何坏？', '        输出 1 / 0', '', '    如何己？', '        输出 此', '']
        if rng.random() < 0.5:
            pre += ['如何新建甲？', '    输入初', '    其a = 初', '']
        pre += ['如何函？', '    输入X', '    输出 X', '']
        steps = []
        for i in range(rng.randint(3, 14)):
            body = [self.stmt(1) for _ in range(rng.randint(1, 3))]
            wrapped = rng.random() < 0.85
            if not wrapped:
                # definitions are hoisted: at top level a bad one would end the program before its first statement
                body = [b for b in body if not b.lstrip().startswith(('如何', '定义'))] or ['    （显示：%s）' % self.arg(2)]
            steps.append((i, body, wrapped, rng.choice(['异常'] * 8 + ['甲', '未定'])))
        return (head, pre, steps)

    @staticmethod
    def render(prog):
        head, pre, steps = prog
        out = [head.rstrip('\n')] if head else []
        out += pre
        main = ['令数设为3', '令文设为“文本”', '令列设为【1，“a”，【2】】', '令典设为【A = 1，B = 【C = 2】】', '令是设为真', '令无设为空',
                '令物设为（新建甲%s）' % ('：7' if '如何新建甲？' in pre else ''), '令法设为函', '令类设为甲', '令错设为（新建异常：“旧”）',
                '令嵌设为【【【】】】', '令深典设为【A = 【B = 【C = 空】】】']
        for i, body, wrapped, hcls in steps:
            if wrapped:
                out.append('如何步%d？' % i)
                out.append('    （显示：“步%d”）' % i)
                out += body
                out += ['    拦截%s：' % hcls, '        （显示：“拦”）', '        输出 0', '']
                main.append('（步%d）' % i)
            else:
                main += [b[4:] if b.startswith('    ') else b for b in '\n'.join(body).split('\n')]
        # definitions first is not required by the language, but keeps 输入 on top
        return '\n'.join(out + main) + '\n'


def program_cases(ctx, t, n):
    g = PG(ctx.rng, t)
    progs = [g.program() for _ in range(n)]
    return progs, ['run %s %s=s:%s' % (cps(PG.render(p)), hx('路径'), '存在.txt'.encode().hex()) for p in progs]


def judge_programs(ctx, t):
    n = ctx.n(2500, 120000)
    done = 0
    nshrunk = 0
    while done < n:
        k = min(20000, n - done)
        progs, cases = program_cases(ctx, t, k)
        go = go_run(ctx, cases, timeout_ms=8000)
        for p, c, g in zip(progs, cases, go):
            ctx.evaluations += 1
            if is_bug_answer(g):
                raise RuntimeError('harness bug: %s' % g)
            if g.startswith(('timeout', 'crash')):
                g = go_run(ctx, [c], timeout_ms=30000, parallel=False)[0]
                ctx.count('programs:rerun-alone')
            if bad_answer(g):
                small = c
                if nshrunk < 1:
                    nshrunk += 1
                    small = shrink_program(ctx, p, g)
                ctx.violation('programs', small, go_run(ctx, [small], 8000, False)[0], 'a value or a Zn error (never panic / nil / crash / timeout)')
                ctx.count('programs:' + g.split(' ')[0])
                continue
            tr = g.rsplit(' | ', 1)[-1]
            if tr.count('e6ada5') >= 2:        # at least two steps were entered (步 in the displayed trace)
                ctx.nontriv(c)
            ctx.count('programs:' + ('ok' if g.startswith('ok') else ' '.join(g.split(' ')[:3])))
        if done == 0:
            ctx.sample({'stream': 'programs', 'source': PG.render(progs[0]), 'go': go[0]})
        done += k
    ctx.streams.append({'stream': 'programs', 'cases': n})


def loop_cases(t):
    """every method of the list / dictionary tables applied, inside a loop over a collection, to THAT collection: complete product
    receivers (0–4 items / 0–3 keys) × methods × argument forms (loop variables, constants, the collection itself) × loop
    forms × placement (every pass / one chosen pass)"""
    recv = {'array': ['【】', '【1】', '【1，2】', '【1，“a”，【2】，4】'],
            'hashmap': ['【=】', '【A = 1】', '【A = 1，B = 【2】，C = 3】']}
    args = ['', '：值', '：键', '：键、值', '：值、键', '：9', '：“A”', '：甲', '：1、2', '：【7】', '：值、1', '：“新”、值']
    cases = []
    for ty in ('array', 'hashmap'):
        for nm in [n for k, n in t['members'].get(ty, []) if k == 'm']:
            for lit in recv[ty]:
                for a in args:
                    for form in ('以键、值', '以值'):
                        if form == '以值' and '键' in a:
                            continue
                        for when in ('', '1', '2'):
                            call = '以甲（%s%s）' % (nm, a)
                            if when:
                                if form == '以值' or ty == 'hashmap':
                                    continue
                                body = '    如果键 == %s：\n        %s\n' % (when, call)
                            else:
                                body = '    %s\n' % call
                            src = '令甲设为%s\n%s遍历甲：\n%s    （显示：值）\n输出 甲\n' % (lit, form, body)
                            cases.append('run ' + cps(src))
    return cases


def shrink_program(ctx, prog, answer):
    head, pre, steps = prog
    cls = answer.split(' ')[0]

    def case_of(st):
        return 'run %s %s=s:%s' % (cps(PG.render((head, pre, st))), hx('路径'), '存在.txt'.encode().hex())

    def failing(st):
        g = go_run(ctx, [case_of(st)], 8000, False)[0]
        return g.split(' ')[0] == cls or ('nil!' in g and 'nil!' in answer)

    try:
        small = fw.ddmin(steps, failing) if len(steps) > 1 else steps
        # then single statements inside the remaining steps
        out = []
        for idx, (i, body, w, h) in enumerate(small):
            if len(body) > 1:
                for keep in body:
                    cand = small[:idx] + [(i, [keep], w, h)] + small[idx + 1:]
                    if failing(cand):
                        body = [keep]
                        break
            out.append((i, body, w, h))
        if failing(out):
            small = out
        return case_of(small)
    except Exception:
        return case_of(steps)


# ---------------------------------------------------------------------------------------------------

SEEDS = [
    # former crash regions (fixed entries of known_findings.json) and hand-written boundary cases
    line('[%s,%s,%s]' % (N('1'), N('2'), N('3')), 'm', '新增', (N('9'), N('-10'))),
    line('[%s]' % N('1'), 'm', '新增', (N('9'), N('-2^63'))),
    line('[%s]' % N('1'), 'm', '新增', (N('9'), N('nan'))),
    line('[%s]' % N('1'), 'm', '交换', (N('1'), N('2^63'))),
    line('[%s]' % N('1'), 'm', '交换', (N('nan'), N('1'))),
    line('[]', 'm', '右移'), line('[]', 'm', '左移'), line('[]', 'g', '首项'), line('[]', 'g', '末项'),
    line('{}', 'm', '读取'), line('{}', 'm', '读取', (N('1'),)),
    line(S('abc'), 'm', '取样', (N('-2^63'), N('2^63'))), line(S('abc'), 'm', '取样', (N('2'), N('9'))),
    line(S(b'\xff\xfe'), 'm', '取样', (N('1'), N('1'))),
    line('reqcls', 'c', ''), line('reqcls', 'c', '', (S('GET'),)), line('respcls', 'c', ''), line('respcls', 'c', '', (N('1'),)),
    line('lib:%s:%s' % (hx('@文件'), hx('写入文件')), 'call', '', (S('f'), S('新'))),
    'value - vi ' + hx('X = Y'), 'value - vi ' + hx('X = 其Y'), 'value - ei ' + hx('其Y'),
]
SEED_PROGRAMS = [
    '令A设为【1】\n以A（后增：A）\n令B设为A\n（显示：A）\n',
    '如何新建异常？\n    输入X\n    令Y设为1 / 0\n    拦截异常：\n        输出 1\n\n令E设为（新建异常：“a”）\n输出 E\n',
    '如何新建异常？\n    输入X\n    定义甲：\n        其a设为1\n\n令E设为（新建异常：“a”）\n输出 E\n',
    '定义甲：\n    其a设为1\n\n如何新建异常？\n    输入X\n    令O设为（新建甲）\n    以O（f）\n\n令E设为（新建异常：“a”）\n输出 E\n',
    '如何f？\n    输出 1/0\n\n令R设为（f）\n输出 R\n',
    '导入《@文件》\n输出 （写入文件：1、2）\n',
    # a loop body that changes the collection being traversed
    '令甲设为【1，2，3，4】\n以项遍历甲：\n    以甲（右移）\n输出 甲\n',
    '令甲设为【1，2，3】\n以序、项遍历甲：\n    以甲（左移）\n    （显示：序、项）\n输出 甲\n',
    '令甲设为【1，2，3】\n以项遍历甲：\n    甲 = 【】\n    （显示：项）\n输出 甲\n',
    '令典设为【a = 1，b = 2，c = 3】\n以K、V遍历典：\n    以典（移除：“c”）\n    （显示：K）\n输出 典\n',
    '令典设为【a = 1，b = 2，c = 3】\n如何看？\n    以K、V遍历典：\n        以典（移除：K）\n        （显示：K、V）\n    拦截异常：\n        输出 0\n\n（看）\n输出 典\n',
]


def run(ctx):
    try:
        run_streams(ctx)
    finally:
        cleanup(ctx)


def run_streams(ctx):
    try:
        t = load_tables(ctx)
    except RuntimeError as e:
        # a member table that could not be regenerated is a broken obligation (the extractor said so as well)
        ctx.broken_obligations.append('sweep: ' + str(e)[:300])
        return
    nm = sum(len(v) for v in t['members'].values())
    ctx.count('table:member_names', nm)
    ctx.count('table:library_functions', len(t['libs']))
    ctx.count('table:globals', len(t['globals']))
    ctx.count('table:receivers', sum(len(v) for v in RECEIVERS.values()))
    ctx.count('table:pool', len(POOL))
    missing = [ty for ty in t['types'] if ty not in RECEIVERS]
    if missing:
        ctx.broken_obligations.append('sweep: no receiver pool for value type(s) %s (new type in pkg/value)' % missing)
    # seeds and corpus first
    corpus = []
    cdir = fw.V + '/corpus/C10'
    if os.path.isdir(cdir):
        for f in sorted(os.listdir(cdir)):
            corpus += [ln.strip() for ln in open(os.path.join(cdir, f), encoding='utf-8') if ln.strip() and not ln.startswith('#')]
    judge(ctx, 'seeds', SEEDS + [c for c in corpus if c.startswith('value ')])
    seedp = ['run ' + cps(s) for s in SEED_PROGRAMS] + [c for c in corpus if c.startswith('run ')]
    go = go_run(ctx, seedp, 8000)
    for c, g in zip(seedp, go):
        ctx.evaluations += 1
        if bad_answer(g):
            ctx.violation('seed-programs', c, g, 'a value or a Zn error (never panic / nil / crash / timeout)')
        else:
            ctx.nontriv(c)
    ctx.streams.append({'stream': 'seeds', 'cases': len(SEEDS) + len(seedp)})
    # known findings: replay the witnesses
    for k in ctx.known:
        if k.get('status') == 'fixed' or not k.get('witness'):
            continue
        g = go_run(ctx, [k['witness']])[0]
        if bad_answer(g):
            ctx.violation('known', k['witness'], g, 'a value or a Zn error')
    sweep(ctx, t)
    judge_validators(ctx, t)
    judge_varinput(ctx)
    judge_httpval(ctx)
    lc = loop_cases(t)
    judge(ctx, 'loop-self', lc, compare_model=False)
    ctx.streams.append({'stream': 'loop-self', 'cases': len(lc)})
    judge_programs(ctx, t)
    judge_copy_histories(ctx)
    from props import c10mods
    c10mods.run_stream(ctx, go_run, ctx.n(600, 40000))
    ctx.exhaustive = True   # arity ≤ 2 over the pools is enumerated completely
    ctx.notes.append('full product for arity ≤ 2: receivers %d × member table × pool %d (arity 2: %d²)' % (
        sum(len(v) for v in RECEIVERS.values()), len(POOL), len(CORE if ctx.quick() else POOL)))


def judge_copy_histories(ctx):
    """copy / mutate / display histories on lists and dictionaries (the generators of C07 and C12: copies by every copying form, then
    移除 / 写入 / 新增 / 左移 … through either holder and a display of every holder after every step): here only "never a panic, a nil
    result, a crash or a hang" is judged — an invariant of the collections broken through a shared copy (a key order naming a key the
    map does not hold, a list header over freed items) shows as a Go panic in a LATER display or removal, not in the step that broke it"""
    from props import progs
    from zngen import cps
    g = progs.G(ctx.rng)
    n = ctx.n(400, 20000)
    ps = [g.copy_program(ctx.rng.randint(4, 14)) for _ in range(n // 2)] + [g.coll_program(ctx.rng.randint(4, 14)) for _ in range(n - n // 2)]
    cases = []
    for prog, ins in ps:
        src, _sx = prog.render(ctx.rng)
        cases.append(('run %s %s' % (cps(src), ' '.join(progs.input_spec(k, v) for k, v in (ins or {}).items()))).rstrip())
    go = go_run(ctx, cases, timeout_ms=8000)
    for c, a in zip(cases, go):
        ctx.evaluations += 1
        if a.startswith(('timeout', 'crash')):
            a = go_run(ctx, [c], timeout_ms=30000, parallel=False)[0]
        if bad_answer(a):
            ctx.violation('copy-histories', c, a, 'a value or a Zn error (never panic / nil / crash / timeout)')
        else:
            ctx.nontriv(c)
        ctx.count('copy-histories:' + a.split(' ')[0])
    ctx.streams.append({'stream': 'copy-histories', 'cases': len(cases)})


def replay(ctx, data):
    if 'case' not in data:
        # no failing input was found: the replay names the obligations / correspondences that no longer check
        print('kind :', data.get('kind'))
        for b in data.get('broken_obligations', []):
            print('broken obligation:', b[:400])
        ds = data.get('correspondence_disagreements', [])
        if not ds:
            return
        print('first of %d correspondence disagreements:' % len(ds))
        data = {'case': ds[0]['case']}
    case = data['case']
    print('case :', case)
    import tempfile, shutil
    env = dict(os.environ, ZNH_DEBUG='1')
    tmpdir = tempfile.mkdtemp(prefix='znv-c10-')
    open(tmpdir + '/存在.txt', 'w').write('内容')
    p = subprocess.run([fw.B + '/znharness'], input=case + '\n', stdout=subprocess.PIPE, stderr=subprocess.PIPE, text=True, env=env, cwd=tmpdir)
    shutil.rmtree(tmpdir, ignore_errors=True)
    print('go   :', p.stdout.strip() or ('crash exit%d %s' % (p.returncode, p.stderr[-300:].replace('\n', ' | '))))
    if case.startswith(('value ', 'vitext ', 'httpval ')):
        print('model:', ctx.run_lean([case])[0])
    elif case.startswith('runfiles '):
        f = case.split(' ')
        for i in range(int(f[1])):
            print('--- file %s' % bytes.fromhex(f[2 + 2 * i]).decode())
            print(''.join(chr(int(x, 16)) for x in f[3 + 2 * i].split('.')) if f[3 + 2 * i] != '-' else '')
    else:
        f = case.split(' ')
        src = ''.join(chr(int(x, 16)) for x in f[1].split('.')) if f[1] != '-' else ''
        print('source:\n' + src)
    print('spec : a value or a Zn error (never panic / nil! / crash / timeout)')
