"""C18, fault family (f'): a declaration that fails THROUGH A CALL made while the declaration is being evaluated.

Declarations (定义…： / 如何…？ / 如何新建…？) of a block are executed ahead of its other statements; the property defaults of a type are
evaluated right then.  A default that CALLS something — a method, a chain of two methods, a user-defined constructor, an object method,
a built-in method — makes the declaration's line a CALL-SITE line: while the callee runs, the declaring frame is an active call whose
line is the line the declaration starts on.  If the callee raises, the chain must read

    … callers …  >  the declaration's line  >  the callee's line(s) [> built-in code]

Ground truth = the tags the renderer records: `fault` (the declaration), then the tags listed in `F.inner` (statements inside the
callees), then `F.tail`.  Neighbours planted around the failing declaration (all generator-known, none changes the expected chain):
  * earlier declarations of the same block that SUCCEED through calls of the same callee (their frames were pushed and popped; their lines
    were current before) — a stale line / frame of an earlier declaration must not show up;
  * declarations AFTER the failing one in the same block (`F.post`: methods, a type, a constructor): they are never reached — a line made
    current for the whole declaration section in advance, or after the failure, would be THEIR line;
  * the failing default is the first, a middle or the last property; properties before it may call the callee successfully;
  * the callee fails at its first statement or after fillers (comments / multi-line texts: physical line counting), directly in its body or
    inside a branch; by 抛出, 1/0, an undefined name, an index out of range, a call with too many arguments (chain ends at the callee's
    caller line), a failing built-in method (tail `native`).
In a method / constructor body (call depth ≥ 1, chosen by c18.gen) the failing declaration is the FIRST thing that body does: the
declaring frame has no other line than the declaration's."""
from zngen import *


# Defect found through these inputs (2026-09-24, mixed-line-end stream, VERIF_SEED=2; KF-C18-syntax-error-after-input-line) and REPAIRED
# by 07aabbd (ParseExecBlock leaves its input state with getInvalidSyntaxPeek; parser model: Variant.inputStateFix, theorem
# Properties/C05 input_state_error_at_block_ending_token): a syntax error that follows an 输入 line with only a MULTI-LINE COMMENT in
# between was reported at the 输入 line, not at the offending token:
#     如何算？⏎    输入N⏎    注：“甲⏎乙” ）⏎    输出 N        → before: error 20 at line 2; the stray ） is on line 4 — now: line 4
# c18_lineends.plant_syntax plants its stray ） in front of TAGGED statements of method bodies: with this switch True (since the repair)
# the tagged call-site statement of the outer method (which has an 输入 line) may be the first statement after 输入.  Set it to False
# to run against a tree without 07aabbd.
TAGGED_STATEMENT_DIRECTLY_AFTER_INPUT_LINE = True


def _c18():
    from props import c18
    return c18


def raising(g, rng, tag, arg='N'):
    """(statements that end in a raising statement tagged `tag`, tail) — the statement is the innermost one being executed"""
    k = rng.random()
    tail = None
    if k < 0.3:
        st = Ret(Bin('/', Num('10'), Var(arg)))                      # called with 0
    elif k < 0.45:
        st = Decl(['商%d' % g.fresh()], Bin('/', Num('10'), Var(arg)))
    elif k < 0.6:
        st = Throw('异常', [Str('误')])
    elif k < 0.72:
        st = ExprS(Call('显示', _c18().ml(rng, [Var('未定名')])))
    elif k < 0.82:
        st = ExprS(Call('显示', [Index(Arr([Num('1')]), Num('5'))]))
    elif k < 0.92:
        st = ExprS(MCall(Arr([Num('1')]), [('交换', [Num('5'), Num('6')])]))
        tail = 'native'
    else:
        st = ExprS(MCall(Var(arg), [('无此法', [])]))
        tail = 'native'
    st.tag = tag
    return st, tail


def body_with(g, rng, st, ret=True):
    """a callee body that reaches `st`: after 0–2 fillers, directly or inside a branch (taken only when the argument is 0: the same
    callee can be called successfully with another argument)"""
    c18 = _c18()
    lead = [c18.filler(g, rng) for _ in range(rng.choice([0, 0, 1, 2]))]
    guarded = If(Bin('eq', Var('N'), Num('0')), [c18.filler(g, rng) for _ in range(rng.randint(0, 1))] + [st])
    return lead + [guarded] + ([Ret(Num('7'))] if ret else [ExprS(Call('显示', [Str('成')]))])


def around(g, rng, cname, bad, ok):
    """the property list of the failing type: `bad` (the default that fails) first / in the middle / last; `ok()` makes a default that
    calls successfully (or None)"""
    before, after = [], []
    for _ in range(rng.choice([0, 0, 1, 2])):
        e = ok() if rng.random() < 0.5 else None
        before.append(('前%d' % g.fresh(), e if e is not None else rng.choice([Num('1'), Str('型'), Arr([Num('1'), Num('2')])])))
    for _ in range(rng.choice([0, 0, 1])):
        after.append(('尾%d' % g.fresh(), rng.choice([Num('3'), Var('未定名'), Bin('/', Num('1'), Num('0'))])))   # never evaluated
    return before + [('数', bad)] + after


def neighbours(g, rng, ok):
    """(pre, post): declarations of the same block before (succeeding, some through calls) and after (never reached) the failing one"""
    c18 = _c18()
    pre, post = [], []
    for _ in range(rng.choice([0, 0, 1, 2])):
        u = g.fresh()
        k = rng.random()
        e = ok()
        if k < 0.6 and e is not None:
            pre.append(Class('先型%d' % u, [('名', Str('先')), ('值', e)], []))
        elif k < 0.8:
            pre.append(Func('先法%d' % u, [], [c18.filler(g, rng), Ret(Num('1'))]))
        else:
            pre.append(Class('先型%d' % u, [('名', Str('先'))], [Func('法', [], [Ret(Num('1'))])]))
    for _ in range(rng.choice([0, 0, 1, 2])):
        u = g.fresh()
        k = rng.random()
        if k < 0.5:
            post.append(Func('后法%d' % u, [], [c18.filler(g, rng), Ret(Num('2'))]))
        elif k < 0.8:
            e = ok()
            post.append(Class('后型%d' % u, [('名', Str('后'))] + ([('值', e)] if e is not None and rng.random() < 0.5 else []), []))
        else:
            post.append(Class('后型%d' % u, [('名', Str('后'))], []))
            post.append(Func('后型%d' % u, [], [ExprS(Call('显示', [Str('建')]))], ctor=True))
    for d in pre + post:
        d.tag = 'keep_%d' % g.fresh()      # a tagged declaration stays where it is when the program is split into two files
    return pre, post


def fault_decl_call(g, rng):
    """the fault descriptor c18.F of one declaration that fails through a call"""
    c18 = _c18()
    F = c18.F
    u = g.fresh()
    cname = '唤型%d' % u
    k = rng.random()
    if k < 0.34:
        # a default that calls a method which raises at its own line
        fn = '算%d' % u
        st, tail = raising(g, rng, 'dcl_1')
        defs = [Func(fn, ['N'], body_with(g, rng, st))]
        ok = lambda: Call(fn, [Num(str(rng.randint(1, 9)))])
        bad = Call(fn, [Num('0')])
        inner, kind = ['dcl_1'], 'declaration-default-calls-method'
    elif k < 0.56:
        # … a chain of two methods: the outer one's line is one more call-site line
        fn, fn2 = '外算%d' % u, '内算%d' % u
        st, tail = raising(g, rng, 'dcl_2')
        mid = rng.choice([Ret(Call(fn2, [Var('N')])), ExprS(Call('显示', c18.ml(rng, [Call(fn2, [Var('N')])]))),
                          Decl(['中%d' % u], Call(fn2, [Var('N')]))])
        mid.tag = 'dcl_1'
        outer = [c18.filler(g, rng) for _ in range(rng.choice([0, 1, 2]))] + [mid, Ret(Num('8'))]
        if not TAGGED_STATEMENT_DIRECTLY_AFTER_INPUT_LINE:
            outer.insert(0, ExprS(Call('显示', [Num(str(g.fresh()))])))     # a real statement (a comment would leave no token)
        defs = [Func(fn, ['N'], outer), Func(fn2, ['N'], body_with(g, rng, st))]
        ok = lambda: Call(fn, [Num(str(rng.randint(1, 9)))])
        bad = Call(fn, [Num('0')])
        inner, kind = ['dcl_1', 'dcl_2'], 'declaration-default-calls-chain-of-two'
    elif k < 0.74:
        # … constructs an object whose user-defined constructor fails
        tn = '造型%d' % u
        st, tail = raising(g, rng, 'dcl_1')
        defs = [Class(tn, [('名', Str('型'))], []), Func(tn, ['N'], body_with(g, rng, st, ret=False), ctor=True)]
        ok = lambda: New(tn, [Num(str(rng.randint(1, 9)))])
        bad = New(tn, [Num('0')])
        inner, kind = ['dcl_1'], 'declaration-default-constructor-fails'
    elif k < 0.88:
        # … calls a method of a fresh object
        tn = '物型%d' % u
        st, tail = raising(g, rng, 'dcl_1')
        defs = [Class(tn, [('名', Str('型'))], [Func('法', ['N'], body_with(g, rng, st))])]
        ok = lambda: MCall(New(tn, []), [('法', [Num(str(rng.randint(1, 9)))])])
        bad = MCall(New(tn, []), [('法', [Num('0')])])
        inner, kind = ['dcl_1'], 'declaration-default-object-method-fails'
    elif k < 0.94:
        # … calls a method with the wrong number of arguments: the call never began, the chain ends at the declaration's line
        fn = '算%d' % u
        defs = [Func(fn, ['N'], [Ret(Var('N'))])]
        ok = lambda: Call(fn, [Num(str(rng.randint(1, 9)))])
        bad = Call(fn, [Num('0'), Num('1')])
        inner, tail, kind = [], None, 'declaration-default-call-wrong-arity'
    else:
        # … calls a failing built-in method: built-in code is the last entry
        defs = []
        ok = lambda: None
        bad = MCall(Arr([Num('1')]), [('交换', [Num('5'), Num('6')])])
        inner, tail, kind = [], 'native', 'declaration-default-builtin-fails'
    pre, post = neighbours(g, rng, ok)
    f = F(Class(cname, around(g, rng, cname, bad, ok), []), tail=tail, pre=pre, defs=defs, kind=kind, bare=True, inner=inner)
    f.post = post
    if pre:
        f.kind_extra = ['declaration-call:after-succeeding-declarations']
    if post:
        f.kind_extra = getattr(f, 'kind_extra', []) + ['declaration-call:before-unreached-declarations']
    return f
