"""C15 — modules load once, export read-only names, and cycles are reported.

One case = one file table (≤ 4 Zn files in a private temp dir) run through `LoadFile(main).Execute` (harness op
`runfiles`), through the loader model (`modgraph`, lean/ZnVerif/Model/Modules.lean) and through the spec oracle
(`spec:modgraph`, lean/ZnVerif/Spec/ModuleSem.lean).  Observables: the displayed marker lines (order and
multiplicity), ok / error code.  Error position and call chain belong to C18 and are not compared.

Streams
  graphs-N-plain   EVERY digraph on N files, self-loops included (file 0 is the main file; an edge i→j is an import
                   statement in file i naming file j, statements in random order): every file exports two methods and
                   a type, imports everything, displays a marker before and after using what it imported.  Here the
                   only possible error is the cycle error, so the stream also checks, against an independent
                   reachability computation in this script, `error 63 ⇔ a cycle is reachable from the main file`,
                   and that every body marker appears at most once, after the markers of everything it imports.
  graphs-N-deco    the same digraphs, each with random decorations: export sets (none / methods / types / a name
                   shared by two modules), selective import lists (subsets, unknown names, repeated names), repeated
                   import statements, nested directories (`目-甲` ↦ 目/甲.zn, main file in a subdirectory), files
                   missing from the table (60), libraries (《@JSON》, 《@文件》, unknown 《@无》 → 64), methods calling
                   siblings, types constructing through siblings, imported methods calling what THEIR module imported,
                   assignments to imported names (44), calls of names that were not selected (42), definitions
                   before and after the statements (hoisting), self-recursive methods (call fuel) excluded.
  repeat           the plain cases again, R times each through Go (map order in the DFS start and in the export ranges
                   differs per run) and once through the model with reversed oracles: all answers must agree.
  seeds            hand-written cases: the witnesses of the two repaired defects, the manual's forms.
  ident            name → file identity.  The streams above name their modules 甲 乙 丙 (one spelling, no letter case), so two
                   DIFFERENT files with related names never meet in one run.  Here the module names of one table come from one
                   family of related spellings: letter case (Util / util / UTIL, 库-Conf / 库-conf, Lib-甲 / lib-甲, Greek,
                   Cyrillic, full-width, the special foldings K/K(U+212A), s/ſ, i/ı/İ, ß/ẞ/ss, σ/ς), compatibility and
                   composed/decomposed forms (é / é, Ａ / A, ﬁ / fi), blanks (甲 / “ 甲” / “甲 ” / ideographic and zero-width
                   blanks), dots and extensions (甲 / 甲.zn / 甲. / .甲 / 甲.ZN), prefixes and doublings (甲 / 甲甲 / 甲-甲 /
                   甲甲-甲), the same leaf in different directories (x / A-x / B-x / A-B-x: every name is resolved below the MAIN
                   file's directory, also when the importer lives in A/), digits (模1 / 模01 / 模10 / 模１), near-separators
                   (甲-乙 / 甲_乙 / 甲乙 / 甲—乙 / 甲－乙 / 甲\乙), names equal to a library name without the @ (JSON.zn beside
                   《@JSON》, 《@json》 → 64).  2–4 related names (+ sometimes an unrelated go-between module, + sometimes the
                   main file itself carries a related name) in a random acyclic import graph (a few back edges): both imported
                   by one file, one imported through the other, through a third module, repeated, with selective lists; the
                   files export either their own names or IDENTICAL names (共法 共辅 共类 / 共), so the markers tell from which
                   file a value came; some names have no file (60 — also when a case-/prefix-related module is loaded).
                   Judged by the spec oracle on the generator's file table and, independently, by `ident_property`
                   (static reachability over the table: which bodies must run exactly once / never, 60 ⇔ a reachable import
                   without a file).

  ident-alias      module names that are not plain paths: one file imported under its plain spelling 甲-乙 and under spellings
                   that filepath.Join would clean into the same path (甲--乙, 甲-.-乙, 甲/乙, 丙-..-甲-乙, ./甲-乙, …), by the main file
                   or through a go-between; `..-外` with a file 外.zn in the PARENT of the main file's directory; `甲\乙` beside a
                   file 甲\乙.zn.  The repaired tree (fix 420e70b) answers 60 for each of these names; the unchanged tree ran the
                   file once per spelling / read the outside file (the finding).  Judged three ways like every stream and by
                   `alias_property` (the file table alone: no body twice, nothing outside the directory, 60).

N ≤ 3 is exhaustive in both tiers (2 + 16 + 512 graphs); N = 4 (65 536 graphs) is sampled (500, biased to sparse graphs)
in quick and exhaustive in thorough.
"""
import itertools, json, os

RULE = ("one case = one file table run three ways; graphs: every digraph with self-loops on 1, 2, 3 files (530 graphs) "
        "in both tiers, on 4 files all 65 536 graphs in thorough and 500 sampled (biased to sparse graphs) in quick; each "
        "graph once plain and 1-2 (quick) / 3 (thorough; 1 for N=4) times decorated; the plain cases of N ≤ 3 run twice "
        "(quick) / six times (thorough, plus 2 000 of N=4) through Go and once more through the model with reversed oracles; "
        "ident: 450 (quick) / 12 000 (thorough) tables of 2-4 modules whose NAMES are related spellings of one family (letter case, "
        "normalisation forms, blanks, dots, prefixes, same leaf in different directories, digits, near-separators, library names "
        "without @), judged by the spec oracle and by static reachability over the generator's own file table; ident-alias: 40 (quick) "
        "/ 600 (thorough) tables importing one file under its plain name and under names with an empty, `.`, `..` or separator-carrying "
        "part (each must be error 60, no body may run twice, no file outside the main file's directory may be read). "
        "non-trivial = at least two modules' bodies ran or a module-level error (60/63/64/43/44/42) was reported after "
        "at least one import was processed")
ASSUMPTIONS = [
    "the file table of a case lies below the main file's directory, except the `..`-keyed entries of the stream ident-alias (one level "
    "up, inside the private temp dir); the model's pinned variant reads `..` relative to that directory, symbolic links do not occur",
    "the file system distinguishes file names by their exact code points (case-sensitive, no normalisation): true of the sandbox",
    "no import names the reserved internal module name 主模块 (it denotes the running main module, not 主模块.zn)",
    "defined names are not predefined global names; method bodies only display a marker and call/construct names",
    "syntax errors in module files, 输入 parameters, 拦截 handlers and object methods are outside the fragment",
    "a library's exported values are opaque (never called); their names come from stdlib/json and stdlib/file",
    "Go map iteration order is an arbitrary permutation (order oracles; exercised by repetitions)",
]
PARTIAL = ("no property theorem is partial; the equality of the displayed trace between model and spec oracle is checked by "
           "execution on every generated case, not proved (the theorems cover resolution incl. injectivity of name ↦ path and rejection of names that are not plain paths, "
           "once-only loading per FILE, "
           "import-before-body, export sets incl. libraries, read-only imports, missing module/library, DFS "
           "soundness/completeness/order-independence/termination, loader termination, cycle ⇔ 63, and name resolution "
           "of an imported method in its home module)")
TRUSTED_EXTRA = ["rendering of an abstract file table to Zn source text in tools/props/c15.py"]

LIBS = {'@JSON': ['解析JSON', '生成JSON'], '@文件': ['读取文件', '写入文件', '读取目录']}
CH = ['主', '甲', '乙', '丙']
CALL_FUEL = 64


# ---------------------------------------------------------------------------------------------------
# abstract cases → protocol lines

def cps(s):
    return '.'.join('%x' % ord(c) for c in s) if s else '-'


def hx(s):
    return s.encode().hex() if s else '-'


def render_file(f):
    out = []
    for name, items in f['imports']:
        if name.startswith('@'):
            ln = '导入《%s》' % name
        else:
            ln = '导入“%s”' % name
        if items:
            ln += '之' + '、'.join(items)
        out.append(ln)
    for it in f['items']:
        k = it[0]
        if k == 'm':
            out.append('（显示：%d）' % it[1])
        elif k == 'u':
            out.append(render_use(it[1]))
        elif k == 'a':
            out.append('%s = 1' % it[1])
        elif k == 'd':
            _, name, kind, mark, uses = it
            if kind == 't':
                out.append('定义%s：' % name)
                out.append('    其值设为0')
                out.append('')
                out.append('如何新建%s？' % name)
            else:
                out.append('如何%s？' % name)
            out.append('    （显示：%d）' % mark)
            for u in uses:
                out.append('    ' + render_use(u))
            out.append('')
    return '\n'.join(out) + '\n'


def render_use(u):
    return '（%s）' % u[1] if u[0] == 'c' else '（新建%s）' % u[1]


def go_line(case):
    pre = case.get('prefix', [])
    fs = ['runfiles', str(len(case['files']))]
    for f in case['files']:
        fs += [hx('/'.join(pre + f['path'])), cps(render_file(f))]
    fs.append(hx('/'.join(pre + case['main'])))
    return ' '.join(fs)


def enc_use(u):
    return u[0] + cps(u[1])


def lean_line(case, op='modgraph'):
    fs = [op, str(case.get('fuel', CALL_FUEL)), '/'.join(cps(s) for s in case['main']), str(len(case['files']))]
    for f in case['files']:
        fs += ['/'.join(cps(s) for s in f['path']), str(len(f['imports']))]
        for name, items in f['imports']:
            fs += [cps(name), ','.join(cps(x) for x in items) if items else '-']
        fs.append(str(len(f['items'])))
        for it in f['items']:
            k = it[0]
            if k == 'm':
                fs.append('m:%d' % it[1])
            elif k == 'u':
                fs.append('u:' + enc_use(it[1]))
            elif k == 'a':
                fs.append('a:' + cps(it[1]))
            else:
                _, name, kind, mark, uses = it
                fs.append('d:%s:%s:%d:%s' % (cps(name), kind, mark, ';'.join(enc_use(u) for u in uses) if uses else '-'))
    libs = case.get('libs', LIBS)
    fs.append(str(len(libs)))
    for k in sorted(libs):
        fs += [cps(k), ','.join(cps(x) for x in libs[k]) if libs[k] else '-']
    return ' '.join(fs)


def norm_go(ans):
    """`ok null | <hex lines>` / `err rt 63 <locs> | <hex lines>` → (status, [markers])"""
    if ' | ' not in ans:
        return (ans, None)
    head, tr = ans.split(' | ', 1)
    h = head.split(' ')
    if h[0] == 'ok':
        st = 'ok' if head == 'ok null' else head
    elif h[0] == 'err':
        st = 'err %s' % h[2] if h[1] == 'rt' else ' '.join(h[:3])
    else:
        st = head
    marks = []
    if tr != '-':
        for x in tr.split(','):
            try:
                marks.append(int(bytes.fromhex(x).decode()))
            except Exception:
                marks.append(x)
    return (st, marks)


def norm_lean(ans):
    if ' | ' not in ans:
        return (ans, None)
    head, tr = ans.split(' | ', 1)
    return (head, [int(x) for x in tr.split(',')] if tr != '-' else [])


# ---------------------------------------------------------------------------------------------------
# the evaluator model (Model/Interp.lean `runProgramWith`) on the same files: the harness dumps the tree of every file
# (`ast`), the driver op `runfilesast` runs the main tree over the table of trees and answers in the format of `runfiles`

def ast_tables(ctx, cases):
    """source text ↦ S-expression of its tree (None: the file does not compile), one `ast` call per distinct text"""
    texts = []
    seen = set()
    for c in cases:
        for f in c['files']:
            t = render_file(f)
            if t not in seen:
                seen.add(t)
                texts.append(t)
    ans = run_go_retry(ctx, ['ast ' + cps(t) for t in texts])
    return {t: (a[3:] if a.startswith('ok ') else None) for t, a in zip(texts, ans)}


def interp_line(case, asts):
    pre = case.get('prefix', [])
    fs = ['runfilesast', hx('/'.join(pre + case['main'])), str(len(case['files']))]
    for f in case['files']:
        sx = asts.get(render_file(f))
        toks = sx.split(' ') if sx else []
        fs += [hx('/'.join(pre + f['path'])), str(len(toks))] + toks
    return ' '.join(fs)


def run_interp(ctx, cases):
    """raw answers of the evaluator model, comparable with the raw `runfiles` answers (result, trace, error code, location chain)"""
    asts = ast_tables(ctx, cases)
    return ctx.run_lean([interp_line(c, asts) for c in cases])


def interp_agrees(go_raw, interp_raw):
    return go_raw == interp_raw


# ---------------------------------------------------------------------------------------------------
# generators

def base(i):
    return CH[i]


def names_of(i):
    b = base(i)
    return {'f': b + '法', 'g': b + '辅', 't': b + '类'}


def graph_of(n, code):
    """adjacency sets from the bit code: bit (i*n+j) = file i imports file j"""
    return [[j for j in range(n) if code >> (i * n + j) & 1] for i in range(n)]


def reach_cycle(adj):
    """(cycle reachable from 0 in the module graph, load order by DFS) — the main file imported by name is a
    separate module (same source), so nodes are 'M' (main) and 0..n-1 (named)"""
    def succ(x):
        return adj[0] if x == 'M' else adj[x]
    seen, stack = set(), ['M']
    while stack:
        x = stack.pop()
        if x in seen:
            continue
        seen.add(x)
        stack.extend(succ(x))
    # cycle among reachable nodes
    color = {}

    def dfs(u):
        color[u] = 1
        for v in succ(u):
            if color.get(v) == 1:
                return True
            if color.get(v, 0) == 0 and dfs(v):
                return True
        color[u] = 2
        return False
    return any(color.get(x, 0) == 0 and dfs(x) for x in sorted(seen, key=str))


def plain_case(n, code, rng):
    adj = graph_of(n, code)
    files = []
    for i in range(n):
        nm = names_of(i)
        targets = list(adj[i])
        rng.shuffle(targets)
        imports = [(base(j), []) for j in targets]
        items = [('m', 100 + 10 * i)]
        defs = [('d', nm['f'], 'm', 102 + 10 * i, [('c', nm['g'])]),
                ('d', nm['g'], 'm', 103 + 10 * i, []),
                ('d', nm['t'], 't', 104 + 10 * i, [('c', nm['g'])])]
        uses = []
        for j in targets:
            if j != i or True:
                uses.append(('u', ('c', names_of(j)['f'])))
                uses.append(('u', ('n', names_of(j)['t'])))
        tail = [('m', 101 + 10 * i)]
        if rng.random() < 0.5:
            items = defs + items + uses + tail
        else:
            items = items + uses + defs + tail
        files.append({'path': [base(i) + '.zn'], 'imports': imports, 'items': items})
    return {'main': [base(0) + '.zn'], 'files': files, 'adj': adj, 'kind': 'plain'}


def shadow_case(n, rng, ctx):
    """acyclic and fully reachable (every file imports the next one, plus random forward edges): every file except the main one
    exports 共 — and, with some probability, a name that collides with the exporter's neighbour (`乙辅` defined in 甲 too) — while
    the importer defines names of its own with the same spelling, whose bodies call the importer's OWN helper.  A method always
    runs in the module that defines it, whatever else carries its name."""
    adj = [[i + 1] + [j for j in range(i + 2, n) if rng.random() < 0.4] if i + 1 < n else [] for i in range(n)]
    files = []
    extra = {}                     # file j additionally exports a helper spelled like file j-1's helper
    for j in range(2, n):
        if rng.random() < 0.4:
            extra[j] = names_of(j - 1)['g']
    for i in range(n):
        nm = names_of(i)
        targets = list(adj[i])
        rng.shuffle(targets)
        imports, visible = [], []
        for j in targets:
            tn = names_of(j)
            exn = [tn['f'], tn['g'], tn['t'], '共'] + ([extra[j]] if j in extra else [])
            if rng.random() < 0.5:
                sel, got = [], exn
            else:
                sel = [e for e in exn if rng.random() < 0.7] or ['共']
                rng.shuffle(sel)
                got = sel
            imports.append((base(j), sel))
            visible += [(j, e) for e in got]
        defs = [('d', nm['g'], 'm', 103 + 10 * i, []),
                ('d', nm['f'], 'm', 102 + 10 * i, [('c', nm['g'])] + ([('c', '共')] if i > 0 and rng.random() < 0.6 else [])),
                ('d', nm['t'], 't', 104 + 10 * i, [('c', nm['g'])])]
        if i > 0:
            defs.append(('d', '共', 'm', 105 + 10 * i, [('c', nm['g'])] if rng.random() < 0.8 else []))
        if i in extra:
            defs.append(('d', extra[i], 'm', 106 + 10 * i, [('c', nm['g'])]))
        rng.shuffle(defs)
        own = {d[1] for d in defs}
        uses = []
        for (j, e) in visible:
            if rng.random() < 0.8:
                uses.append(('u', ('n', e)) if e.endswith('类') else ('u', ('c', e)))
        if i > 0 and rng.random() < 0.7:
            uses.append(('u', ('c', '共')))
        uses.append(('u', ('c', nm['f'])))
        rng.shuffle(uses)
        head, tail = [('m', 100 + 10 * i)], [('m', 101 + 10 * i)]
        items = (defs + head + uses + tail) if rng.random() < 0.5 else (head + uses + tail + defs)
        files.append({'path': [base(i) + '.zn'], 'imports': imports, 'items': items})
        if any(e in own for (_, e) in visible):
            ctx.count('shadow_own_definition_spelled_like_an_imported_name')
    return {'main': [base(0) + '.zn'], 'files': files, 'adj': adj, 'kind': 'deco'}


def deco_case(n, code, rng, ctx):
    adj = graph_of(n, code)
    # nested directories
    dirs = []
    for i in range(n):
        x = rng.random()
        dirs.append([] if i == 0 or x < 0.55 else (['目'] if x < 0.85 else ['目', '内']))
    modname = ['-'.join(dirs[i] + [base(i)]) for i in range(n)]
    # export sets
    exports = []
    shared = rng.random() < 0.25
    for i in range(n):
        nm = names_of(i)
        x = rng.random()
        if x < 0.12:
            ex = []
        elif x < 0.3:
            ex = ['f']
        elif x < 0.5:
            ex = ['f', 'g']
        elif x < 0.6:
            ex = ['t', 'g']
        else:
            ex = ['f', 'g', 't']
        exports.append(ex)
    files = []
    missing = set()
    for i in range(1, n):
        if rng.random() < 0.05:
            missing.add(i)
    for i in range(n):
        nm = names_of(i)
        targets = list(adj[i])
        rng.shuffle(targets)
        if targets and rng.random() < 0.12:
            targets.append(rng.choice(targets))          # repeated import statement
            ctx.count('deco_repeated_import_statement')
        imports = []
        visible = []                                      # names this file can expect to see
        for j in targets:
            tn = names_of(j)
            exn = [tn[k] for k in exports[j]] + (['共'] if shared and j > 0 else [])
            x = rng.random()
            if x < 0.5 or not exn:
                sel = []
                got = exn
            else:
                sel = [e for e in exn if rng.random() < 0.6]
                if rng.random() < 0.2:
                    sel.append('无名')
                if sel and rng.random() < 0.08:
                    sel.append(sel[0])
                if not sel:
                    sel = [exn[0]]
                rng.shuffle(sel)
                got = [e for e in sel if e in exn]
                ctx.count('deco_selective_import')
            imports.append((modname[j], sel))
            visible += [(j, e) for e in got]
        x = rng.random()
        if x < 0.06:
            imports.insert(rng.randint(0, len(imports)), ('缺', []))
            ctx.count('deco_missing_module_import')
        elif x < 0.16:
            lib = rng.choice(['@JSON', '@文件', '@JSON'])
            sel = [] if rng.random() < 0.6 else [rng.choice(LIBS[lib] + ['无名'])]
            imports.insert(rng.randint(0, len(imports)), (lib, sel))
            ctx.count('deco_library_import')
        elif x < 0.20:
            imports.insert(rng.randint(0, len(imports)), ('@无', []))
            ctx.count('deco_missing_library_import')
        # definitions
        defs = []
        ex = exports[i]
        imported_callables = [e for (j, e) in visible if e.endswith('法') or e.endswith('辅')]
        if 'g' in ex:
            gu = []
            if imported_callables and rng.random() < 0.5:
                gu.append(('c', rng.choice(imported_callables)))      # helper uses what ITS module imported
            defs.append(('d', nm['g'], 'm', 103 + 10 * i, gu))
        if 'f' in ex:
            fu = [('c', nm['g'])] if ('g' in ex or rng.random() < 0.1) else []
            if 't' in ex and rng.random() < 0.4:
                fu.append(('n', nm['t']))
            defs.append(('d', nm['f'], 'm', 102 + 10 * i, fu))
        if 't' in ex:
            defs.append(('d', nm['t'], 't', 104 + 10 * i, [('c', nm['g'])] if 'g' in ex else []))
        if shared and i > 0:
            # a module's OWN 共 (which shadows an imported 共) runs in this module: it may call this module's helper
            defs.append(('d', '共', 'm', 105 + 10 * i, [('c', nm['g'])] if ('g' in ex and rng.random() < 0.7) else []))
        if defs and rng.random() < 0.03:
            defs.append(defs[0])                                       # definition repeated in one module (43)
        rng.shuffle(defs)
        uses = []
        for (j, e) in visible:
            if rng.random() < 0.75:
                uses.append(('u', ('n', e)) if e.endswith('类') else ('u', ('c', e)))
        for j in targets:                                              # sometimes a name that was not selected / exported
            if rng.random() < 0.07:
                uses.append(('u', ('c', names_of(j)[rng.choice('fgt')])))
        if 'f' in ex and rng.random() < 0.5:
            uses.append(('u', ('c', nm['f'])))
        if visible and rng.random() < 0.06:
            uses.append(('a', rng.choice(visible)[1]))
            ctx.count('deco_assign_to_imported_name')
        if rng.random() < 0.02:
            uses.append(('a', '无名'))
        rng.shuffle(uses)
        head, tail = [('m', 100 + 10 * i)], [('m', 101 + 10 * i)]
        x = rng.random()
        if x < 0.4:
            items = defs + head + uses + tail
        elif x < 0.8:
            items = head + uses + tail + defs
        else:
            k = rng.randint(0, len(defs))
            items = defs[:k] + head + uses + defs[k:] + tail
        if rng.random() < 0.04:
            items = []                                                  # a module with imports only
        if i not in missing:
            files.append({'path': dirs[i] + [base(i) + '.zn'], 'imports': imports, 'items': items})
    case = {'main': [base(0) + '.zn'], 'files': files, 'adj': adj, 'kind': 'deco'}
    if rng.random() < 0.2:
        case['prefix'] = ['根']                                          # main file itself in a subdirectory
    if missing:
        ctx.count('deco_file_missing_from_table')
    return case


# ---------------------------------------------------------------------------------------------------
# name → file identity (stream `ident`)

IDX = ['主', '甲', '乙', '丙', '丁', '戊', '己', '庚']
FORBIDDEN_NAME_CHARS = set('“”「」‘’『』《》`/\n\r\x00')
# one-to-many / cross-script pairs that simple and full case folding, ToLower and ToUpper treat differently
FOLD_PAIRS = [('k', '\u212a'), ('s', '\u017f'), ('i', '\u0131'), ('i', '\u0130'), ('ss', '\u00df'), ('\u00df', '\u1e9e'),
              ('\u03c3', '\u03c2'), ('\u01c6', '\u01c5'), ('\u00e5', '\u212b'), ('\u03c9', '\u2126'), ('\u00b5', '\u03bc')]
CASE_STEMS = ['util', 'conf', 'lib', 'mod', 'main', 'list', 'kiss', '\u00e9t\u00e9', '\u03c3\u03bf\u03c6\u03cc\u03c2', '\u0436\u0443\u043a',
              '\uff41\uff42\uff43', 'stra\u00dfe', '\u01c6ak', '\u00e5ngstr\u00f6m', 'i', 'x', 'json', '\u00b5s', '\u03c9']
# (compatibility / composed form, its plain or decomposed twin): equal after NFC / NFKC normalisation, different as strings
NORM_PAIRS = [('\u00e9', 'e\u0301'), ('\u00c5', 'A\u030a'), ('\u212b', '\u00c5'), ('\uff21', 'A'), ('\ufb01', 'fi'), ('\uff76', '\u30ab'),
              ('\uf90a', '\u91d1'), ('\u2460', '1'), ('\u00b2', '2'), ('\uff71', '\u30a2'), ('\uac00', '\u1100\u1161'), ('\u2126', '\u03a9')]


def py_resolve(name):
    """the resolution clause read independently of the Lean spec: “A-B-C” ↦ (A, B, C.zn); a library name ↦ None"""
    if name.startswith('@'):
        return None
    segs = name.split('-')
    return tuple(segs[:-1] + [segs[-1] + '.zn'])


def py_valid(name):
    """every part of the name is a plain file name: not empty, not `.` / `..`, no path separator — any other name denotes no module"""
    return all(seg not in ('', '.', '..') and '/' not in seg and '\\' not in seg for seg in name.split('-'))


def plain_name(name):
    """a name that can have a file: plain parts (`py_valid`; others are the stream ident-alias), no quote, back-tick or line break,
    not the reserved 主模块, every path component short enough for the file system"""
    if not name or name == '主模块' or name.startswith('@') or any(c in FORBIDDEN_NAME_CHARS for c in name):
        return False
    if not py_valid(name):
        return False
    for seg in name.split('-'):
        if len((seg + '.zn').encode()) > 200:
            return False
    return True


def table_ok(names):
    """distinct spellings ↦ distinct files, and no path is both a file and a directory"""
    paths = [py_resolve(x) for x in names]
    if len(set(names)) != len(names) or len(set(paths)) != len(paths):
        return False
    files = set(paths)
    for p in paths:
        for k in range(1, len(p)):
            if p[:k] in files:
                return False
    return True


def flip_one(s, rng):
    pos = [k for k, c in enumerate(s) if c.lower() != c.upper()]
    if not pos:
        return s
    k = rng.choice(pos)
    c = s[k]
    d = c.upper() if c.upper() != c else c.lower()
    return s[:k] + d + s[k + 1:] if len(d) == 1 else s


def case_variants(stem, rng):
    vs = [stem, stem.upper(), stem.capitalize(), stem.swapcase(), flip_one(stem, rng), flip_one(stem.upper(), rng), stem.lower()]
    for a, b in FOLD_PAIRS:
        if a in stem:
            vs += [stem.replace(a, b, 1), stem.replace(a, b, 1).upper()]
        if b in stem:
            vs += [stem.replace(b, a, 1)]
        if a.upper() in stem.upper() and a.upper() != a:
            vs += [stem.upper().replace(a.upper(), b, 1)]
    out = []
    for v in vs:
        if v not in out:
            out.append(v)
    return out


def name_family(rng):
    """(family, spellings): a pool of related module names, most relevant first is NOT implied — callers sample from it"""
    fam = rng.choice(['case', 'case', 'case', 'norm', 'blank', 'dot', 'prefix', 'prefix', 'leaf', 'leaf', 'digit', 'sep', 'lib',
                      'plain'])
    han = rng.choice(['甲', '库', '模', '子', '工具'])
    if fam == 'case':
        vs = case_variants(rng.choice(CASE_STEMS), rng)
        shape = rng.choice(['bare', 'bare', 'han-prefix', 'han-suffix', 'leaf-in-dir', 'dir', 'both', 'digit'])
        wrap = {'bare': lambda v: v, 'han-prefix': lambda v: han + v, 'han-suffix': lambda v: v + han,
                'leaf-in-dir': lambda v: han + '-' + v, 'dir': lambda v: v + '-' + han, 'both': lambda v: v + '-' + v,
                'digit': lambda v: v + '2'}[shape]
        pool = [wrap(v) for v in vs]
        if shape in ('leaf-in-dir', 'dir') and rng.random() < 0.5:
            pool += [vs[0], vs[1]] if shape == 'leaf-in-dir' else [han]
    elif fam == 'norm':
        a, b = rng.choice(NORM_PAIRS)
        shape = rng.choice(['bare', 'han-prefix', 'leaf-in-dir', 'dir'])
        wrap = {'bare': lambda v: v, 'han-prefix': lambda v: han + v, 'leaf-in-dir': lambda v: han + '-' + v,
                'dir': lambda v: v + '-' + han}[shape]
        pool = [wrap(a), wrap(b), wrap(a + b), wrap(b + a)]
    elif fam == 'blank':
        b = rng.choice([han, 'util', han + ' 乙', 'my mod'])
        pool = [b, ' ' + b, b + ' ', b + '\u3000', '\u3000' + b, b + '\t', b + '\u200b', '\ufeff' + b, b + '\u00a0',
                b.replace(' ', '  '), b.replace(' ', ''), b.replace(' ', '\u3000'), ' ' + b + ' ', han + '- ' + b, han + ' -' + b]
    elif fam == 'dot':
        b = rng.choice([han, 'util', han + '.乙'])
        pool = [b, b + '.zn', b + '.', '.' + b, b + '.ZN', b + '.zn.zn', b + '.txt', b + '..', '..' + b, b + '.乙', b.replace('.', ''),
                b + '-' + b + '.zn', b + '.zn-' + b]
    elif fam == 'prefix':
        b = rng.choice([han, '甲', 'ab', 'x'])
        pool = [b, b + b, b + '-' + b, b + b + '-' + b, b + '-' + b + b, b + '-' + b + '-' + b, b + b + b, b + b + '-' + b + b,
                b + '乙', '乙' + b, b[:1]] + ([b[:-1]] if len(b) > 1 else [])
    elif fam == 'leaf':
        x, a, b = rng.choice([('甲', '目', '库'), ('x', 'A', 'B'), ('共用', '甲', '乙'), ('util', 'lib', 'Lib')])
        pool = [x, a + '-' + x, b + '-' + x, a + '-' + b + '-' + x, b + '-' + a + '-' + x, a + '-' + a + '-' + x, x + '-' + x,
                a + '-' + x + '-' + x, a, b, x + '-' + a]
    elif fam == 'digit':
        b = rng.choice([han, 'mod', ''])
        pool = [b + '1', b + '01', b + '10', b + '1.0', b + '\uff11', b + '一', b + '1-1', b + '11', b + '1e0', b + '+1', b + '1 ',
                '1-' + b + '1', b + '0x1']
    elif fam == 'sep':
        a, b = rng.choice([('甲', '乙'), ('my', 'mod'), (han, 'x')])
        pool = [a + '-' + b, a + '_' + b, a + b, a + '\u2014' + b, a + '\uff0d' + b, a + '\u2010' + b, a + '~' + b, a + '+' + b, a + ':' + b,
                a + '\\' + b, a + '.' + b, a + ' ' + b, a + '、' + b, a + '之' + b, b + '-' + a, a]
    elif fam == 'lib':
        pool = ['JSON', 'json', 'Json', '文件', 'JSON-JSON', '文件-JSON', '\uff20JSON', 'JSON@', '库-@JSON', 'JSON-文件']
    else:
        pool = ['旁', '远', '邻-旁', '邻']
    out = []
    for v in pool:
        if plain_name(v) and v not in out:
            out.append(v)
    return fam, out


# Names that are not plain paths: a part that is empty, `.`, `..` or carries a separator.  filepath.Join cleans such a name into the
# path of ANOTHER spelling, and the unchanged tree registered every spelling as a module of its own although they denote one file, so
# the body of that file ran once per spelling (导入“甲-乙” then 导入“甲--乙” displayed the markers of 甲/乙.zn twice; the same with
# “甲-.-乙”, “甲/乙”, “丙-..-甲-乙”, “./甲-乙”), and “..-外” loaded a file OUTSIDE the main file's directory: a genuine defect of
# DemoHn/Zn (KF fixed: 420e70b).  The repaired tree answers 60 (module not found) for every such name before a path is built; the
# loader model (`Variant.repaired`) and the spec oracle (`plainName`) say the same, the model's `Variant.pinned` (op modgraph-pinned,
# shown by --replay) describes the old behaviour.  VERIF_C15_JOIN_CLEANED_SPELLINGS=0 switches the stream off.
IDENT_JOIN_CLEANED_SPELLINGS = True
ALIAS_DEEP = ['甲--乙', '甲-.-乙', '甲/乙', '丙-..-甲-乙', './甲-乙', '.-甲-乙', '甲//乙', '甲-丙/../乙', '-甲-乙', '甲-./乙', '甲-丙-..-乙',
              '../根/甲-乙', '..-根-甲-乙']
ALIAS_FLAT = ['./甲', '.-甲', '-甲', '丙-..-甲', '丙/../甲', '甲-..-甲', '/甲', '../根/甲', '..-根-甲']


def alias_case(rng):
    """one file F imported under its plain spelling and under 1–2 names that the path cleaning would map to F too, by the main file
    or through a go-between; or `..-外` with a file one level above the main file's directory; or `甲\\乙` beside a file of that name.
    The main file lives in 根/ (prefix), a file key starting with `..` is a file beside 根/."""
    x = rng.random()
    if x < 0.15:
        main = {'path': ['主.zn'], 'imports': [(rng.choice(['..-外', '../外', '..-根-..-外', '甲-..-..-外']), ['无名'])],
                'items': [('m', 100), ('m', 101)]}
        out = {'path': ['..', '外.zn'], 'imports': [], 'items': [('m', 110), ('m', 111)]}
        return {'main': ['主.zn'], 'files': [main, out], 'kind': 'alias', 'outside': True, 'prefix': ['根']}
    if x < 0.25:
        nm = rng.choice(['甲\\乙', '目-甲\\乙', '甲\\'])
        main = {'path': ['主.zn'], 'imports': [(nm, ['无名'])], 'items': [('m', 100), ('m', 101)]}
        tgt = {'path': list(py_resolve(nm)), 'imports': [], 'items': [('m', 110), ('m', 111)]}
        return {'main': ['主.zn'], 'files': [main, tgt], 'kind': 'alias', 'outside': False, 'backslash': True, 'prefix': ['根']}
    deep = rng.random() < 0.7
    base = '甲-乙' if deep else '甲'
    spell = [base] + rng.sample(ALIAS_DEEP if deep else ALIAS_FLAT, rng.choice([1, 1, 2]))
    rng.shuffle(spell)
    target = {'path': ['甲', '乙.zn'] if deep else ['甲.zn'], 'imports': [],
              'items': [('m', 110), ('d', '甲法', 'm', 112, []), ('m', 111)]}
    via = rng.random() < 0.4
    first = [(spell[0], [] if rng.random() < 0.5 else ['甲法'])]
    others = [(x, ['无名']) for x in spell[1:]]
    if via:
        files = [{'path': ['主.zn'], 'imports': first + [('旁', [])], 'items': [('m', 100), ('u', ('c', '甲法')), ('m', 101)]},
                 {'path': ['旁.zn'], 'imports': others, 'items': [('m', 120), ('m', 121)]}, target]
    else:
        files = [{'path': ['主.zn'], 'imports': first + others, 'items': [('m', 100), ('u', ('c', '甲法')), ('m', 101)]}, target]
    return {'main': ['主.zn'], 'files': files, 'kind': 'alias', 'outside': False, 'prefix': ['根']}


def alias_property(case, g):
    """the file table as the judge: the body of one file never runs twice, a file outside the main file's directory is never read, and
    a name with a part that is not a plain file name denotes no module (every alias case imports one from a reachable file: 60)"""
    st, marks = g
    if marks is None:
        return 'no answer: ' + st
    if case.get('outside') and 110 in marks:
        return 'a file outside the main file\'s directory was loaded: %s %s' % (st, marks)
    if marks.count(110) > 1:
        return 'the body of one file ran %d times (imported under spellings that denote the same path): %s' % (marks.count(110), marks)
    if st != 'err 60':
        return 'an import of a name with a part that is not a plain file name did not end in module-not-found: %s %s' % (st, marks)
    return None


def ident_case(rng, ctx):
    while True:
        fam, pool = name_family(rng)
        if len(pool) < 2:
            continue
        k = min(len(pool), rng.choice([2, 2, 3, 3, 4]))
        mods = rng.sample(pool, k)
        if rng.random() < 0.4:
            mods.append(rng.choice(['旁', '邻-旁']))                    # an unrelated go-between module
        rng.shuffle(mods)
        main = '主'
        rest = [x for x in pool if x not in mods]
        single = [x for x in rest if '-' not in x]
        if single and rng.random() < 0.15:
            main = rng.choice(single)                                   # the main file itself carries a related name
            rest.remove(main)
        names = [main] + mods
        if table_ok(names) and all(plain_name(x) for x in names):
            break
    n = len(names)
    ctx.count('ident_family_' + fam)
    if main != '主':
        ctx.count('ident_main_file_has_a_related_name')
    missing = {i for i in range(1, n) if rng.random() < 0.04}
    # import graph: acyclic (file i imports files after it), every file has an importer, a few back edges
    adj = [[j for j in range(i + 1, n) if rng.random() < (0.7 if i == 0 else 0.45)] for i in range(n)]
    for j in range(1, n):
        if not any(j in adj[i] for i in range(j)):
            adj[rng.randrange(j)].append(j)
    for i in range(1, n):
        if rng.random() < 0.03:
            adj[i].append(rng.randint(1, i))
            ctx.count('ident_back_edge')
    # export names: own (index-named), own + one shared method, or the SAME three names in every file
    mode = rng.choice(['own', 'shared', 'same', 'same'])
    ctx.count('ident_exports_' + mode)

    def defnames(i):
        if mode == 'same' and i > 0:
            return {'f': '共法', 'g': '共辅', 't': '共类'}
        return {'f': IDX[i] + '法', 'g': IDX[i] + '辅', 't': IDX[i] + '类'}

    def exported(i):
        d = defnames(i)
        return [d['f'], d['g'], d['t']] + (['共'] if mode == 'shared' and i > 0 else [])
    ghost = None
    if rest and rng.random() < 0.15:
        ghost = (rng.choice([0, 0, rng.randrange(n)]), rng.choice(rest))                    # a related name that has no file at all
        ctx.count('ident_import_of_related_name_without_file')
    lib = None
    if fam == 'lib' and rng.random() < 0.7 or rng.random() < 0.05:
        lib = (rng.randrange(n), rng.choice(['@JSON', '@JSON', '@文件', '@json', '@Json', '@JSON ', '@文件-JSON']))
    files = []
    for i in range(n):
        d = defnames(i)
        targets = list(adj[i])
        rng.shuffle(targets)
        if targets and rng.random() < 0.12:
            targets.insert(rng.randint(0, len(targets)), rng.choice(targets))     # repeated import statement
        imports, visible = [], []
        taken = set(exported(i)) if mode != 'same' and rng.random() < 0.5 else set()    # own names hide imported ones: no clash
        for j in targets:
            exn = exported(j)
            free = [e for e in exn if e not in taken]
            x = rng.random()
            if len(free) < len(exn) and x < 0.88:
                # avoid the clash (43) most of the time: take one or two of the names that are still free (or none at all)
                sel = rng.sample(free, min(len(free), rng.choice([1, 1, 2]))) if free else ['无名']
            elif len(free) == len(exn) and mode == 'same' and len(targets) > 1 and x < 0.8:
                sel = rng.sample(exn, rng.choice([1, 1, 2]))               # leaves names for the other files
            elif rng.random() < 0.5:
                sel = []
            else:
                sel = [e for e in exn if rng.random() < 0.6] or [exn[0]]
            if sel and rng.random() < 0.1:
                sel.append('无名')
            rng.shuffle(sel)
            got = [e for e in (sel or exn) if e in exn]
            imports.append((names[j], sel))
            visible += [(j, e) for e in got]
            taken.update(got)
        if ghost and ghost[0] == i:
            # mostly after the related modules have been loaded
            imports.insert(len(imports) if rng.random() < 0.8 else rng.randint(0, len(imports)),
                           (ghost[1], [] if rng.random() < 0.6 else ['共法']))
        if lib and lib[0] == i:
            ln = lib[1]
            sel = [] if rng.random() < 0.6 else [rng.choice(LIBS.get(ln, ['解析JSON']) + ['无名'])]
            imports.insert(rng.randint(0, len(imports)), (ln, sel))
            ctx.count('ident_library_import')
        # (a name the module defines itself hides the imported one: calling it from the helper would be a recursion)
        callables = [e for (_, e) in visible if not e.endswith('类') and e not in exported(i)]
        gu = [('c', rng.choice(callables))] if callables and rng.random() < 0.35 else []   # helper uses what ITS module imported
        defs = [('d', d['g'], 'm', 103 + 10 * i, gu),
                ('d', d['f'], 'm', 102 + 10 * i, [('c', d['g'])] + ([('n', d['t'])] if rng.random() < 0.3 else [])),
                ('d', d['t'], 't', 104 + 10 * i, [('c', d['g'])])]
        if mode == 'shared' and i > 0:
            defs.append(('d', '共', 'm', 105 + 10 * i, [('c', d['g'])]))
        rng.shuffle(defs)
        uses = []
        for (j, e) in visible:
            if rng.random() < 0.85:
                uses.append(('u', ('n', e)) if e.endswith('类') else ('u', ('c', e)))
        if rng.random() < 0.5:
            uses.append(('u', ('c', d['f'])))
        if targets and rng.random() < 0.05:
            uses.append(('u', ('c', rng.choice(exported(rng.choice(targets))))))          # maybe not selected: 42
        if visible and rng.random() < 0.04:
            uses.append(('a', rng.choice(visible)[1]))
        rng.shuffle(uses)
        head, tail = [('m', 100 + 10 * i)], [('m', 101 + 10 * i)]
        items = (defs + head + uses + tail) if rng.random() < 0.5 else (head + uses + tail + defs)
        if i not in missing:
            files.append({'path': list(py_resolve(names[i])), 'imports': imports, 'items': items})
    case = {'main': list(py_resolve(main)), 'files': files, 'kind': 'ident', 'names': names, 'family': fam}
    if rng.random() < 0.2:
        case['prefix'] = [rng.choice(['根', 'Root', '根 目'])]
    if missing:
        ctx.count('ident_file_missing_from_table')
    # how many pairs of names of this run differ only by letter case / normalisation / blanks (evidence)
    import unicodedata
    for a in range(n):
        for b in range(a + 1, n):
            x, y = names[a], names[b]
            if x.casefold() == y.casefold() or x.lower() == y.lower() or x.upper() == y.upper():
                ctx.count('ident_pairs_differing_in_letter_case_only')
            elif unicodedata.normalize('NFKC', x) == unicodedata.normalize('NFKC', y):
                ctx.count('ident_pairs_equal_after_normalisation')
            elif x.strip() == y.strip() or ''.join(x.split()) == ''.join(y.split()):
                ctx.count('ident_pairs_differing_in_blanks_only')
            elif x.startswith(y) or y.startswith(x) or x.endswith(y) or y.endswith(x):
                ctx.count('ident_pairs_prefix_or_suffix_related')
    return case


def ident_property(case, g):
    """the generator's own file table as the judge: a name denotes exactly the file py_resolve says (below the MAIN file's
    directory), a file that is not reachable from the main file through such names never runs, no body runs twice, an `ok` run has
    run every reachable file completely, and 60 is reported iff some reachable import has no file (libraries apart).  Holds
    whatever else the run reports (a cycle, a clash of names, …): those answers are the spec oracle's to judge."""
    st, marks = g
    if marks is None:
        return 'no answer: ' + st
    table = {tuple(f['path']): f for f in case['files']}
    index = {}                                                          # path ↦ file index of the markers
    for i, nm in enumerate(case['names']):
        index[py_resolve(nm)] = i
    main = tuple(case['main'])
    seen, stack, dangling, again = set(), [main], False, False
    while stack:
        p = stack.pop()
        if p in seen:
            continue
        seen.add(p)
        for name, _ in table[p]['imports']:
            q = py_resolve(name)
            if q is None:
                continue
            if not py_valid(name):
                dangling = True                                         # such a name denotes no module, whatever files exist
                continue
            if q == main:
                again = True                                            # the main file imported by name runs a second time
            if q in table:
                stack.append(q)
            else:
                dangling = True
    starts = [m // 10 - 10 for m in marks if m % 10 == 0]
    ends = [m // 10 - 10 for m in marks if m % 10 == 1]
    reach = {index[p] for p in seen}
    for i in set(starts):
        if i not in reach:
            return 'the body of %s ran although no reachable import names that file: %s' % (case['names'][i], marks)
        if starts.count(i) > 1 and not (i == 0 and again):
            return 'the body of %s ran %d times: %s' % (case['names'][i], starts.count(i), marks)
    for m in marks:                                                     # a method / constructor marker of a file that never started
        i = m // 10 - 10
        if m % 10 >= 2 and i not in starts and 0 <= i < len(case['names']):
            return 'a definition of %s ran although its file was never loaded: %s' % (case['names'][i], marks)
    if st == 'ok':
        if dangling:
            return 'a reachable import names a module without a file, yet the run ended ok: %s' % marks
        for i in reach:
            if starts.count(i) < 1 or ends.count(i) < 1:
                return 'ok run, but the reachable file %s did not run completely: %s' % (case['names'][i], marks)
    if st == 'err 60' and not dangling:
        return 'module-not-found although every reachable import has its file: %s' % marks
    return None


SEEDS = [
    # 甲 ↔ 乙 (was: ran to completion with half-initialised exports, no error)
    {'main': ['主.zn'], 'files': [
        {'path': ['主.zn'], 'imports': [('甲', [])], 'items': [('m', 1)]},
        {'path': ['甲.zn'], 'imports': [('乙', [])], 'items': [('m', 2), ('d', '甲法', 'm', 3, [])]},
        {'path': ['乙.zn'], 'imports': [('甲', [])], 'items': [('m', 4), ('u', ('c', '甲法'))]}]},
    # self-import
    {'main': ['主.zn'], 'files': [
        {'path': ['主.zn'], 'imports': [('甲', [])], 'items': [('m', 1)]},
        {'path': ['甲.zn'], 'imports': [('甲', [])], 'items': [('m', 2)]}]},
    # the main file imported by name imports itself
    {'main': ['主.zn'], 'files': [{'path': ['主.zn'], 'imports': [('主', [])], 'items': [('m', 1)]}]},
    # imported method calling a sibling method and constructing a sibling type (was: 标识未有定义)
    {'main': ['主.zn'], 'files': [
        {'path': ['主.zn'], 'imports': [('甲', ['甲法'])], 'items': [('m', 1), ('u', ('c', '甲法')), ('m', 2)]},
        {'path': ['甲.zn'], 'imports': [], 'items': [
            ('d', '甲法', 'm', 3, [('c', '甲辅'), ('n', '甲类')]), ('d', '甲辅', 'm', 4, []),
            ('d', '甲类', 't', 5, [('c', '甲辅')]), ('m', 6)]}]},
    # diamond: 丙 runs once
    {'main': ['主.zn'], 'files': [
        {'path': ['主.zn'], 'imports': [('甲', []), ('乙', [])], 'items': [('m', 1)]},
        {'path': ['甲.zn'], 'imports': [('目-丙', [])], 'items': [('m', 2)]},
        {'path': ['乙.zn'], 'imports': [('目-丙', [])], 'items': [('m', 3)]},
        {'path': ['目', '丙.zn'], 'imports': [], 'items': [('m', 4)]}]},
    # selective import: the unlisted method is not visible
    {'main': ['主.zn'], 'files': [
        {'path': ['主.zn'], 'imports': [('甲', ['甲法'])], 'items': [('u', ('c', '甲法')), ('u', ('c', '甲辅'))]},
        {'path': ['甲.zn'], 'imports': [], 'items': [('d', '甲法', 'm', 3, []), ('d', '甲辅', 'm', 4, [])]}]},
    # imported names are read-only; library names too
    {'main': ['主.zn'], 'files': [
        {'path': ['主.zn'], 'imports': [('甲', [])], 'items': [('m', 1), ('a', '甲法')]},
        {'path': ['甲.zn'], 'imports': [], 'items': [('d', '甲法', 'm', 3, [])]}]},
    {'main': ['主.zn'], 'files': [
        {'path': ['主.zn'], 'imports': [('@JSON', [])], 'items': [('m', 1), ('a', '解析JSON')]}]},
    # missing module, missing library, the same module imported twice by one file
    {'main': ['主.zn'], 'files': [{'path': ['主.zn'], 'imports': [('缺', [])], 'items': [('m', 1)]}]},
    {'main': ['主.zn'], 'files': [{'path': ['主.zn'], 'imports': [('@无', [])], 'items': [('m', 1)]}]},
    {'main': ['主.zn'], 'files': [
        {'path': ['主.zn'], 'imports': [('甲', []), ('甲', [])], 'items': [('m', 1)]},
        {'path': ['甲.zn'], 'imports': [], 'items': [('m', 2), ('d', '甲法', 'm', 3, [])]}]},
    # an error inside an imported method is an exception (no code); inside a constructor it keeps its code
    {'main': ['主.zn'], 'files': [
        {'path': ['主.zn'], 'imports': [('甲', [])], 'items': [('u', ('c', '甲法'))]},
        {'path': ['甲.zn'], 'imports': [], 'items': [('d', '甲法', 'm', 3, [('c', '无名')])]}]},
    {'main': ['主.zn'], 'files': [
        {'path': ['主.zn'], 'imports': [('甲', [])], 'items': [('u', ('n', '甲类'))]},
        {'path': ['甲.zn'], 'imports': [], 'items': [('d', '甲类', 't', 3, [('c', '无名')])]}]},
    # a module's own method spelled like an imported one runs in the module that defines it (it calls ITS helper)
    {'main': ['主.zn'], 'files': [
        {'path': ['主.zn'], 'imports': [('甲', [])], 'items': [('m', 1), ('u', ('c', '甲法')), ('m', 2)]},
        {'path': ['甲.zn'], 'imports': [('乙', [])], 'items': [
            ('d', '甲法', 'm', 3, [('c', '共')]), ('d', '甲辅', 'm', 4, []), ('d', '共', 'm', 115, [('c', '甲辅')]),
            ('m', 6), ('u', ('c', '共'))]},
        {'path': ['乙.zn'], 'imports': [], 'items': [('d', '共', 'm', 125, []), ('m', 7)]}]},
    # names that are not plain paths (the witnesses of the finding fixed by 420e70b): 甲-乙 then 甲--乙 — 60, the body of 甲/乙.zn once
    {'main': ['主.zn'], 'files': [
        {'path': ['主.zn'], 'imports': [('甲-乙', []), ('甲--乙', [])], 'items': [('m', 1)]},
        {'path': ['甲', '乙.zn'], 'imports': [], 'items': [('m', 2)]}]},
    # … through a go-between, `.` and `/` spellings
    {'main': ['主.zn'], 'files': [
        {'path': ['主.zn'], 'imports': [('甲-乙', []), ('旁', [])], 'items': [('m', 1)]},
        {'path': ['旁.zn'], 'imports': [('甲/乙', ['无名']), ('甲-.-乙', ['无名'])], 'items': [('m', 3)]},
        {'path': ['甲', '乙.zn'], 'imports': [], 'items': [('m', 2)]}]},
    # … `..` leaves the main file's directory (the main file lives in 根/, 外.zn beside 根/)
    {'main': ['主.zn'], 'prefix': ['根'], 'files': [
        {'path': ['主.zn'], 'imports': [('..-外', [])], 'items': [('m', 1)]},
        {'path': ['..', '外.zn'], 'imports': [], 'items': [('m', 2)]}]},
    # … a backslash in a part, although a file of that name exists
    {'main': ['主.zn'], 'files': [
        {'path': ['主.zn'], 'imports': [('甲\\乙', [])], 'items': [('m', 1)]},
        {'path': ['甲\\乙.zn'], 'imports': [], 'items': [('m', 2)]}]},
    # long cycle through a nested directory
    {'main': ['主.zn'], 'files': [
        {'path': ['主.zn'], 'imports': [('甲', [])], 'items': [('m', 1)]},
        {'path': ['甲.zn'], 'imports': [('目-乙', [])], 'items': [('m', 2)]},
        {'path': ['目', '乙.zn'], 'imports': [('目-内-丙', [])], 'items': [('m', 3)]},
        {'path': ['目', '内', '丙.zn'], 'imports': [('甲', [])], 'items': [('m', 4)]}]},
]


# ---------------------------------------------------------------------------------------------------
# comparison

def case_key(case):
    return json.dumps({k: case[k] for k in ('main', 'files', 'prefix', 'libs', 'fuel') if k in case}, ensure_ascii=False,
                      sort_keys=True)


def run_go_retry(ctx, lines):
    """an op that timed out or died under load is run again alone with a generous watchdog; what times out again stands (after
    five of those in a row the rest keep their first answer: the code hangs, it is not the load)"""
    go = ctx.run_go(lines)
    again = 0
    for i, a in enumerate(go):
        if a.startswith('timeout') or a.startswith('crash') or a == 'notrun':
            if again >= 5:
                break
            ctx.count('go_rerun_after_timeout_or_crash')
            go[i] = ctx.run_go([lines[i]], timeout_ms=20000, parallel=False)[0]
            again = again + 1 if (go[i].startswith('timeout') or go[i].startswith('crash')) else 0
    return go


def run3(ctx, cases):
    go = run_go_retry(ctx, [go_line(c) for c in cases])
    model = ctx.run_lean([lean_line(c) for c in cases])
    spec = ctx.run_lean([lean_line(c, 'spec:modgraph') for c in cases])
    ctx._c15_raw = (go, run_interp(ctx, cases))
    return [norm_go(x) for x in go], [norm_lean(x) for x in model], [norm_lean(x) for x in spec]


def mismatch(ctx, case, side):
    g = norm_go(ctx.run_go([go_line(case)], parallel=False)[0])
    if g[1] is None:
        return False            # a candidate that hangs or crashes is not a smaller witness
    o = norm_lean(ctx.run_lean([lean_line(case, 'spec:modgraph' if side == 'spec' else 'modgraph')], parallel=False)[0])
    return g != o


def shrink(ctx, case, side):
    """greedy removal of files, import statements, items, uses inside definitions, selective-list entries"""
    import time
    cur = json.loads(case_key(case))
    budget = 60
    deadline = time.time() + 45
    progress = True
    while progress and budget > 0 and time.time() < deadline:
        progress = False
        cands = []
        for fi, f in enumerate(cur['files']):
            if f['path'] != cur['main']:
                cands.append(('file', fi))
            for ii in range(len(f['imports'])):
                cands.append(('imp', fi, ii))
                for k in range(len(f['imports'][ii][1])):
                    cands.append(('sel', fi, ii, k))
            for ti, it in enumerate(f['items']):
                cands.append(('item', fi, ti))
                if it[0] == 'd':
                    for k in range(len(it[4])):
                        cands.append(('duse', fi, ti, k))
        for c in cands:
            if budget <= 0 or time.time() > deadline:
                break
            t = json.loads(json.dumps(cur, ensure_ascii=False))
            if c[0] == 'file':
                del t['files'][c[1]]
            elif c[0] == 'imp':
                del t['files'][c[1]]['imports'][c[2]]
            elif c[0] == 'sel':
                del t['files'][c[1]]['imports'][c[2]][1][c[3]]
            elif c[0] == 'item':
                del t['files'][c[1]]['items'][c[2]]
            else:
                del t['files'][c[1]]['items'][c[2]][4][c[3]]
            budget -= 1
            try:
                bad = mismatch(ctx, t, side)
            except Exception:
                bad = False
            if bad:
                cur = t
                progress = True
                break
    return cur


def untuple(case):
    """JSON round trip turns tuples into lists; the renderers index positionally, so both work"""
    return case


def describe(case):
    return {'/'.join(case.get('prefix', []) + f['path']): render_file(f) for f in case['files']}


def nontrivial(g):
    st, marks = g
    if marks is None:
        return False
    bodies = {m // 10 for m in marks if m % 10 == 0}
    return len(bodies) >= 2 or (st.startswith('err') and st != 'err 0')


def compare(ctx, stream, cases, check_plain=False, prop=None):
    nv = nd = 0
    for lo in range(0, len(cases), 8000):
        part = cases[lo:lo + 8000]
        go, model, spec = run3(ctx, part)
        go_raw, interp_raw = ctx._c15_raw
        for c, gr, ir in zip(part, go_raw, interp_raw):
            # Go = evaluator model (Model/Interp.lean with modules) on the whole answer: result, trace, error code, location chain
            ctx.evaluations += 1
            if ir == 'unmodelled':
                ctx.count('interp_unmodelled')
            elif gr != ir:
                ctx.count('interp_disagreement')
                ctx.disagreement(stream + ':interp', case_key(c), gr, ir)
            else:
                ctx.count('interp_agrees')
                if gr.startswith('err') and '>' in gr.split(' | ')[0]:
                    ctx.count('interp_agrees_on_error_chain_across_modules')
        for c, g, m, s in zip(part, go, model, spec):
            ctx.evaluations += 1
            ctx.count('outcome_' + g[0].replace(' ', '_'))
            if g != m:
                nd += 1
                if not getattr(ctx, '_c15_shrunk_model', False):
                    ctx._c15_shrunk_model = True
                    small = shrink(ctx, c, 'model')
                    ctx.disagreement(stream, case_key(small), ctx.run_go([go_line(small)])[0], ctx.run_lean([lean_line(small)])[0])
                else:
                    ctx.disagreement(stream, case_key(c), str(g), str(m))
            bad = g != s
            why = None
            if not bad and (check_plain or prop):
                why = plain_property(c, g) if check_plain else prop(c, g)
                bad = why is not None
            if bad:
                nv += 1
                if why is None and not getattr(ctx, '_c15_shrunk_spec', False):
                    ctx._c15_shrunk_spec = True
                    small = shrink(ctx, c, 'spec')
                    ctx.violation(stream, case_key(small), ctx.run_go([go_line(small)])[0],
                                  ctx.run_lean([lean_line(small, 'spec:modgraph')])[0])
                else:
                    ctx.violation(stream, case_key(c), str(g), why or str(s))
            if nontrivial(g):
                ctx.nontriv(case_key(c))
        if lo == 0 and part:
            for j in (0, len(part) // 2, len(part) - 1):
                ctx.sample({'stream': stream, 'files': describe(part[j]), 'go': str(go[j]), 'model': str(model[j]),
                            'spec': str(spec[j])})
    ctx.streams.append({'stream': stream, 'cases': len(cases)})


def plain_property(case, g):
    """independent reading of the property on a plain case: 63 ⇔ reachable cycle; bodies at most once; a body's
    start marker comes after the end markers of everything the module imports"""
    st, marks = g
    if marks is None:
        return 'no answer: ' + st
    cyc = reach_cycle(case['adj'])
    if cyc != (st == 'err 63'):
        return 'cycle reachable from main = %s but outcome %s' % (cyc, st)
    if not cyc and st != 'ok':
        return 'acyclic plain case ended with ' + st
    starts = [m for m in marks if m % 10 == 0]
    # the main file may run twice: once as the main module, once as the module “主” — only when imported by name,
    # which is always a cycle (it imports itself or its importer); so in an ok run every start marker is unique
    if st == 'ok' and len(starts) != len(set(starts)):
        return 'a module body ran twice: %s' % marks
    if st == 'ok':
        pos_start = {m // 10 - 10: k for k, m in enumerate(marks) if m % 10 == 0}
        pos_end = {m // 10 - 10: k for k, m in enumerate(marks) if m % 10 == 1}
        for i, js in enumerate(case['adj']):
            if i in pos_start:
                for j in js:
                    if j not in pos_end or pos_end[j] > pos_start[i]:
                        return 'module %d started before its import %d had finished: %s' % (i, j, marks)
    return None


def repeat_stream(ctx, cases, reps):
    """map-order independence: the same case R times through Go, and through the model with reversed oracles"""
    lines = [go_line(c) for c in cases]
    first = [norm_go(x) for x in run_go_retry(ctx, lines)]
    for r in range(reps - 1):
        again = [norm_go(x) for x in run_go_retry(ctx, lines)]
        for c, a, b in zip(cases, first, again):
            ctx.evaluations += 1
            if a != b:
                ctx.violation('repeat', case_key(c), str(a), 'another run of the same files answered ' + str(b))
    m1 = [norm_lean(x) for x in ctx.run_lean([lean_line(c) for c in cases])]
    m2 = [norm_lean(x) for x in ctx.run_lean([lean_line(c, 'modgraph-rev') for c in cases])]
    for c, a, b in zip(cases, m1, m2):
        ctx.evaluations += 1
        if a != b:
            ctx.disagreement('repeat-oracle', case_key(c), str(a), str(b))
    ctx.streams.append({'stream': 'repeat', 'cases': len(cases), 'repetitions': reps})


def run(ctx):
    rng = ctx.rng
    quick = ctx.quick()
    compare(ctx, 'seeds', SEEDS)
    escalated = getattr(ctx, 'escalated', False)
    plain_small = []
    for n in (1, 2, 3):
        codes = range(1 << (n * n))
        plain = [plain_case(n, code, rng) for code in codes]
        plain_small += plain
        compare(ctx, 'graphs-%d-plain' % n, plain, check_plain=True)
        ndeco = (2 if n < 3 else 1) if quick else 3
        if escalated and quick:
            ndeco = 3
        deco = [deco_case(n, code, rng, ctx) for code in codes for _ in range(ndeco)]
        compare(ctx, 'graphs-%d-deco' % n, deco)
        ctx.count('graphs_enumerated_n%d' % n, len(plain))
    if quick:
        # sampled with a bias towards sparse graphs (a uniformly random digraph on 4 nodes is almost surely cyclic)
        codes4 = []
        for _ in range(1500 if escalated else 500):
            p = rng.choice([0.08, 0.15, 0.25, 0.4, 0.5])
            codes4.append(sum(1 << b for b in range(16) if rng.random() < p))
    else:
        codes4 = list(range(1 << 16))
    plain4 = [plain_case(4, code, rng) for code in codes4]
    compare(ctx, 'graphs-4-plain', plain4, check_plain=True)
    deco4 = [deco_case(4, code, rng, ctx) for code in codes4]
    compare(ctx, 'graphs-4-deco', deco4)
    compare(ctx, 'shadow', [shadow_case(rng.choice([2, 3, 3, 4, 4]), rng, ctx) for _ in range(ctx.n(300, 6000))])
    ctx.count('graphs_enumerated_n4', len(codes4))
    compare(ctx, 'ident', [ident_case(rng, ctx) for _ in range(ctx.n(450, 12000))], prop=ident_property)
    if IDENT_JOIN_CLEANED_SPELLINGS and os.environ.get('VERIF_C15_JOIN_CLEANED_SPELLINGS') != '0':
        alias = [alias_case(rng) for _ in range(ctx.n(40, 600))]
        for c in alias:
            ctx.count('alias_outside' if c.get('outside') else 'alias_backslash' if c.get('backslash') else 'alias_cleaned_spelling')
        compare(ctx, 'ident-alias', alias, prop=alias_property)
        if os.environ.get('VERIF_C15_PINNED_MODEL') == '1':
            # only meaningful with ZN_REPO on a tree WITHOUT fix 420e70b: the model's `Variant.pinned` against that code (spellings that
            # come back into the main file's directory through its own name are outside that variant)
            sub = [c for c in alias if not any('根' in nm for f in c['files'] for nm, _ in f['imports'])]
            go = [norm_go(x) for x in run_go_retry(ctx, [go_line(c) for c in sub])]
            pm = [norm_lean(x) for x in ctx.run_lean([lean_line(c, 'modgraph-pinned') for c in sub])]
            for c, g, m in zip(sub, go, pm):
                ctx.evaluations += 1
                if g != m:
                    ctx.disagreement('ident-alias-pinned', case_key(c), str(g), str(m))
            ctx.streams.append({'stream': 'ident-alias-pinned', 'cases': len(sub)})
    ctx.exhaustive = True
    for c in plain_small + plain4:
        ctx.count('plain_cycle_reachable' if reach_cycle(c['adj']) else 'plain_acyclic')
    if quick:
        repeat_stream(ctx, plain_small, 2)
    else:
        repeat_stream(ctx, plain_small + plain4[:2000], 6)


def replay(ctx, data):
    case = json.loads(data['case']) if isinstance(data['case'], str) else data['case']
    for p, src in describe(case).items():
        print('--- file', p)
        print(src, end='')
    print('go   :', norm_go(ctx.run_go([go_line(case)])[0]))
    print('go (raw)        :', ctx.run_go([go_line(case)])[0])
    print('evaluator model :', run_interp(ctx, [case])[0])
    print('model:', norm_lean(ctx.run_lean([lean_line(case)])[0]))
    print('spec :', norm_lean(ctx.run_lean([lean_line(case, 'spec:modgraph')])[0]))
    print('model of the finder before fix 420e70b (names joined and cleaned):', norm_lean(ctx.run_lean([lean_line(case, 'modgraph-pinned')])[0]))
