"""C20 — the prefork master keeps the worker pool within its bounds.

Correspondence `pm`: event scripts are replayed on a REAL master (server.StartMaster → maintainChildState and
spawnProcess of $ZN_REPO, one master per script in its own process / port / pipe directory, workers = the harness
binary re-executed as passive fake workers), on the Lean model (`pm …`, Model/PM.lean, repaired variant), and the
observations of the real master are judged by the Lean spec oracle (`spec:pm …`, Spec/PoolBounds.lean).

Scripts are made of macro events that a harness can apply and reliably observe (see harness/ops_pm.go and
lean/ZnVerif/Ops/C20.lean): u<i>:<st> state report, k<i> crash, t<i> request time-out, s / s<n> the sleeping refill
start-ups fire, q wait until quiet.  The real master's refill goroutines sleep 100 ms on a real clock, so *when* they
fire relative to the scripted events is the real master's choice, not the script's: the replay is driven token by
token (`znharness --pm-master <init> <max> -i`), after each token the harness is told every observation the model
allows (refills fired before / after the event, some or all of them) and answers with the one it saw; the trace *as
run* (with `s<n>` where the refills really fired) is what the Lean model then replays and what is compared.  Every
interleaving is a model trace, so nothing is lost — and no case depends on the machine being idle.

The Python port of the model below is a *search aid* only (which tokens make sense, which handler branch a token
takes, which observations to wait for); the judge is the Lean model on the trace as run, and a token the Lean model
does not enable is counted as a generator error, never as a verdict.

Correspondence `pmreal` (end to end): real workers (server.StartWorker behind the real listener and the real named
pipe), real HTTP requests with chosen handler times; judged by `spec:pmreal` (bounds, master still running, answered
/ dropped requests as --timeout promises, one request at a time per worker) and replayed on the Lean worker-pool
model (`pool …`).
"""
import os, itertools
from concurrent.futures import ThreadPoolExecutor

RULE = ("pm: breadth-first enumeration of the model's macro-event scripts up to length 8 (quick) / 12 (thorough) for every "
        "configuration init<=max<=3 / <=4 (search aid); a greedy cover of every (handler branch x bookkeeping situation) reached, "
        "filled up to ~150 / 2400 scripts, plus random long scripts and fault scripts (crash storms, hung requests timing out, "
        "reports during slow refill start-ups, stale and unknown pids, the +10 batch not capped by max-procs); each script replayed "
        "on a real master process following its real timers, the Lean model on the trace as run and the Lean spec oracle; "
        "pmreal: end-to-end scripts with real workers and HTTP requests (time-outs, crashes, more requests than workers); "
        "non-trivial = the script made the master start at least one worker beyond the initial pool (pm) / at least one "
        "request was sent (pmreal)")
ASSUMPTIONS = [
    "OS processes, fork/exec latency, signals, /proc and the Go scheduler are runtime: exercised, not modelled",
    "the OS does not reuse the pid of a process the master still tracks (model: fresh pids)",
    "the kernel hands each accepted connection to exactly one Accept call (one_request_per_worker's pool model)",
    "pm replay: workers are passive stand-ins (the harness binary re-executed by the real spawnProcess); their state "
    "reports are injected on the real update channel by the verif hook, exits are SIGKILLs; pmreal uses the real worker loop",
    "refCount and len(childs) are read through the verif hook without synchronisation and polled until an awaited value is seen",
    "the named pipe and its reader goroutine (readNamedPipe) are not part of the Lean model; that the master survives the "
    "loss of all pipe writers is checked end to end only (pmreal)",
]
PARTIAL = ("OS scheduling and process start-up latency are not modelled: the theorems are about the master's bookkeeping for "
           "every interleaving of its events and about the worker loop as a small machine; the replays show that the "
           "bookkeeping and the worker loop are the real ones")
TRUSTED_EXTRA = ["harness/ops_pm.go (process control, /proc), hooks pkg/server/name_pipe_linux.go and pkg/server/verif_hooks.go",
                 "tools/props/c20.py's Python port of the macro-step model as steering aid (judge: Lean model on the trace as run)"]

W = 2            # at most W further events while a refill start-up sleeps (100 ms in the real master)
PAR = max(2, min(8, (os.cpu_count() or 4) // 2))


# ---------------------------------------------------------------------------------------------------
# search aid: Python port of the macro-step model (repaired tree).  The judge is the Lean model.

class M:
    def __init__(self, init, mx, batch=10):
        self.init, self.max, self.batch = init, mx, batch
        self.childs = []                      # [pid, state]   (all alive between macro events)
        self.gone = []                        # pids that have left
        self.ref = init
        self.batches = [[init, False]]
        self.next = 1
        self.window = None                    # events since the oldest sleeping refill was scheduled
        self.spawned = 0
        self.finish(0)
        self.spawned = 0

    def clone(self):
        m = M.__new__(M)
        m.__dict__.update(self.__dict__)
        m.childs = [list(c) for c in self.childs]
        m.gone = list(self.gone)
        m.batches = [list(b) for b in self.batches]
        return m

    def finish(self, b):
        while self.batches[b][0] > 0:
            self.batches[b][0] -= 1
            self.childs.append([self.next, 'i'])
            self.next += 1
            self.spawned += 1

    def pending(self):
        return any(r > 0 and d for r, d in self.batches)

    def npending(self):
        return len([1 for r, d in self.batches if r > 0 and d])

    def fire(self, n=None):
        """the n oldest sleeping refill batches (all when n is None) run to their end"""
        k = 0
        for b in range(len(self.batches)):
            if self.batches[b][1] and self.batches[b][0] > 0:
                if n is not None and k >= n:
                    break
                self.finish(b)
                k += 1
        if not self.pending():
            self.window = None

    def update(self, pid, st):
        known = False
        for ch in self.childs:
            if ch[0] == pid:
                ch[1] = st
                known = True
        tags = ['known' if known else 'unknown', 'to-' + st]
        if any(ch[1] == 'i' for ch in self.childs):
            return tags + ['has-idle']
        cur = self.ref
        capped = cur + self.batch > self.max
        fin = self.max if capped else cur + self.batch
        add = fin - cur
        self.ref = fin
        self.batches.append([max(add, 0), False])
        self.finish(len(self.batches) - 1)
        return tags + ['no-idle', 'capped' if capped else 'plus-batch', 'add>0' if add > 0 else 'add=0']

    def remove(self, pid):
        self.childs = [c for c in self.childs if c[0] != pid]
        self.gone.append(pid)
        self.ref -= 1
        if self.ref < self.init:
            n = self.init - self.ref
            self.ref += n
            self.batches.append([n, True])
            if self.window is None:
                self.window = 0
            return ['refill']
        return ['no-refill']

    def alive(self):
        return [c[0] for c in self.childs]

    def apply(self, tok, strict=True):
        """returns branch tags, or None when the token makes no sense here (strict: also when it would put more
        than W events into the 100 ms a refill start-up sleeps — a planning rule, not a rule of the model)"""
        k = tok[0]
        pend = self.pending()
        if k == 's':
            if strict and not pend:
                return None
            self.fire(int(tok[1:]) if len(tok) > 1 else None)
            return ['settle']
        if k == 'q':
            for b in range(len(self.batches)):
                self.finish(b)
            self.window = None
            return ['quiet']
        if strict and pend and self.window >= W:
            return None
        if k != 'u' and int(tok[1:]) not in self.alive():
            return None
        if k == 'u' and int(tok[1:].split(':')[0]) >= self.next:
            return None                           # no such worker yet: the harness has no pid to report for
        if pend:
            self.window = (self.window or 0) + 1
        if k == 'u':
            i, st = tok[1:].split(':')
            return ['u'] + self.update(int(i), st)
        i = int(tok[1:])
        if k == 'k':
            return ['k'] + self.remove(i)
        if k == 't':
            return ['t'] + self.update(i, 's')[2:] + self.remove(i)
        return None

    def state(self):
        return (tuple(tuple(c) for c in self.childs), self.ref, tuple(tuple(b) for b in self.batches), self.next)

    def obs(self):
        a = '.'.join(str(p) for p in sorted(self.alive())) or '-'
        return '%s:%d:%d' % (a, self.ref, len(self.childs))

    def key(self):
        return (tuple(sorted(c[1] for c in self.childs)), self.ref,
                tuple((r, d) for r, d in self.batches if r > 0), self.window)

    def situation(self):
        return ('pending' if self.pending() else 'settled', 'ref-n=%d' % (self.ref - len(self.childs)),
                'idle' if any(c[1] == 'i' for c in self.childs) else 'no-idle', 'n=%d' % len(self.childs))

    def tokens(self):
        out = []
        al = self.alive()
        targets = list(al)
        if self.gone:
            targets.append(self.gone[-1])        # stale report from a worker that has left
        targets.append(0)                        # a pid the master never saw
        for p in targets:
            for st in 'ibs':
                out.append('u%d:%s' % (p, st))
        for p in al:
            out.append('k%d' % p)
            out.append('t%d' % p)
        if self.pending():
            out.append('s')
        return out


def configs(mx):
    return [(i, m) for m in range(1, mx + 1) for i in range(0, m + 1)]


def enumerate_scripts(init, mx, depth):
    """BFS over canonical bookkeeping states; returns {coverage key: [script, …]} and the number of states"""
    root = M(init, mx)
    seen = {root.key()}
    frontier = [([], root)]
    cover = {}
    ntrans = 0
    for d in range(depth):
        nxt = []
        for script, m in frontier:
            sit = m.situation()
            for tok in m.tokens():
                m2 = m.clone()
                tags = m2.apply(tok)
                if tags is None:
                    continue
                ntrans += 1
                key = (tuple(tags), sit)
                cover.setdefault(key, [])
                if len(cover[key]) < 6:
                    cover[key].append((init, mx, script + [tok]))
                k2 = m2.key()
                if k2 not in seen:
                    seen.add(k2)
                    nxt.append((script + [tok], m2))
        frontier = nxt
        if not frontier:
            break
    return cover, len(seen), ntrans


def finalise(init, mx, toks):
    """append what is needed for the script to end in a quiet state, observed independently of the model"""
    m = M(init, mx)
    out = []
    for t in toks:
        if m.apply(t) is None:
            if m.pending():                       # window full: settle first, then retry once
                m.apply('s')
                out.append('s')
                if m.apply(t) is None:
                    continue
            else:
                continue
        out.append(t)
    if m.pending():
        out.append('s')
    out.append('q')
    return out


def random_script(rng, init, mx, n):
    m = M(init, mx)
    out = []
    for _ in range(n):
        toks = m.tokens()
        # bias: crashes and time-outs are rarer than reports, settle is likely once pending
        weights = [(3 if t[0] == 'u' else 4 if t[0] in 'kt' else 10) for t in toks]
        t = rng.choices(toks, weights)[0]
        if m.apply(t) is None:
            if m.pending():
                m.apply('s')
                out.append('s')
            continue
        out.append(t)
    return out


def fault_scripts(mx_cfg):
    out = []
    for init, mx in configs(mx_cfg):
        n = init
        ws = list(range(1, n + 1))
        # hung requests: everybody busy (pool grows to max), then every request times out
        s = ['u%d:b' % w for w in ws] or ['u0:b']
        m = M(init, mx)
        for t in s:
            m.apply(t)
        grown = m.alive()
        s2 = list(s) + ['u%d:b' % w for w in grown if w not in ws]
        out.append((init, mx, s2 + ['t%d' % w for w in grown]))
        # crash storm: all workers die back to back, reports arrive while the refills sleep
        out.append((init, mx, ['k%d' % w for w in ws] + ['u0:b', 'u0:i']))
        # report during a slow start-up, then the replacement gets busy too
        if n >= 1:
            out.append((init, mx, ['k1', 'u%d:b' % (2 if n >= 2 else 0), 's', 'u%d:b' % (n + 1), 'u%d:b' % (n + 2)]))
            out.append((init, mx, ['u1:b', 'k1', 'u1:i', 'u1:b', 's'] + ['u%d:b' % w for w in range(2, n + 3)]))
            out.append((init, mx, ['t1', 'u1:s', 's', 't%d' % (n + 1), 'u0:s']))
        # the trace of DESIGN §6 / known finding: crash, busy, busy while the refill sleeps
        if n >= 2:
            out.append((init, mx, ['k1', 'u2:b', 'u%d:b' % (n + 1), 's'] + ['u%d:b' % w for w in range(3, n + 3)]))
        # idle again, then busy again: no second growth
        out.append((init, mx, s + [t.replace(':b', ':i') for t in s] + s))
    # +10 not capped by max-procs
    out.append((1, 12, ['u1:b'] + ['u%d:b' % w for w in range(2, 12)] + ['k3', 'k4']))
    out.append((2, 13, ['u1:b', 'u2:b', 'k1', 't2']))
    return out


# ---------------------------------------------------------------------------------------------------

def line_of(init, mx, toks):
    return 'pm %d %d %s' % (init, mx, ' '.join(toks))


def spec_question(init, mx, toks, gobs, quiet_after_desync=None):
    """what the real master showed, as a spec-oracle question (acts = the planned tokens)"""
    pairs = ['%s=%s' % (t, o) for t, o in zip(toks, gobs[1:])]
    if quiet_after_desync:
        pairs.append('q=%s' % quiet_after_desync)
    return 'spec:pm %d %d %s %s' % (init, mx, gobs[0], ' '.join(pairs))


def alternatives(m, tok):
    """the states the real master may be in after `tok`: the refill start-ups that sleep (100 ms each in the real
    master) may fire — some or all of them, oldest first — before the event is handled, or after it.  Every one of
    these is a model trace; yields (model, tokens of that trace)"""
    if tok[0] in 'sq':
        m2 = m.clone()
        m2.apply(tok, strict=False)
        yield m2, [tok]
        return
    p = m.npending()
    for a in range(p + 1):
        m1 = m.clone()
        if a:
            m1.fire(a)
        m2 = m1.clone()
        if m2.apply(tok, strict=False) is None:
            continue
        # … or after it — including the refill this very event may have scheduled: a starved observer can be
        # more than 100 ms late
        for b in range(m2.npending() + 1):
            m3 = m2.clone()
            if b:
                m3.fire(b)
            yield m3, (['s%d' % a] if a else []) + [tok] + (['s%d' % b] if b else [])


def drive(init, mx, toks):
    """replays the planned tokens on a real master, following the real master's timers: after every token the
    harness is told every observation the model allows and answers with the one it saw.  Returns the trace as the
    real master ran it (a model trace when everything matched), the observations and a status."""
    import subprocess, signal, tempfile, shutil
    from framework import B
    case_dir = tempfile.mkdtemp(prefix='znpm-')     # the master's FIFO lives below; removed here whatever happens
    env = dict(os.environ, GOMAXPROCS='2', TMPDIR=case_dir)
    p = subprocess.Popen([B + '/znharness', '--pm-master', str(init), str(mx), '-i'], stdin=subprocess.PIPE,
                         stdout=subprocess.PIPE, stderr=subprocess.DEVNULL, text=True, env=env, start_new_session=True)
    res = {'planned': list(toks), 'groups': [], 'gobs': [], 'status': 'ok', 'quiet': None, 'done': []}
    try:
        first = p.stdout.readline().split()
        if len(first) < 2 or first[0] != 'ok' or 'desync' in first:
            res['status'] = 'no-start' if first else 'crash-master'
            res['gobs'] = first[1:2]
            return res
        res['gobs'].append(first[1])
        m0 = M(init, mx)
        if m0.obs() != first[1]:
            res['status'] = 'mismatch'
            return res
        belief = [(m0, [])]
        for tok in toks:
            cand, seen = [], set()
            for m, groups in belief:
                for m2, trace in alternatives(m, tok):
                    key = (m2.state(), tuple(map(tuple, groups)), tuple(trace))
                    if key not in seen:
                        seen.add(key)
                        cand.append((m2, groups + [trace]))
            if not cand:
                continue                          # the token makes no sense any more (its worker is gone): skip it
            exps = sorted(set(m2.obs() for m2, _ in cand))
            p.stdin.write((tok if tok == 'q' else tok + '@' + '|'.join(exps)) + '\n')
            p.stdin.flush()
            rep = p.stdout.readline().split()
            if not rep:
                res['status'] = 'crash-master'
                res['groups'] = cand[0][1]
                res['done'].append(tok)
                return res
            res['gobs'].append(rep[0])
            res['done'].append(tok)
            res['last_exps'] = exps
            keep = [(m2, g) for m2, g in cand if m2.obs() == rep[0]]
            if 'desync' in rep or not keep:
                res['status'] = 'desync' if 'desync' in rep else 'mismatch'
                res['quiet'] = rep[2] if len(rep) > 2 else None
                res['groups'] = cand[0][1]
                return res
            # same state reached by different firings: one representative is enough
            uniq = {}
            for m2, g in keep:
                uniq.setdefault(m2.state(), (m2, g))
            belief = list(uniq.values())
        res['groups'] = belief[0][1]
        return res
    finally:
        try:
            p.stdin.close()
        except Exception:
            pass
        try:
            p.wait(timeout=3)
        except Exception:
            pass
        try:
            os.killpg(p.pid, signal.SIGKILL)
        except Exception:
            pass
        try:
            p.wait(timeout=3)
        except Exception:
            pass
        shutil.rmtree(case_dir, ignore_errors=True)


def drive_many(cases):
    """cases: [(init, mx, toks)] → results in order, PAR masters at a time"""
    with ThreadPoolExecutor(max_workers=PAR) as ex:
        return list(ex.map(lambda c: drive(*c), cases))


def run_go_parallel(ctx, lines, timeout_ms=60000):
    if not lines:
        return []
    chunks = [[] for _ in range(PAR)]
    for i, ln in enumerate(lines):
        chunks[i % PAR].append((i, ln))
    res = [None] * len(lines)

    def work(ch):
        if not ch:
            return
        outs = ctx.run_go([ln for _, ln in ch], timeout_ms=timeout_ms, parallel=False)
        for (i, _), o in zip(ch, outs):
            res[i] = o
    with ThreadPoolExecutor(max_workers=PAR) as ex:
        list(ex.map(work, chunks))
    return res


def parse_line(line):
    f = line.split()
    return int(f[1]), int(f[2]), [t.split('@')[0] for t in f[3:]]


def evaluate(ctx, streams):
    """streams: [(name, [planned script `pm <init> <max> <tok>…`])].  Go (real master, following its own timers) vs
    Lean model on the trace as run vs Lean spec oracle on the observations."""
    import time as _t
    lines, stream_of = [], []
    for name, ls in streams:
        for ln in dict.fromkeys(ls):
            lines.append(ln)
            stream_of.append(name)
    if not getattr(ctx, '_pm_probe', None):
        ctx._pm_probe = ctx.run_go(['pm 0 1'], timeout_ms=60000, parallel=False)[0]
    if ctx._pm_probe.startswith('err no-hooks'):
        ctx.broken_obligations.append('hooks: pkg/server verif hooks are not present in the tree under check')
        ctx.escalated = True
        return 0
    cases = [parse_line(ln) for ln in lines]
    t0 = _t.time()
    results = drive_many(cases)
    ctx.count('seconds_replaying_pm', round(_t.time() - t0, 1))
    # anything that did not go through is replayed once more, alone (an overloaded machine can starve a master for
    # longer than the 2 s a token may take); what fails twice is reported
    nretry = 0
    for i, r in enumerate(results):
        if r['status'] != 'ok':
            nretry += 1
            if nretry > 25:
                ctx.count('not_retried')
                continue
            ctx.count('replayed_alone_after_' + r['status'])
            if len(ctx.notes) < 12:
                ctx.notes.append('first attempt %s: %s %s | saw %s %s | allowed %s' % (
                    r['status'], lines[i], r['done'][-1:], r['gobs'][-2:], r['quiet'], r.get('last_exps')))
            r2 = drive(*cases[i])
            if r2['status'] == 'ok':
                ctx.count('not_reproduced_when_alone')
            if r2['status'] == 'ok' or r2['gobs']:
                results[i] = r2
    realised = []
    for (init, mx, _), r in zip(cases, results):
        realised.append(line_of(init, mx, [t for g in r['groups'] for t in g]))
    model = ctx.run_lean(realised, parallel=False)
    specq, specm = [], []
    for (init, mx, toks), r, m in zip(cases, results, model):
        # model observations at the end of each planned token's group
        mobs = m.split()[1:]
        pos, pick = 0, [mobs[0]] if mobs else []
        for g in r['groups']:
            pos += len(g)
            if pos < len(mobs):
                pick.append(mobs[pos])
        r['mobs'] = pick
        specq.append(spec_question(init, mx, r['done'], r['gobs'], r['quiet']) if r['gobs'] else None)
        specm.append(spec_question(init, mx, r['done'], pick) if pick and len(pick) == len(r['done']) + 1 else None)
    verdicts = ctx.run_lean([q for q in specq if q] + [q for q in specm if q], parallel=False)
    ng = len([q for q in specq if q])
    vg, vm = iter(verdicts[:ng]), iter(verdicts[ng:])
    nd = 0
    for (init, mx, toks), r, m, ln, q1, q2, stream in zip(cases, results, model, realised, specq, specm, stream_of):
        ctx.evaluations += 1
        g = 'ok ' + ' '.join(r['gobs']) + ('' if r['status'] == 'ok' else ' ' + r['status'] + (' ' + r['quiet'] if r['quiet'] else ''))
        if m.split()[-1:] == ['x'] or not m.startswith('ok'):
            ctx.count('generator_token_not_enabled_in_lean_model')
            ctx.notes.append('search aid produced a token the Lean model does not enable: %s -> %s' % (ln, m))
        if q2:
            v = next(vm)
            if v != 'ok':
                ctx.notes.append('MODEL fails its own spec oracle on %s: %s' % (ln, v))
                ctx.disagreement(stream + '-model-vs-spec', ln, m, v)
        if r['status'] != 'ok' or r['gobs'] != r['mobs']:
            nd += 1
            ctx.count('disagreement_' + r['status'])
            ctx.disagreement(stream, ln, g, 'ok ' + ' '.join(r['mobs']))
        if q1 is None:
            ctx.disagreement(stream + '-not-run', ln, g, m)
        else:
            v = next(vg)
            if v != 'ok':
                ctx.violation(stream, ln, g, v)
        if any(o.split(':')[0] != '-' and max(int(x) for x in o.split(':')[0].split('.')) > init for o in r['mobs']):
            ctx.nontriv(ln)
        for grp in r['groups']:
            for t in grp:
                ctx.count('tok_' + t[0])
            if len(grp) > 1:
                ctx.count('refill_fired_around_an_event_as_run')
        ctx.count('cfg_%d_%d' % (init, mx))
    for name, _ in streams:
        ctx.streams.append({'stream': name, 'cases': stream_of.count(name)})
    if cases:
        for k in (0, len(cases) // 2):
            r = results[k]
            ctx.sample({'planned': lines[k], 'as_run': realised[k], 'go': ' '.join(r['gobs']), 'model': ' '.join(r['mobs'])})
    return nd


def run(ctx):
    rng = ctx.rng
    depth = ctx.n(8, 12)
    mx = ctx.n(3, 4)
    quota = ctx.n(150, 2400)
    if ctx.escalated:
        quota = int(quota * 1.5)

    # ---- enumeration (search aid) and the covering sample ------------------------------------------
    cover = {}
    nstates = ntrans = 0
    for init, m in configs(mx):
        cv, ns, nt = enumerate_scripts(init, m, depth)
        nstates += ns
        ntrans += nt
        for k, v in cv.items():
            cover.setdefault(k, []).extend(v)
    ctx.count('enumerated_states', nstates)
    ctx.count('enumerated_transitions', ntrans)
    ctx.count('coverage_keys_branch_x_situation', len(cover))
    branches = {}
    for (tags, sit), v in cover.items():
        branches.setdefault(tags, []).extend(v)
    ctx.count('handler_branch_combinations', len(branches))
    def keys_of(init, m_, toks):
        m = M(init, m_)
        ks = set()
        for t in toks:
            sit = m.situation()
            tags = m.apply(t)
            if tags is not None and t[0] not in 'sq':
                ks.add((tuple(tags), sit))
        return ks

    # candidates: every witness script found, finalised; greedy cover of (handler branch × situation), then fill up
    cands = {}
    for v in cover.values():
        for init, m_, toks in v:
            fin = finalise(init, m_, toks)
            ln = line_of(init, m_, fin)
            if ln not in cands:
                cands[ln] = keys_of(init, m_, fin) & set(cover)
    chosen = []
    covered = set()
    pool = sorted(cands)
    rng.shuffle(pool)
    while len(chosen) < quota:
        best = max(pool, key=lambda ln: len(cands[ln] - covered), default=None)
        if best is None or not (cands[best] - covered):
            break
        chosen.append(best)
        covered |= cands[best]
        pool.remove(best)
    ctx.count('scripts_in_greedy_cover', len(chosen))
    for ln in pool:
        if len(chosen) >= quota:
            break
        chosen.append(ln)
    ctx.count('coverage_keys_replayed', len(covered))
    streams = [('pm-enum', chosen)]

    # ---- random long scripts -------------------------------------------------------------------------
    longs = []
    for _ in range(ctx.n(12, 200)):
        init, m = rng.choice(configs(ctx.n(4, 5)))
        longs.append(line_of(init, m, finalise(init, m, random_script(rng, init, m, rng.randint(12, 30)))))
    streams.append(('pm-random-long', longs))

    # ---- fault scripts ---------------------------------------------------------------------------------
    faults = [line_of(i, m, finalise(i, m, t)) for i, m, t in fault_scripts(ctx.n(3, 4))]
    streams.append(('pm-faults', faults))

    # ---- known finding (fixed): the witness of the refCount reset is replayed on every run ----------------
    wit = [k['witness'] for k in ctx.known if k.get('status') == 'fixed' and k.get('witness', '').startswith('pm ')]
    streams.append(('pm-fixed-witness', wit))
    evaluate(ctx, streams)
    if ctx._pm_probe.startswith('err no-hooks'):
        print('C20: $ZN_REPO/pkg/server lacks the verif hook files (patches/hook-c20-*.patch): the real master cannot be '
              'built on Linux, nothing was replayed')
        return

    # ---- end to end ------------------------------------------------------------------------------------
    run_e2e(ctx)

    # ---- Go-vs-spec directly when something broke (DESIGN §4): no expectations, timing by stability ------
    if ctx.disagreements and not ctx.violations:
        free = [d[1] for d in ctx.disagreements[:20] if d[1].startswith('pm ')] + faults
        free = list(dict.fromkeys(free))
        go = run_go_parallel(ctx, free)
        qs = []
        for c, g in zip(free, go):
            init, mx, toks = parse_line(c)
            gs = g.split()
            qs.append(spec_question(init, mx, toks, gs[1:]) if gs and gs[0] == 'ok' and len(gs) > 1 else 'spec:pm 0 0 -:0:0')
        verdicts = ctx.run_lean(qs, parallel=False)
        for c, g, v in zip(free, go, verdicts):
            ctx.evaluations += 1
            if v.startswith('bad '):
                ctx.violation('pm-free-running', c, g, v)
        ctx.streams.append({'stream': 'pm-free-running', 'cases': len(free)})


# ---------------------------------------------------------------------------------------------------
# end to end: real workers (server.StartWorker), real pipe, real HTTP requests

def e2e_scripts(ctx):
    """(init, max, timeout_s, tokens).  Handler times are far from the limit (promise must / mustNot) or marked any."""
    base = [
        (1, 1, 2, 'r1:50 w r2:4500 w q r3:50 w q'),              # the only worker times out: replaced, master stays
        (2, 2, 2, 'r1:4500 r2:4500 w q r3:50 r4:50 w q'),        # every worker times out at once
        (2, 3, 2, 'r1:300 r2:300 r3:300 w q'),                   # growth under load, one request per worker at a time
        (1, 2, 2, 'r1:200 r2:200 r3:200 r4:200 w q'),            # more requests than workers: queued, not doubled up
        (1, 2, 2, 'r1:700 k1 w q r2:50 w q'),                    # crash while serving
        (1, 3, 2, 'r1:300 r2:4500 r3:300 w q r4:50 w q'),        # a hung request beside served ones
        (3, 3, 2, 'r1:100 r2:100 r3:100 r4:100 r5:100 r6:100 w q'),
        (0, 2, 2, 'q'),                                          # no initial workers: nothing to do, nothing dies
        (1, 1, 2, 'r1:300 w z2600 r2:300 w q'),                  # idle longer than --timeout, then a short request: served
        (2, 2, 2, 'z2300 r1:400 r2:400 w q'),                    # the first requests arrive after a long idle start
    ]
    out = list(base)
    rng = ctx.rng
    for _ in range(ctx.n(0, 30)):
        init = rng.randint(1, 3)
        mx = rng.randint(init, 4)
        toks = []
        rid = 0
        for _ in range(rng.randint(1, 3)):
            for _ in range(rng.randint(1, 5)):
                rid += 1
                toks.append('r%d:%d' % (rid, rng.choice([30, 120, 200, 300, 4500])))
            toks += ['w', 'q']
            if rng.random() < 0.3:
                toks.append('z%d' % rng.choice([500, 2300, 3000]))
        out.append((init, mx, 2, ' '.join(toks)))
    return out


def promise(ms, timeout_s, killed):
    if killed:
        return 'a'
    if ms <= timeout_s * 1000 - 1400:
        return 'm'
    if ms >= timeout_s * 1000 + 1500:
        return 'n'
    return 'a'


def judge_e2e(ctx, lines, go):
    """→ [(line, go, spec verdict or None, pool model answer, pool answer wanted)]"""
    spec_q, pool_q, meta = [], [], []
    for ln, g in zip(lines, go):
        f = ln.split()
        init, mx, to = int(f[1]), int(f[2]), int(f[3])
        toks = f[4:]
        if not g.startswith('ok') or 'desync' in g.split():
            meta.append((ln, g, None, None))          # did not start: nothing to judge
            continue
        gs = g.split()[1:]
        obs = [x for x in gs if x[0] not in 'MR']
        res = dict(x[1:].split('=') for x in gs if x[0] == 'R')
        killed = any(t[0] == 'k' for t in toks)
        fields = ['o=' + obs[0]] if obs else []
        for t, o in zip(toks, obs[1:]):
            fields.append(('q=' if t == 'q' else 'o=') + o)
        fields.append('M0' if 'M0' in gs else 'M1')
        served = []
        for t in toks:
            if t[0] != 'r':
                continue
            rid, ms = t[1:].split(':')
            out = res.get(rid, 'E')
            fields.append('%s:%s' % (promise(int(ms), to, killed), out))
            if out != 'E':
                w, t0, t1 = out.split(',')
                served.append((int(t0), int(t1), int(w), int(rid)))
        spec_q.append('spec:pmreal %d %d %s' % (init, mx, ' '.join(fields)))
        # what the real workers did, as a trace of the pool model: accept at t0, finish at t1
        evs = sorted([(t0, 1, 'a%d' % w, rid) for t0, t1, w, rid in served] +
                     [(t1, 0, 'f%d' % w, rid) for t0, t1, w, rid in served])
        nw = max([w for _, _, w, _ in served] + [1])
        queue = '.'.join(str(rid) for t, k, e, rid in evs if e[0] == 'a') or '-'
        pool_q.append('pool %d %s %s' % (nw, queue, ' '.join(e for _, _, e, _ in evs)))
        want = {}
        for t0, t1, w, rid in sorted(served, key=lambda x: x[1]):
            want.setdefault(w, []).append(str(rid))
        meta.append((ln, g, len(spec_q) - 1,
                     'ok ' + (' '.join('%d=%s' % (w, '.'.join(want[w])) for w in sorted(want)) or '-')))
    sv = ctx.run_lean(spec_q, parallel=False)
    pv = ctx.run_lean(pool_q, parallel=False)
    return [(ln, g, None if k is None else sv[k], None if k is None else pv[k], want) for ln, g, k, want in meta]


def run_boot(ctx):
    """an initial worker dies while the master is still creating the initial pool: when things are quiet again there are
    init ≤ live ≤ max workers and the master's count is the real one"""
    cfgs = [(2, 2), (4, 4), (16, 16), (8, 12), (3, 3)] if ctx.quick() else [(2, 2), (3, 3), (4, 4), (6, 6), (8, 8), (12, 12), (16, 16), (8, 12), (16, 20), (24, 24)]
    lines = ['pmreal %d %d 2 K' % c for c in cfgs for _ in range(2 if ctx.quick() else 4)]
    go = run_go_parallel(ctx, lines, timeout_ms=60000)
    for ln, g in zip(lines, go):
        ctx.evaluations += 1
        ctx.count('boot_cases')
        f = g.split()
        init, mx = int(ln.split()[1]), int(ln.split()[2])
        if len(f) == 5 and f[:2] == ['ok', 'boot']:
            live, ref, nch = int(f[2]), int(f[3]), int(f[4])
            if not (init <= live <= mx and ref == live and nch == live):
                # believed only when it shows again alone (start-up races with the machine's load)
                g2 = ctx.run_go([ln], timeout_ms=60000, parallel=False)[0]
                f2 = g2.split()
                if len(f2) == 5 and f2[:2] == ['ok', 'boot'] and not (init <= int(f2[2]) <= mx and int(f2[3]) == int(f2[2]) == int(f2[4])):
                    ctx.violation('pmboot', ln, g2, 'ok boot <live> <refCount> <childs> with %d ≤ live ≤ %d and refCount = childs = live' % (init, mx))
            ctx.nontriv(ln)
        else:
            ctx.disagreement('pmboot-not-run', ln, g, 'ok boot …')
    ctx.streams.append({'stream': 'pmboot', 'cases': len(lines)})


def run_e2e(ctx):
    if len(ctx.violations) >= 3:
        return
    run_boot(ctx)
    import time as _t
    scripts = e2e_scripts(ctx)
    lines = ['pmreal %d %d %d %s' % s for s in scripts]
    t0 = _t.time()
    go = run_go_parallel(ctx, lines, timeout_ms=150000)
    ctx.count('seconds_replaying_pmreal', round(_t.time() - t0, 1))
    judged = judge_e2e(ctx, lines, go)
    # the promises are about wall-clock time (--timeout is in seconds): whatever looks wrong is run once more, alone,
    # before it is believed
    for i, (ln, g, sv, pv, want) in enumerate(judged):
        if sv != 'ok' or pv != want:
            ctx.count('e2e_replayed_alone')
            g2 = ctx.run_go([ln], timeout_ms=150000, parallel=False)[0]
            judged[i] = judge_e2e(ctx, [ln], [g2])[0]
            if judged[i][2] == 'ok' and judged[i][3] == judged[i][4]:
                ctx.count('e2e_not_reproduced_when_alone')
    for ln, g, sv, pv, want in judged:
        ctx.evaluations += 1
        ctx.count('e2e_cases')
        if sv is None:
            # no answer line: the master process died (log.Fatalf) or the case could not start
            if g.startswith('crash-master'):
                ctx.violation('pmreal', ln, g, 'bad master-died')
            else:
                ctx.disagreement('pmreal-not-run', ln, g, 'an answer line')
            continue
        if sv != 'ok':
            ctx.violation('pmreal', ln, g, sv)
        if pv != want:
            ctx.disagreement('pmreal-pool-model', ln, g + ' || ' + want, pv)
        if ' R' in g:
            ctx.nontriv(ln)
    ctx.streams.append({'stream': 'pmreal (end to end: real workers, pipe, HTTP)', 'cases': len(lines)})
    if judged:
        ctx.sample({'op': judged[0][0], 'go': judged[0][1], 'spec': judged[0][2], 'pool-model': judged[0][3]})

def replay(ctx, data):
    case = data['case']
    if case.startswith('pmreal'):
        print('case :', case)
        g = ctx.run_go([case], timeout_ms=150000)[0]
        print('go   :', g)
        ln, g, sv, pv, want = judge_e2e(ctx, [case], [g])[0]
        print('spec :', sv if sv is not None else ('bad master-died' if g.startswith('crash-master') else 'not run'))
        print('worker-pool model on the observed accepts/finishes:', pv, '(observed: %s)' % want)
        return
    init, mx, toks = parse_line(case)
    bare = line_of(init, mx, toks)
    print('case :', bare)
    r = drive(init, mx, toks)
    asrun = line_of(init, mx, [t for g in r['groups'] for t in g])
    print('as run on the real master (refill timers as they fired):', asrun)
    print('go   : ok', ' '.join(r['gobs']), '' if r['status'] == 'ok' else r['status'] + ' ' + str(r['quiet']))
    print('model:', ctx.run_lean([asrun])[0])
    print('spec on go observations:', ctx.run_lean([spec_question(init, mx, r['done'], r['gobs'], r['quiet'])])[0])
    g2 = ctx.run_go([bare], timeout_ms=60000)[0]
    print('go (free-running, no expectations):', g2)
    gs = g2.split()
    if gs and gs[0] == 'ok':
        print('spec on free-running observations:', ctx.run_lean([spec_question(init, mx, toks, gs[1:])])[0])
