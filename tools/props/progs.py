"""Program-level correspondence: Go interpreter vs Lean model evaluator vs Lean spec semantics.
(generators, class G: expr_program flow_program copy_program call_program exc_program coll_program text_program scope_program)

run_stream(ctx, stream, progs, prop) where progs = list of (zngen.Program, inputs-dict):
  harness `run` (real parser + real evaluator), harness `ast` (real parser, tree dump),
  driver `runast` on the Go tree (model), driver `spec:runast` on the generator's intended tree (spec).
Comparisons:
  correspondence  Go run  == model run                      (ctx.disagreement)
  parse           Go tree == intended tree (lines ignored)  (ctx.violation 'parse': precedence/grouping)
  property        Go result/trace == spec result/trace      (ctx.violation)
"""
import re
from zngen import *

NUM_LITS = ['0', '1', '2', '3', '7', '10', '-1', '-3', '0.5', '-0.5', '0.1', '0.2', '2.5', '100', '1.5E+3', '2*10^3',
            '25*^-2', '1E-2', '9007199254740993', '5E-324', '1E+308', '1*10^999', '-1*10^999', '3.0', '+4', '12345.678',
            '10000000000000000000', '18446744073709551616', '6.02*10^23', '4.903*10^4', '0.001*10^310', '5*^-324', '1.0e+19']
SMALL_INTS = ['0', '1', '2', '3', '4', '5', '7', '10', '-1', '-2']
TEXTS = ['', 'a', 'ab', '甲', '你好', 'x y', '12']
# multi-line texts: only in value positions (a block header spanning lines inside an indented block is the known finding KF-C03-multiline-header)
ML_TEXTS = ['上\n下', '一\n二\n三', '首\r\n尾']
KEYS = ['a', 'b', 'c', '甲', 'k1']


def strip_lines(sx):
    # drop the line fields: "(tag N " -> "(tag _ "
    return re.sub(r'\((id|str|arr|hm|assign|logic|arith|member|call|mcall|new|vardecl|while|branch|empty|funcdecl|classdecl|iterate|ret|throw|continue|break|import) \d+', r'(\1 _', sx)


def norm_trace_line(t):
    return t


def model_matches(go, model):
    """equality modulo the message text of runtime faults, which the model prints as ‹rt:N›"""
    if go == model:
        return True
    if '|' not in go or '|' not in model:
        return False
    gh, gt = go.rsplit(' | ', 1)
    mh, mt = model.rsplit(' | ', 1)
    if gh != mh:
        # values may embed exception messages
        if 'e280b9' not in mh:
            return False
        pat = re.escape(mh)
        pat = re.sub(r'e280b972743a[0-9a-f]*?e280ba', '[0-9a-f]+', pat)
        if not re.fullmatch(pat, gh):
            return False
    gl = gt.split(',')
    ml = mt.split(',')
    if len(gl) != len(ml):
        return False
    for a, b in zip(gl, ml):
        if a == b:
            continue
        if 'e280b9' in b:  # ‹
            pat = re.sub(r'e280b9(72743a|6f74686572)[0-9a-f]*?e280ba', '[0-9a-f]+', re.escape(b))
            if re.fullmatch(pat, a):
                continue
        return False
    return True


def project(go):
    """observables of the property: ok <value> | trace   or   err | trace"""
    if go.startswith('ok '):
        return go
    if go.startswith('err'):
        return 'err | ' + go.rsplit(' | ', 1)[1] if ' | ' in go else 'err'
    return go


def node_lines(sx, tags):
    """the line fields of the nodes with the given tags, in reading order of the S-expression: [(tag, line), …]"""
    return re.findall(r'\((%s) (\d+)' % '|'.join(tags), sx)


def run_stream(ctx, stream, progs, check_parse=True, nontrivial=None, keep_lines=False, check_lines=()):
    """check_lines: node tags (e.g. ('member',)) whose LINE fields in Go's tree must equal those of the intended tree — only for
    streams whose renderer keeps the generator's line bookkeeping exact for those nodes (the tree comparison itself ignores lines);
    mismatches are collected in ctx.node_line_mismatches as (stream, case, go, expected), for the caller to report"""
    srcs, intended, inputs = [], [], []
    for p, ins in progs:
        s, sx = p.render(ctx.rng)
        srcs.append(s)
        intended.append(sx)
        inputs.append([input_spec(k, v) for k, v in (ins or {}).items()])
    run_lines = ['run %s %s' % (cps(s), ' '.join(i)) for s, i in zip(srcs, inputs)]
    ast_lines = ['ast %s' % cps(s) for s in srcs]
    go = ctx.run_go(run_lines)
    ast = ctx.run_go(ast_lines)
    # an operation that timed out or died in the parallel batch (a loaded machine is enough for that) is run again alone with a
    # generous watchdog before it is judged; a real hang / crash answers the same again
    for lines, answers in ((run_lines, go), (ast_lines, ast)):
        for k, ans in enumerate(answers):
            if ans.startswith(('timeout', 'crash')):
                answers[k] = ctx.run_go([lines[k]], timeout_ms=30000, parallel=False)[0]
                ctx.count(stream + ':rerun-alone')
    mlines, slines = [], []
    for a, i, sx in zip(ast, inputs, intended):
        if a.startswith('ok '):
            mlines.append('runast %d %s %s' % (len(i), ' '.join(i), a[3:]))
        else:
            mlines.append('noop')
        slines.append('spec:runast %d %s %s' % (len(i), ' '.join(i), sx))
    model = ctx.run_lean(mlines)
    spec = ctx.run_lean(slines)
    n_unspec = n_unmod = n_fatal = 0
    for k in range(len(progs)):
        ctx.evaluations += 1
        case = run_lines[k]
        g, a, m, s = go[k], ast[k], model[k], spec[k]
        if not a.startswith('ok '):
            # the generator only produces grammatical programs: a rejected one is a parse violation
            ctx.violation(stream + ':parse-rejected', case, a, intended[k][:300])
            continue
        if check_parse and strip_lines(a[3:]) != strip_lines(intended[k]):
            ctx.violation(stream + ':parse-tree', case, strip_lines(a[3:])[:600], strip_lines(intended[k])[:600])
        elif check_lines and node_lines(a[3:], check_lines) != node_lines(intended[k], check_lines):
            # handed back to the caller (ctx.node_line_mismatches), which reports them AFTER its own judgement of the observables: the
            # replay named first is then the wrong error location itself, not the tree field behind it
            ctx.node_line_mismatches = getattr(ctx, 'node_line_mismatches', []) + [
                (stream + ':node-line', case, 'lines ' + ' '.join('%s:%s' % x for x in node_lines(a[3:], check_lines)),
                 'lines ' + ' '.join('%s:%s' % x for x in node_lines(intended[k], check_lines))
                 + ' (0-based line of every %s node, as the generator laid the text out)' % '/'.join(check_lines))]
        elif check_lines and node_lines(a[3:], check_lines):
            ctx.count(stream + ':node-line-checked')
        if m == 'unmodelled':
            n_unmod += 1
        elif m in ('fuel',) and g.startswith('timeout'):
            pass
        elif not model_matches(g, m):
            ctx.disagreement(stream, case, g, m)
        if s.startswith('fatal'):
            # a program the manual does not admit (a numeral where a name belongs, an input nobody supplied): the run must end with
            # an error at that point — everything displayed before it is what the spec displays, nothing after it
            n_fatal += 1
            if not g.startswith('err'):
                ctx.violation(stream + ':fatal-accepted', case, g, s)
            elif ' | ' in s and ' | ' in g and g.rsplit(' | ', 1)[1] != s.rsplit(' | ', 1)[1]:
                ctx.violation(stream + ':fatal-trace', case, g, s)
        elif s in ('unspecified', 'fuel'):
            n_unspec += 1
        else:
            pg, ps = project(g), s
            if pg != ps and not model_matches(pg, ps):
                ctx.violation(stream, case, g, s)
        if nontrivial is None or nontrivial(srcs[k], g):
            ctx.nontriv(srcs[k])
        key = 'ok' if g.startswith('ok') else (' '.join(g.split(' ')[:3]) if g.startswith('err') else g.split(' ')[0])
        ctx.count(stream + ':' + key)
    ctx.count(stream + ':spec-unspecified', n_unspec)
    ctx.count(stream + ':spec-fatal', n_fatal)
    ctx.count(stream + ':model-unmodelled', n_unmod)
    for k in (0, len(progs) // 2, len(progs) - 1):
        if 0 <= k < len(progs):
            ctx.sample({'stream': stream, 'source': srcs[k], 'go': go[k], 'model': model[k], 'spec': spec[k]})
    ctx.streams.append({'stream': stream, 'cases': len(progs), 'spec_unspecified': n_unspec, 'spec_fatal': n_fatal, 'model_unmodelled': n_unmod})
    return srcs, go, model, spec


# =================================================================================================
# the same programs with some of their methods / types in an imported module (C09 / C18 across modules)
# =================================================================================================

MODULE_NAME = '辅'


def _names(node, refs, binds):
    """names a piece of a generated program refers to (variables, called methods, constructed / thrown types) and names it binds
    (令 / 遍历 / 输入 / 得到).  Member names after 之 / 其 and method names of a chain are not names of the scope."""
    if node is None or isinstance(node, (str, int, float, bool)):
        return
    if isinstance(node, (list, tuple)):
        for x in node:
            _names(x, refs, binds)
        return
    if isinstance(node, Var):
        refs.add(node.name)
    elif isinstance(node, Call):
        refs.add(node.name)
        _names(node.args, refs, binds)
        if node.yld:
            binds.add(node.yld)
    elif isinstance(node, MCall):
        _names(node.root, refs, binds)
        for _, args in node.chain:
            _names(args, refs, binds)
        if node.yld:
            binds.add(node.yld)
    elif isinstance(node, New):
        refs.add(node.cls)
        _names(node.args, refs, binds)
    elif isinstance(node, Throw):
        refs.add(node.cls)
        _names(node.args, refs, binds)
    elif isinstance(node, Bin):
        _names([node.l, node.r], refs, binds)
    elif isinstance(node, (Brace, ExprS, Ret)):
        _names(node.e, refs, binds)
    elif isinstance(node, Arr):
        _names(node.items, refs, binds)
    elif isinstance(node, Dict):
        for k, v in node.kvs:
            _names(v, refs, binds)
    elif isinstance(node, Index):
        _names([node.root, node.idx], refs, binds)
    elif isinstance(node, Prop):
        _names(node.root, refs, binds)
    elif isinstance(node, Assign):
        _names([node.target, node.e], refs, binds)
    elif isinstance(node, Decl):
        binds.update(node.names)
        _names(node.e, refs, binds)
    elif isinstance(node, DeclBlock):
        for names, e, _ in node.pairs:
            binds.update(names)
            _names(e, refs, binds)
    elif isinstance(node, If):
        _names([node.cond, node.then, node.els], refs, binds)
        for c, b in node.elifs:
            _names([c, b], refs, binds)
    elif isinstance(node, While):
        _names([node.cond, node.body], refs, binds)
    elif isinstance(node, Iter):
        binds.update(node.names)
        _names([node.e, node.body], refs, binds)
    elif isinstance(node, Func):
        binds.update(node.inputs)
        _names(node.body, refs, binds)
        for _, blk in node.catches:
            _names(blk, refs, binds)
    elif isinstance(node, Class):
        for _, e in node.props:
            _names(e, refs, binds)
        _names(node.methods, refs, binds)
        _names(node.getters, refs, binds)
    # Num, Str, This, Raw (comments), Break, Continue: nothing


def split_program(p, rng, modname=MODULE_NAME):
    """(main program importing `modname`, module program) — a closed set of the program's top-level methods / types (a type together
    with its constructor) moved into a module file: closed = what they call, construct or throw goes with them, and none of them
    reads or writes a variable of the program body (a method runs in the scope of its OWN module).  None if no such set exists.
    By C15 (an imported method behaves as inside its own module) result and trace are those of the one-file program."""
    if p.imports or p.inputs:
        return None
    units = {}
    for st in p.body:
        if isinstance(st, (Func, Class)):
            units.setdefault(st.name, []).append(st)
    rest = [st for st in p.body if not isinstance(st, (Func, Class))]
    vrefs, vbinds = set(), set()
    _names(rest, vrefs, vbinds)
    for _, blk in p.catches:
        _names(blk, vrefs, vbinds)
    free = {}
    for n, ds in units.items():
        plain = [d for d in ds if isinstance(d, Func) and not d.ctor]
        types = [d for d in ds if isinstance(d, Class)]
        if any(getattr(d, 'tag', None) for d in ds) or len(plain) > 1 or len(types) > 1 or (plain and len(ds) > 1) or \
                (not plain and not types):
            free[n] = None              # a planted declaration fault, a name declared twice, a constructor without its type: stays
            continue
        r, b = set(), set()
        _names(ds, r, b)
        free[n] = r - b
    def closure(seeds, start=()):
        S, work = set(start), list(seeds)
        while work:
            n = work.pop()
            if n in S:
                continue
            if free.get(n) is None or (free[n] & vbinds):
                return None
            S.add(n)
            work += [m for m in free[n] if m in units and m not in S]
        return S
    closures = [c for c in (closure([n]) for n in sorted(units)) if c]
    if not closures:
        return None
    # biased towards large sets (a whole tail of the call chain) over single leaves
    S = rng.choice(closures) if rng.random() < 0.35 else max(rng.sample(closures, min(3, len(closures))), key=len)
    for extra in closures:
        if rng.random() < 0.25:
            S = S | extra
    if True:
        moved = [st for st in p.body if isinstance(st, (Func, Class)) and st.name in S]
        kept = [st for st in p.body if not (isinstance(st, (Func, Class)) and st.name in S)]
        # what the importer needs by name: everything it calls, constructs or throws
        krefs, kb = set(), set()
        _names(kept, krefs, kb)
        for _, blk in p.catches:
            _names(blk, krefs, kb)
        needed = sorted(n for n in S if n in krefs)
        if rng.random() < 0.5 and needed:
            items = list(needed)
            rng.shuffle(items)
        else:
            items = []
        main = Program([], kept, p.catches, imports=[(2, modname, items, '\n')])
        mod = Program([], moved)
        main.moved = sorted(S)
        return main, mod


def run_split_stream(ctx, stream, progs, nontrivial=None, limit=None):
    """every program of `progs` (zngen.Program, inputs) that `split_program` can split, run as two files: Go `runfiles` = evaluator model
    `runfilesast` on the trees the real parser built for both files (whole answer: result, trace, error code, location chain with
    module names), and Go result / trace = spec semantics on the intended tree of the ONE-file program.
    Returns [(original program, main program, module program, main source, module source, go answer)]."""
    rng = ctx.rng
    out = []
    for p, ins in progs:
        if limit is not None and len(out) >= limit:
            break
        if ins:
            continue
        sp = split_program(p, rng)
        if sp is None:
            ctx.count(stream + ':not-splittable')
            continue
        main, mod = sp
        _, one_sx = p.render(rng)
        msrc, msx = main.render(rng)
        dsrc, dsx = mod.render(rng)
        out.append([p, main, mod, msrc, dsrc, one_sx, msx, dsx])
    if not out:
        ctx.streams.append({'stream': stream, 'cases': 0})
        return []
    mfile, dfile = '主.zn', MODULE_NAME + '.zn'
    go_lines = ['runfiles 2 %s %s %s %s %s' % (hx(mfile), cps(o[3]), hx(dfile), cps(o[4]), hx(mfile)) for o in out]
    ast_lines = ['ast ' + cps(o[3]) for o in out] + ['ast ' + cps(o[4]) for o in out]
    go = ctx.run_go(go_lines)
    ast = ctx.run_go(ast_lines)
    for lines, answers in ((go_lines, go), (ast_lines, ast)):
        for k, ans in enumerate(answers):
            if ans.startswith(('timeout', 'crash')):
                answers[k] = ctx.run_go([lines[k]], timeout_ms=30000, parallel=False)[0]
                ctx.count(stream + ':rerun-alone')
    n = len(out)
    mlines, slines = [], []
    for k, o in enumerate(out):
        am, ad = ast[k], ast[n + k]
        if am.startswith('ok ') and ad.startswith('ok '):
            tm, td = am[3:].split(' '), ad[3:].split(' ')
            mlines.append('runfilesast %s 2 %s %d %s %s %d %s' % (hx(mfile), hx(mfile), len(tm), ' '.join(tm), hx(dfile), len(td), ' '.join(td)))
        else:
            mlines.append('noop')
        slines.append('spec:runast 0 %s' % o[5])
    model = ctx.run_lean(mlines)
    spec = ctx.run_lean(slines)
    res = []
    n_unspec = n_unmod = 0
    for k, o in enumerate(out):
        ctx.evaluations += 1
        case = go_lines[k]
        g, m, s = go[k], model[k], spec[k]
        am, ad = ast[k], ast[n + k]
        if not am.startswith('ok ') or not ad.startswith('ok '):
            ctx.violation(stream + ':parse-rejected', case, am if not am.startswith('ok ') else ad, o[6][:300])
            continue
        if strip_lines(am[3:]) != strip_lines(o[6]) or strip_lines(ad[3:]) != strip_lines(o[7]):
            ctx.violation(stream + ':parse-tree', case, strip_lines(am[3:])[:400] + ' // ' + strip_lines(ad[3:])[:400],
                          strip_lines(o[6])[:400] + ' // ' + strip_lines(o[7])[:400])
        if m == 'unmodelled':
            n_unmod += 1
        elif m in ('fuel',) and g.startswith('timeout'):
            pass
        elif not model_matches(g, m):
            ctx.disagreement(stream, case, g, m)
        if s in ('unspecified', 'fuel') or s.startswith('fatal'):
            n_unspec += 1
            if s.startswith('fatal') and not g.startswith('err'):
                ctx.violation(stream + ':fatal-accepted', case, g, s)
        else:
            pg = project(g)
            if pg != s and not model_matches(pg, s):
                ctx.violation(stream, case, g, s)
        if nontrivial is None or nontrivial(o[3] + o[4], g):
            ctx.nontriv(o[3] + '\n--\n' + o[4])
        key = 'ok' if g.startswith('ok') else (' '.join(g.split(' ')[:3]) if g.startswith('err') else g.split(' ')[0])
        ctx.count(stream + ':' + key)
        if g.startswith('err') and hx(MODULE_NAME) + ':' in g.split(' | ')[0]:
            ctx.count(stream + ':error-chain-enters-the-module')
        ctx.count(stream + ':moved-%d-definitions' % min(len(o[1].moved), 6))
        res.append((o[0], o[1], o[2], o[3], o[4], g))
    ctx.count(stream + ':spec-unspecified', n_unspec)
    ctx.count(stream + ':model-unmodelled', n_unmod)
    for k in (0, n // 2, n - 1):
        ctx.sample({'stream': stream, 'main': out[k][3], 'module': out[k][4], 'go': go[k], 'model': model[k], 'spec': spec[k]})
    ctx.streams.append({'stream': stream, 'cases': n, 'spec_unspecified': n_unspec, 'model_unmodelled': n_unmod})
    return res


def replay(ctx, data):
    case = data['case']
    g = ctx.run_go([case])[0]
    print('go   :', g)
    if case.startswith('runfiles '):
        f = case.split(' ')
        k = int(f[1])
        parts = ['runfilesast', f[2 + 2 * k], str(k)]
        for i in range(k):
            src = ''.join(chr(int(x, 16)) for x in f[3 + 2 * i].split('.')) if f[3 + 2 * i] != '-' else ''
            print('--- file', bytes.fromhex(f[2 + 2 * i]).decode())
            print(src)
            a = ctx.run_go(['ast ' + f[3 + 2 * i]])[0]
            toks = a[3:].split(' ') if a.startswith('ok ') else []
            parts += [f[2 + 2 * i], str(len(toks))] + toks
        print('model:', ctx.run_lean([' '.join(parts + f[3 + 2 * k:])])[0])
    if case.startswith('run '):
        f = case.split(' ')
        a = ctx.run_go(['ast ' + f[1]])[0]
        print('ast  :', a[:2000])
        if a.startswith('ok '):
            ins = f[2:]
            print('model:', ctx.run_lean(['runast %d %s %s' % (len(ins), ' '.join(ins), a[3:])])[0])
            print('spec (on the parsed tree):', ctx.run_lean(['spec:runast %d %s %s' % (len(ins), ' '.join(ins), a[3:])])[0])
        src = ''.join(chr(int(x, 16)) for x in f[1].split('.')) if f[1] != '-' else ''
        print('source:\n' + src)


# =================================================================================================
# hand-written cases (trees, so the spec runs on the intended tree like for generated programs); they head their stream
# =================================================================================================

def _show(*xs):
    return ExprS(Call('显示', list(xs)))


def hand_flow():
    """C02: 输出 inside 每当 ends the loop before the condition is looked at again; an uncaught 抛出 is no loop signal"""
    inc = lambda c: ExprS(Assign(Var(c), Bin('+', Var(c), Num('1'))))
    out = []
    # the condition cannot be evaluated once the last pass has run (index past the end): the method yields its 输出 value
    out.append(Program([], [
        Func('找末', ['列'], [Decl(['位'], Num('0')),
                             While(Bin('ne', Index(Var('列'), Bin('+', Var('位'), Num('1'))), Num('0')),
                                   [inc('位'), If(Bin('ge', Var('位'), Prop(Var('列'), '长度')), [Ret(Var('位'))])]),
                             Ret(Num('-1'))]),
        _show(Call('找末', [Arr([Num('1'), Num('2'), Num('3')])])), _show(Str('完'))]))
    # the condition has an effect: it is evaluated once per pass and once more only when a pass ended normally
    out.append(Program([], [
        MARK, Decl(['计'], Num('0')),
        Func('转', [], [While(Call('记', [Str('问'), Bin('lt', Var('计'), Num('5'))]),
                             [inc('计'), If(Bin('eq', Var('计'), Num('2')), [Ret(Var('计'))])]), Ret(Num('-1'))]),
        _show(Call('转', [])), _show(Var('计'))]))
    # at program level, division by zero in the condition after the pass that executed 输出
    out.append(Program([], [
        Decl(['计'], Num('0')),
        While(Bin('gt', Bin('/', Num('6'), Bin('-', Num('2'), Var('计'))), Num('0')),
              [inc('计'), _show(Var('计')), If(Bin('ge', Var('计'), Num('2')), [Ret(Str('完'))])]),
        _show(Str('不达'))]))
    # a thrown exception travels through running 每当 loops (in the loop body, and in a callee): nothing after it runs
    out.append(Program([], [
        Func('验', ['数'], [If(Bin('lt', Var('数'), Num('0')), [Throw('异常', [Str('负')])]), Ret(Var('数'))]),
        Decl(['计'], Num('0')),
        While(Bin('lt', Var('计'), Num('3')), [inc('计'), _show(Call('验', [Bin('-', Num('1'), Var('计'))]))]),
        _show(Str('不达'))]))
    out.append(Program([], [
        Decl(['计'], Num('0')),
        While(Bin('lt', Var('计'), Num('3')), [inc('计'), If(Bin('eq', Var('计'), Num('2')), [Throw('异常', [Str('二')])]), _show(Var('计'))]),
        _show(Str('不达'))]))
    # the traversed expression is evaluated before the loop variables exist: 以甲遍历甲 walks the OUTER 甲
    out.append(Program([], [
        Decl(['甲'], Arr([Num('1'), Num('2'), Num('3')])),
        Iter(['甲'], Var('甲'), [_show(Var('甲'))]), _show(Var('甲')),
        Func('对', ['键', '值'], [Iter(['键', '值'], Dict([(Var('子'), Var('键')), (Var('丑'), Var('值'))]), [_show(Var('键'), Var('值'))]),
                                 Ret(Arr([Var('键'), Var('值')]))]),
        _show(Call('对', [Num('1'), Num('2')]))]))
    # a handler that executes 结束循环 / 继续循环 outside any loop of its method does not steer the caller's loop
    for sig in (Break(), Continue()):
        out.append(Program([], [
            Func('险', [], [Throw('异常', [Str('x')])], [('异常', [_show(Str('拦')), sig])]),
            Decl(['计'], Num('0')),
            While(Bin('lt', Var('计'), Num('3')), [inc('计'), _show(Var('计')), ExprS(Call('险', [])), _show(Str('后'))]),
            _show(Str('不达'))]))
    # the position variable is a number like any other — the body may change it in place; the next execution of the loop (next pass
    # of the enclosing loop, next call of the method, a later loop) counts 1, 2, 3 … again
    bump = lambda v, m, k: ExprS(MCall(Var(v), [(m, [Num(k)])]))
    out.append(Program([], [
        Iter(['外序', '外'], Arr([Num('7'), Num('8'), Num('9')]),
             [_show(Var('外序'), Var('外')),
              Iter(['序', '项'], Arr([Num('10'), Num('20'), Num('30')]), [_show(Var('序'), Var('项')), bump('序', '自增', '100'), _show(Var('序'))]),
              bump('外序', '自减', '1')]),
        Iter(['序', '项'], Arr([Num('4'), Num('5')]), [_show(Var('序'), Var('项'))])]))
    out.append(Program([], [
        BUMP,
        Func('巡', ['列'], [Iter(['序', '项'], Var('列'), [_show(Var('序'), Var('项')), _show(Call('升', [Var('序'), Num('7')]))]),
                           Ret(Prop(Var('列'), '长度'))]),
        _show(Call('巡', [Arr([Num('5'), Num('6')])])), _show(Call('巡', [Arr([Num('7'), Num('8'), Num('9')])]))]))
    return [(p, {}) for p in out]


def hand_exc():
    """C09: after an exception has been handled — by a handler that re-raised and an outer one, or several calls above the raise
    point — every frame of the failed calls is gone: the caller's 其 is its own receiver, the program body has none"""
    out = []
    acct = Class('户', [('名', Str('无')), ('余', Num('100'))], [
        Func('结算', ['数'], [Decl(['果'], Call('安全扣', [Var('数')])), _show(This('名'), Var('果')),
                             ExprS(Assign(This('余'), Bin('-', This('余'), Num('1')))), Ret(This('余'))]),
        Func('深扣', ['数'], [Ret(Call('扣', [Var('数')]))], [('异常', [_show(Str('深拦')), Ret(Num('-2'))])]),
        Func('转', ['数'], [Decl(['果'], MCall(This('伴'), [('深扣', [Var('数')])])), _show(This('名'), Var('果')),
                           ExprS(Assign(This('余'), Bin('-', This('余'), Num('1')))), Ret(This('余'))])])
    acct.props.append(('伴', Var('空')))
    common = [
        acct,
        Func('扣', ['数'], [If(Bin('gt', Var('数'), Num('100')), [Throw('异常', [Str('不足')])]), Ret(Var('数'))],
             [('异常', [_show(Str('回滚'), This('内容')), Throw('异常', [Str('已回滚')])])]),
        Func('安全扣', ['数'], [Ret(Call('扣', [Var('数')]))], [('异常', [_show(Str('安拦'), This('内容')), Ret(Num('-1'))])]),
        Decl(['甲'], New('户', [])), ExprS(Assign(Prop(Var('甲'), '名'), Str('甲'))),
        Decl(['乙'], New('户', [])), ExprS(Assign(Prop(Var('乙'), '名'), Str('乙'))),
        ExprS(Assign(Prop(Var('甲'), '伴'), Var('乙')))]
    # log-and-re-throw below, handled by the next method up; its caller is a method and goes on with 其
    out.append(Program([], common + [_show(MCall(Var('甲'), [('结算', [Num('500')])])), _show(Prop(Var('甲'), '余'), Prop(Var('乙'), '余'))]))
    # the same, then the program body reads 其 (it has no receiver: an error, not some dead frame's object)
    out.append(Program([], common + [_show(Call('安全扣', [Num('500')])), _show(This('名'))]))
    # the failure is handled two calls above the raise point inside ANOTHER object's method; the first object goes on with 其
    out.append(Program([], common + [_show(MCall(Var('甲'), [('转', [Num('500')])])), _show(Prop(Var('甲'), '余'), Prop(Var('乙'), '余'))]))
    return [(p, {}) for p in out]


# =================================================================================================
# generators
# =================================================================================================

MARK = Func('记', ['号', '值'], [ExprS(Call('显示', [Var('号')])), Ret(Var('值'))])
# numbers are changed in place by 自增 / 自减: a callee that bumps its input (only ever called with LITERAL arguments: what a
# change made through a parameter does to the caller's variable is not fixed by any property)
BUMP = Func('升', ['数', '步'], [Ret(MCall(Var('数'), [('自增', [Var('步')])]))])
# methods whose literals are evaluated once per call
MAKE_NUM = Func('造数', [], [Ret(MCall(Num('10'), [('自减', [Num('1')])]))])
MAKE_LIST = Func('造列', [], [Decl(['内'], Arr([Num('0'), Arr([Num('5')])])),
                              ExprS(MCall(Index(Var('内'), Num('1')), [('自增', [Num('1')])])),
                              ExprS(MCall(Index(Index(Var('内'), Num('2')), Num('1')), [('自减', [Num('2')])])),
                              Ret(Var('内'))])


class G:
    def __init__(self, rng):
        self.rng = rng
        self.k = 0
        self.textm = 0.0     # share of leaves that are members of texts: 长度 / 转换数值 (numbers), 匹配… (truth values), the other text methods
        self.stats = {}      # what the copy generator produced (evidence): kind -> count
        self.bumps = 0.0     # share of number leaves that are `以 ‹literal›（自增/自减：k）` / （升：‹literal›、k） (needs BUMP in the prelude)
        # flow programs (C02): loop variables / counters changed in place, loops executed repeatedly, methods called several times,
        # every position displayed on every pass (needs BUMP in the prelude; off = the stream as it was, same PRNG consumption)
        self.loop_mut = False
        self.stats = {}      # how often each of the loop_mut constructs was generated
        # Off: a variable handed to a callee that bumps its input is not read again by the caller in that pass.  On: it is displayed
        # right after the call — the real code hands the caller's own number to the callee (`（升：序、100）` leaves 序 = 101 in the
        # caller, the spec semantics binds inputs by value: 1), which no property fixes either way (cf. BUMP above, DESIGN §12.8);
        # about 40 programs per 1000 then differ from the spec on the unchanged tree.  c02.py: VERIF_C02_CALLEE_BUMP_VISIBLE_IN_CALLER=1
        self.CALLEE_BUMP_VISIBLE_IN_CALLER = False

    def fresh(self):
        self.k += 1
        return self.k

    def stat(self, key):
        self.stats[key] = self.stats.get(key, 0) + 1

    # ---- expressions (C01) -------------------------------------------------------------------------
    def num_leaf(self, env):
        r = self.rng.random()
        nv = [n for n, t in env.items() if t == 'num']
        if nv and r < 0.35:
            return Var(self.rng.choice(nv))
        if self.bumps and self.rng.random() < self.bumps:
            return self.bumped_literal()
        if self.textm and self.rng.random() < self.textm:
            # a number that comes out of a text: its length, or the text read as a numeral
            if self.rng.random() < 0.5:
                return Prop(self.text_leaf(env), self.rng.choice(['长度', '字数']))
            return MCall(Str(self.rng.choice(['12', '-3.5', '1*^3', '2.5*10^2', '0.5', '1e3', '007', '+4', '.5', '5.', '1*10^400', '1e-400'])), [('转换数值', [])])
        return Num(self.rng.choice(NUM_LITS))

    def text_leaf(self, env):
        sv = [n for n, t in env.items() if t == 'str']
        if sv and self.rng.random() < 0.3:
            return Var(self.rng.choice(sv))
        return Str(self.rng.choice(TEXTS + ['Ab你', ' a ', 'a,b', 'aXa', '{#1}']))

    def text_call(self, env):
        """a text method applied to a text: (expression, what it yields)"""
        rng = self.rng
        m = rng.choice(['替换', '分隔', '取样', '去除空格', '转小写-英文', '转大写-英文', '拼接', '格式化'])
        t = self.text_leaf
        args = {'替换': lambda: [t(env), t(env)], '分隔': lambda: [Str(rng.choice(['', ',', 'a', 'X', '你']))],
                '取样': lambda: [Num(rng.choice(['1', '2', '-1', '-2'])), Num(rng.choice(['1', '2', '3', '-1']))],
                '拼接': lambda: [t(env) for _ in range(rng.randint(0, 2))], '格式化': lambda: [t(env) for _ in range(rng.randint(0, 2))]}.get(m, lambda: [])()
        return MCall(t(env), [(m, args)])

    def bumped_literal(self, step=None):
        """a number literal that is changed in place right where it stands: as the receiver of 自增 / 自减, as the argument of a
        callee that bumps its input, or as an item of a list / dictionary literal.  Its value is the literal's own value plus /
        minus the step EVERY time the expression is evaluated."""
        rng = self.rng
        lit = Num(rng.choice(NUM_LITS))
        step = step or Num(rng.choice(SMALL_INTS))
        m = rng.choice(['自增', '自减'])
        k = rng.random()
        if k < 0.55:
            return MCall(lit, [(m, [step])])
        if k < 0.8:
            return Call('升', [lit, step])
        if k < 0.9:
            return MCall(Index(Arr([Num(rng.choice(SMALL_INTS)), lit]), Num('2')), [(m, [step])])
        return MCall(Index(Dict([(Var('a'), lit)]), Str('a')), [(m, [step])])

    def bool_leaf(self, env):
        bv = [n for n, t in env.items() if t == 'bool']
        if bv and self.rng.random() < 0.3:
            return Var(self.rng.choice(bv))
        if self.textm and self.rng.random() < self.textm:
            return MCall(self.text_leaf(env), [(self.rng.choice(['匹配', '匹配开头', '匹配结尾']), [self.text_leaf(env)])])
        return Var(self.rng.choice(['真', '假']))

    def other_leaf(self, env):
        r = self.rng.random()
        sv = [n for n, t in env.items() if t == 'str']
        if self.textm and self.rng.random() < self.textm:
            return self.text_call(env)
        if r < 0.3:
            return Str(self.rng.choice(TEXTS))
        if r < 0.4 and sv:
            return Var(self.rng.choice(sv))
        if r < 0.5:
            return Var('空')
        if r < 0.75:
            return Arr([self.any_leaf(env) for _ in range(self.rng.randint(0, 3))])
        return Dict([(Var(k), self.any_leaf(env)) for k in self.rng.sample(KEYS, self.rng.randint(1, 3))])

    def any_leaf(self, env):
        r = self.rng.random()
        if r < 0.4:
            return self.num_leaf(env)
        if r < 0.6:
            return self.bool_leaf(env)
        return self.other_leaf(env) if self.rng.random() < 0.6 else Str(self.rng.choice(TEXTS))

    def expr(self, want, depth, env, ill=0.0, marks=True):
        rng = self.rng
        if marks and depth > 0 and rng.random() < 0.12:
            return Call('记', [Num(str(self.fresh())), self.expr(want, depth - 1, env, ill, marks)])
        if rng.random() < ill:
            # deliberately ill-typed operand
            want = rng.choice([w for w in ('num', 'bool', 'other') if w != want])
        if depth <= 0 or rng.random() < 0.15:
            e = {'num': self.num_leaf, 'bool': self.bool_leaf, 'other': self.other_leaf, 'any': self.any_leaf}[want](env)
        elif want == 'num':
            op = rng.choice(['+', '-', '*', '/', '|', '%'])
            e = Bin(op, self.expr('num', depth - 1, env, ill, marks), self.expr('num', depth - 1, env, ill, marks))
        elif want == 'bool':
            k = rng.random()
            if k < 0.3:
                op = rng.choice(['and', 'or'])
                e = Bin(op, self.expr('bool', depth - 1, env, ill, marks), self.expr('bool', depth - 1, env, ill, marks))
            elif k < 0.65:
                op = rng.choice(['eq', 'ne', 'gt', 'ge', 'lt', 'le'])
                e = Bin(op, self.expr('num', depth - 1, env, ill, marks), self.expr('num', depth - 1, env, ill, marks),
                        spell=rng.choice(SPELL[op]))
            elif k < 0.75:
                # structural equality of collections: same keys, values equal or differing at one place
                op = rng.choice(['xeq', 'xne', 'eq', 'ne'])
                ks = rng.sample(KEYS, rng.randint(1, 4))
                vals = [rng.choice(SMALL_INTS) for _ in ks]
                vals2 = list(vals)
                if rng.random() < 0.6:
                    j = rng.randrange(len(ks))
                    vals2[j] = str(int(vals2[j]) + 1)
                ks2 = list(ks)
                if rng.random() < 0.3:
                    rng.shuffle(ks2)
                    vals2 = [vals2[ks.index(kk)] for kk in ks2]
                if rng.random() < 0.5:
                    a = Dict([(Var(kk), Num(v)) for kk, v in zip(ks, vals)])
                    b = Dict([(Var(kk), Num(v)) for kk, v in zip(ks2, vals2)])
                else:
                    a = Arr([Num(v) for v in vals])
                    b = Arr([Num(v) for v in vals2])
                e = Bin(op, a, b, spell=rng.choice(SPELL[op]))
            else:
                op = rng.choice(['xeq', 'xne', 'eq', 'ne'])
                t = rng.choice(['num', 'bool', 'other', 'any'])
                e = Bin(op, self.expr(t, depth - 1, env, ill, marks), self.expr(rng.choice([t, t, 'any']), depth - 1, env, ill, marks),
                        spell=rng.choice(SPELL[op]))
        else:
            e = self.any_leaf(env) if want == 'any' else self.other_leaf(env)
        if rng.random() < 0.08:
            e = Brace(e)
        return e

    def expr_program(self, depth):
        rng = self.rng
        env = {}
        body = [MARK, BUMP]
        ins = {}
        inputs = []
        for n, v in (('数甲', 2.5), ('数乙', -0.0), ('数丙', float('nan')), ('数丁', float('inf'))):
            if rng.random() < 0.5:
                inputs.append(n)
                ins[n] = v
                env[n] = 'num'
        for n, lit in (('元', '6'), ('负', '-7'), ('零', '0'), ('分', '0.25')):
            if rng.random() < 0.5:
                body.append(Decl([n], Num(lit)))
                env[n] = 'num'
        if rng.random() < 0.5:
            body.append(Decl(['是'], Var('真')))
            env['是'] = 'bool'
        if rng.random() < 0.5:
            body.append(Decl(['文'], Str('甲')))
            env['文'] = 'str'
        ill = rng.choice([0.0, 0.0, 0.05, 0.15])
        want = rng.choice(['num', 'bool', 'bool', 'num', 'any'])
        self.bumps = rng.choice([0.0, 0.05, 0.15])
        self.textm = rng.choice([0.0, 0.0, 0.1, 0.25])
        try:
            if rng.random() < 0.2:
                # the same expression evaluated two or three times (loop body): it yields its documented value every time
                env['次'] = 'num'
                self.bumps = rng.choice([0.1, 0.2, 0.35])
                e = self.expr(want, depth, env, ill)
                body.append(Decl(['果'], Arr([])))
                body.append(Iter(['次'], Arr([Num(str(i)) for i in range(1, rng.randint(2, 3) + 1)]),
                                 [ExprS(MCall(Var('果'), [('后增', [e])]))]))
                body.append(Ret(Var('果')))
            else:
                body.append(Ret(self.expr(want, depth, env, ill)))
        finally:
            self.bumps = 0.0
            self.textm = 0.0
        return Program(inputs, body), ins

    # ---- statements (C02) --------------------------------------------------------------------------
    def cond(self, env, depth=2):
        rng = self.rng
        c = self.cond0(env, depth)
        if getattr(self, 'marked_conds', False) and rng.random() < 0.15:
            # a condition with an observable effect: it is evaluated exactly when (and as often as) the manual says
            c = Call('记', [Num(str(self.fresh())), c])
        return c

    def cond0(self, env, depth=2):
        rng = self.rng
        nv = [n for n, t in env.items() if t == 'num']
        r = rng.random()
        if nv and r < 0.55:
            op = rng.choice(['eq', 'ne', 'gt', 'ge', 'lt', 'le'])
            return Bin(op, Var(rng.choice(nv)), Num(rng.choice(['0', '1', '2', '3'])), spell=rng.choice(SPELL[op]))
        if r < 0.75:
            return Var('真') if rng.random() < 0.7 else Var('假')
        return self.expr('bool', depth, env, 0.02, marks=False)

    # ---- loop variables changed in place, loops run more than once (C02, switched on by `loop_mut`) ----------------
    # A number is a mutable value (自增 / 自减 change the receiver where it stands; 转换数值 rewrites a text): whatever a loop hands to
    # its variables — the position, the key, the item, a 每当 counter computed by `计 + 1` — may be changed by the body, and the NEXT
    # pass, the next execution of the same loop (next pass of an enclosing loop, next call of the enclosing method) and every other
    # loop still get 1, 2, 3 … / the keys as inserted / the items as stored.  Every pass displays all its variables.
    def _note(self, key):
        self.stats[key] = self.stats.get(key, 0) + 1

    def var_ops(self, names, kt, rec=None, callee=True):
        """(statements for the middle of a loop body, statements that must come last in the body) changing the loop's own
        variables in place.  names = loop variables ([item] or [position/key, item]); kt = 'num' (list position), 'str' (key),
        'numkey' (key that is a numeral text).  Directly: the variable afterwards holds the new value (displayed).  Through a callee
        that bumps its input (升): only the callee's result is displayed and the variable is not read again in this pass — what such
        a change does to the CALLER's variable is not fixed by any property (CALLEE_BUMP_VISIBLE_IN_CALLER lifts that restriction)."""
        rng = self.rng
        idx = names[0] if len(names) == 2 else None
        item = names[-1] if names else None
        cands = []
        if idx and kt == 'num':
            cands += ['idx', 'idx', 'idx', 'idx', 'idx-assign', 'idx-copy'] + (['idx-callee', 'idx-callee'] if callee else [])
            if rec:
                cands += ['capture', 'capture']
        if idx and kt == 'numkey':
            cands += ['key-conv', 'key-conv', 'key-conv']
        if item:
            cands += ['item', 'item'] + (['item-callee'] if callee else [])
        mid, tail = [], []
        if not cands:
            return mid, tail
        for op in [rng.choice(cands) for _ in range(rng.choice([1, 1, 2, 3]))]:
            step = Num(rng.choice(['1', '1', '2', '3', '100', '1000', '0.5', '0']))
            m = rng.choice(['自增', '自增', '自减'])
            self._note('loopvar:' + op)
            if op == 'idx':
                mid += [ExprS(MCall(Var(idx), [(m, [step])])), _show(Var(idx))]
            elif op == 'item':
                mid += [ExprS(MCall(Var(item), [(m, [step])])), _show(Var(item))]
            elif op == 'idx-assign':      # not in place: the name is bound to a new number
                mid += [ExprS(Assign(Var(idx), Bin('+', Var(idx), step))), _show(Var(idx))]
            elif op == 'idx-copy':        # a copy taken before the change keeps the position
                c = '位%d' % self.fresh()
                mid += [Decl([c], Var(idx)), ExprS(MCall(Var(idx), [(m, [step])])), _show(Var(c), Var(idx))]
            elif op == 'capture':         # the position stored in a list before it is changed
                mid += [ExprS(MCall(Var(rec), [('后增', [Var(idx)])])), ExprS(MCall(Var(idx), [(m, [step])]))]
            elif op == 'key-conv':        # 转换数值 rewrites *^ / *10^ of its receiver to e: the key VARIABLE's text, not the dictionary's key
                mid += [_show(MCall(Var(idx), [('转换数值', [])])), _show(Var(idx))]
            elif op in ('idx-callee', 'item-callee'):
                v = idx if op == 'idx-callee' else item
                if self.CALLEE_BUMP_VISIBLE_IN_CALLER:
                    mid += [_show(Call('升', [Var(v), step])), _show(Var(v))]
                elif not tail:
                    tail = [_show(Call('升', [Var(v), step]))]
        return mid, tail

    def mut_iter(self, names, coll, kt, env, depth, in_func, rec=None, inner=None):
        """遍历 whose every pass displays its variables, changes some of them in place and (inner) runs further statements"""
        rng = self.rng
        env2 = dict(env)
        if len(names) == 2:
            env2[names[0]] = 'num' if kt == 'num' else 'str'
            env2[names[1]] = 'num'
        elif len(names) == 1:
            env2[names[0]] = 'num'
        body = [_show(*[Var(n) for n in names])] if names else [_show(Num(str(self.fresh())))]
        mid, tail = self.var_ops(names, kt, rec)
        if inner and rng.random() < 0.5:
            body += mid
            mid = []
        if rng.random() < 0.4:
            body += self.stmts(rng.randint(1, 2), env2, depth - 1, True, in_func)
        body += (inner or []) + mid
        if not tail and rng.random() < 0.3:
            body += self.stmts(1, env2, depth - 1, True, in_func)
        return Iter(names, coll, body + tail)

    def mut_collection(self):
        rng = self.rng
        k = rng.random()
        if k < 0.6:
            return Arr([Num(rng.choice(SMALL_INTS)) for _ in range(rng.randint(1, 5))]), 'num'
        if k < 0.8:
            return Dict([(Var(x), Num(rng.choice(SMALL_INTS))) for x in rng.sample(KEYS, rng.randint(1, 3))]), 'str'
        ks = rng.sample(['1*^2', '2*10^1', '3', '1.5*^1', '-4*^0'], rng.randint(1, 3))
        return Dict([(Str(x), Num(rng.choice(SMALL_INTS))) for x in ks]), 'numkey'

    def mut_names(self, kt):
        two = kt != 'num' or self.rng.random() < 0.85
        return [('序%d' if kt == 'num' else '键%d') % self.fresh(), '项%d' % self.fresh()] if two else ['项%d' % self.fresh()]

    def mut_loop(self, out, env, depth, in_func, src=None, kt=None):
        """a loop that changes its variables in place and is executed again: the same statement twice, a second loop over the same
        collection, inside an enclosing 遍历 / 每当 of 2–3 passes (whose own variables are changed too), or once (then the enclosing
        loops / the calls of the enclosing method repeat it)"""
        rng = self.rng
        if src is None:
            coll, kt = self.mut_collection()
            if rng.random() < 0.5:
                v = '列%d' % self.fresh()
                out.append(Decl([v], coll))
                src = Var(v)
            else:
                src = coll
        rec = None
        if kt == 'num' and rng.random() < 0.3:
            rec = '录%d' % self.fresh()
            out.append(Decl([rec], Arr([])))
        loop = lambda: self.mut_iter(self.mut_names(kt), src, kt, env, depth - 1, in_func, rec)
        rep = rng.choice(['seq', 'seq', 'same', 'outer-iter', 'outer-iter', 'outer-while', 'once'])
        self._note('mutloop:' + rep)
        self._note('mutloop-over:' + {'num': 'list', 'str': 'dict', 'numkey': 'dict-numeral-keys'}[kt])
        if rep == 'seq':
            out.append(loop())
            if rng.random() < 0.3:
                out += self.stmts(1, env, depth - 1, False, in_func)
            out.append(loop())
        elif rep == 'same':
            one = loop()
            out += [one, one]
        elif rep == 'outer-iter':
            ocoll = Arr([Num(rng.choice(SMALL_INTS)) for _ in range(rng.randint(2, 3))])
            onames = [[], ['外%d' % self.fresh()], ['外序%d' % self.fresh(), '外%d' % self.fresh()]][rng.choice([0, 1, 2, 2])]
            out.append(self.mut_iter(onames, ocoll, 'num', env, depth - 1, in_func, None, inner=[loop()]))
        elif rep == 'outer-while':
            c = '计%d' % self.fresh()
            out.append(Decl([c], Num('0')))
            body = [ExprS(Assign(Var(c), Bin('+', Var(c), Num('1')))), _show(Var(c)), loop()]
            if rng.random() < 0.4:
                # the counter (a number computed by 计 + 1) changed in place: the loop just ends sooner
                self._note('counter:bumped')
                body += [ExprS(MCall(Var(c), [('自增', [Num(rng.choice(['0', '1', '100']))])])), _show(Var(c))]
            out.append(While(Bin('lt', Var(c), Num(rng.choice(['2', '3']))), body))
        else:
            out.append(loop())
        if rec:
            out.append(_show(Var(rec)))

    def long_list_loops(self, out):
        """positions beyond any plausible table of prepared numbers: a list of some hundred items traversed twice, every position
        displayed, the first traversal changing its position variable in place"""
        rng = self.rng
        n = rng.choice([130, 257, 260, 300, 300, 520])
        self._note('mutloop:long-list')
        lst = '长%d' % self.fresh()
        out.append(Decl([lst], Arr([Num(rng.choice(SMALL_INTS)) for _ in range(n)])))
        for k in range(2):
            i, t = '序%d' % self.fresh(), '项%d' % self.fresh()
            body = [_show(Var(i), Var(t))]
            if k == 0 or rng.random() < 0.5:
                body += [ExprS(MCall(Var(i), [(rng.choice(['自增', '自减']), [Num(rng.choice(['1', '7', '1000']))])])), _show(Var(i))]
            out.append(Iter([i, t], Var(lst), body))

    def while_loop(self, out, env, depth, in_func):
        """每当 with a counter incremented first (so every loop terminates).  Three kinds of condition:
        pure and total (计 < K); with an observable effect (（记：n、计 < K） displays n at every evaluation); partial — it can be
        evaluated for exactly K passes (an index into a K-item list, a division by K - 计), the pass that makes it unevaluable
        leaves the loop by 输出 / 结束循环 (or does not: then the fault is the documented result)"""
        rng = self.rng
        c = '计%d' % self.fresh()
        out.append(Decl([c], Num('0')))
        env2 = dict(env)
        env2[c] = 'num'
        bound = rng.choice([0, 1, 2, 2, 3, 3])
        inner = self.stmts(rng.randint(1, 3), env2, depth - 1, True, in_func)
        cond = Bin('lt', Var(c), Num(str(bound)))
        k = rng.random() if getattr(self, 'marked_conds', False) else 0.0
        if k < 0.5:
            pass
        elif k < 0.75:
            cond = Call('记', [Num(str(self.fresh())), cond])
        else:
            bound = max(bound, 1)
            kk = rng.random()
            if kk < 0.4:
                lst = '序%d' % self.fresh()
                out.append(Decl([lst], Arr([Num('1') for _ in range(bound)])))
                cond = Bin('eq', Index(Var(lst), Bin('+', Var(c), Num('1'))), Num('1'))
            elif kk < 0.7:
                ks = KEYS[:bound]
                dic = '表%d' % self.fresh()
                out.append(Decl([dic], Dict([(Var(kx), Num(str(i + 1))) for i, kx in enumerate(ks)])))
                lst = '序%d' % self.fresh()
                out.append(Decl([lst], Arr([Str(kx) for kx in ks] + [Str('无')])))
                cond = Bin('gt', Index(Var(dic), Index(Var(lst), Bin('+', Var(c), Num('1')))), Num('0'))
            else:
                cond = Bin('gt', Bin('/', Num('6'), Bin('-', Num(str(bound)), Var(c))), Num('0'))
            if rng.random() < 0.3:
                cond = Call('记', [Num(str(self.fresh())), cond])
            leave = rng.choice(['ret', 'ret', 'ret', 'brk', 'none'])
            last = Bin('ge', Var(c), Num(str(bound)))
            if leave == 'ret':
                inner.append(If(last, [Ret(self.expr(rng.choice(['num', 'bool']), 1, env2, 0.0, marks=False))]))
            elif leave == 'brk':
                inner.append(If(last, [Break()]))
        if self.loop_mut and rng.random() < 0.08:
            # the counter (the number `计 + 1` computed) is changed in place somewhere in the pass: it then holds the sum, the loop
            # ends sooner; later counters and positions that reach the same value are not affected
            self._note('counter:bumped')
            pos = rng.randint(0, len(inner))
            inner[pos:pos] = [_show(Var(c)), ExprS(MCall(Var(c), [('自增', [Num(rng.choice(['0', '1', '1', '2', '100']))])])), _show(Var(c))]
        body = [ExprS(Assign(Var(c), Bin('+', Var(c), Num('1'))))] + inner
        out.append(While(cond, body))

    def stmts(self, n, env, depth, in_loop, in_func):
        rng = self.rng
        out = []
        env = dict(env)
        for _ in range(n):
            r = rng.random()
            if self.loop_mut and depth > 0 and rng.random() < 0.012:
                self.mut_loop(out, env, depth, in_func)
            elif r < 0.28 or depth <= 0:
                out.append(ExprS(Call('显示', [Num(str(self.fresh()))])))
            elif r < 0.42:
                then = self.stmts(rng.randint(1, 3), env, depth - 1, in_loop, in_func)
                elifs = [(self.cond(env, 1), self.stmts(rng.randint(1, 2), env, depth - 1, in_loop, in_func))
                         for _ in range(rng.choice([0, 0, 1, 2]))]
                els = self.stmts(rng.randint(1, 2), env, depth - 1, in_loop, in_func) if rng.random() < 0.5 else None
                out.append(If(self.cond(env, 1), then, elifs, els))
            elif r < 0.54:
                self.while_loop(out, env, depth, in_func)
            elif r < 0.68:
                names = [['项%d' % self.fresh()], ['键%d' % self.fresh(), '值%d' % self.fresh()], []][rng.choice([0, 0, 1, 1, 2])]
                if rng.random() < 0.5:
                    coll = Arr([Num(rng.choice(SMALL_INTS)) for _ in range(rng.randint(0, 3))])
                    kt = 'num'
                else:
                    ks = rng.sample(KEYS, rng.randint(0, 3))
                    coll = Dict([(Var(k), Num(rng.choice(SMALL_INTS))) for k in ks])
                    kt = 'str'
                env2 = dict(env)
                if len(names) == 1:
                    env2[names[0]] = 'num'
                elif len(names) == 2:
                    env2[names[0]] = kt
                    env2[names[1]] = 'num'
                body = []
                for nm in names:
                    body.append(ExprS(Call('显示', [Var(nm)])))
                body += self.stmts(rng.randint(1, 3), env2, depth - 1, True, in_func)
                if names and rng.random() < 0.25:
                    # the traversed expression mentions a name spelled like one of the loop's own variables: it is evaluated
                    # BEFORE they exist (the outer variable is meant), and the loop variable shadows it only inside the loop
                    outer = rng.choice(names)
                    out.append(Decl([outer], coll if rng.random() < 0.6 else Num(rng.choice(SMALL_INTS))))
                    if isinstance(coll, Arr) and rng.random() < 0.5:
                        coll2 = Var(outer) if out[-1].e is coll else Arr([Var(outer), Var(outer)])
                    else:
                        coll2 = Var(outer) if out[-1].e is coll else Dict([(Var('子'), Var(outer)), (Var('丑'), Var(outer))])
                    out.append(Iter(names, coll2, body))
                    out.append(ExprS(Call('显示', [Var(outer)])))
                else:
                    out.append(Iter(names, coll, body))
                if self.loop_mut and names and rng.random() < 0.1:
                    # the ordinary loops too: their variables changed in place somewhere in the pass
                    it = [x for x in out if isinstance(x, Iter)][-1]
                    kt2 = 'str' if isinstance(it.e, Dict) else 'num' if isinstance(it.e, Arr) else kt
                    mid, _ = self.var_ops(names, kt2, callee=False)
                    pos = rng.randint(len(names), len(body))
                    body[pos:pos] = mid
            elif r < 0.76 and in_loop:
                out.append(rng.choice([Break(), Continue()]))
            elif r < 0.84:
                out.append(Ret(self.expr(rng.choice(['num', 'bool']), 1, env, 0.0, marks=False)))
            elif r < 0.92:
                # (a name may begin with 注 as long as no ： follows its digits: 注7号 is a name, 注7： a comment)
                v = ('注%d号' if rng.random() < 0.12 else '变%d') % self.fresh()
                out.append(Decl([v], self.expr('num', 1, env, 0.0, marks=False)))
                env[v] = 'num'
            elif r < 0.95 and getattr(self, 'flow_throws', False):
                # an exception nobody handles ends every enclosing loop, method and the program
                out.append(Throw('异常', [Str('误%d' % self.fresh())]))
            elif r < 0.97 and getattr(self, 'callables', None):
                # a call of an earlier method from inside whatever block this is: its 输出 / 抛出 / loop signals are its own
                out.append(ExprS(Call('显示', [Call(rng.choice(self.callables), [])])))
            else:
                out.append(ExprS(self.expr(rng.choice(['num', 'bool']), 2, env, 0.0, marks=False)))
        return out

    def flow_program(self, depth):
        rng = self.rng
        self.marked_conds = True
        self.flow_throws = rng.random() < 0.5
        self.callables = []
        body = [MARK] + ([BUMP] if self.loop_mut else [])
        nf = rng.choice([0, 0, 1, 2])
        fnames = []
        for i in range(nf):
            fn = '法%d' % self.fresh()
            if rng.random() < 0.25:
                # a method whose own handler executes a loop statement outside any loop of the method: that is not a signal for the
                # CALLER's loop (it becomes an exception at the call site)
                body.append(Func(fn, [], [ExprS(Call('显示', [Num(str(self.fresh()))])), Throw('异常', [Str('险')]), Ret(Num('1'))],
                                 [('异常', [ExprS(Call('显示', [Str('拦')])), rng.choice([Break(), Continue()])])]))
            else:
                body.append(Func(fn, [], self.stmts(rng.randint(2, 5), {}, depth, False, True)))
            fnames.append(fn)
            self.callables = list(fnames)
        walkers = []
        if self.loop_mut and rng.random() < 0.08:
            # a method that traverses the collection it is given, changing the loop's variables in place; it is called two or three
            # times (with collections of different sizes): every call sees positions 1, 2, 3 … again
            fn = '巡%d' % self.fresh()
            self._note('mutloop:method-called-again')
            kt = rng.choice(['num', 'num', 'num', 'str'])
            fb = []
            if rng.random() < 0.3:
                fb += self.stmts(1, {}, depth - 1, False, True)
            self.mut_loop(fb, {}, depth, True, src=Var('列'), kt=kt)
            if rng.random() < 0.5:
                fb.append(Ret(Prop(Var('列'), '长度')))
            body.append(Func(fn, ['列'], fb))
            walkers = [(fn, kt) for _ in range(rng.choice([2, 2, 3]))]
        main = self.stmts(rng.randint(2, 6), {}, depth, False, False)
        for fn in fnames:
            # (loop_mut: a method is called up to three times — a loop inside it runs again from position 1)
            for _ in range(rng.choice([1, 1, 2, 3]) if self.loop_mut else 1):
                pos = rng.randint(0, len(main))
                main.insert(pos, ExprS(Call('显示', [Call(fn, [])])))
        for fn, kt in walkers:
            if kt == 'num':
                arg = Arr([Num(rng.choice(SMALL_INTS)) for _ in range(rng.randint(1, 5))])
            else:
                arg = Dict([(Var(x), Num(rng.choice(SMALL_INTS))) for x in rng.sample(KEYS, rng.randint(1, 3))])
            main.insert(rng.randint(0, len(main)), ExprS(Call('显示', [Call(fn, [arg])])))
        if self.loop_mut and rng.random() < 0.02:
            self.long_list_loops(main)
        self.marked_conds = self.flow_throws = False
        self.callables = []
        return Program([], body + main), {}

    # ---- copy / alias histories (C07) --------------------------------------------------------------
    def value_expr(self, depth):
        rng = self.rng
        r = rng.random()
        if depth <= 0 or r < 0.3:
            return rng.choice([Num(rng.choice(SMALL_INTS)), Str(rng.choice(TEXTS)), Str(rng.choice(ML_TEXTS)), Var('真')])
        if r < 0.65:
            return Arr([self.value_expr(depth - 1) for _ in range(rng.randint(1, 3))])
        ks = rng.sample(KEYS, rng.randint(1, 3))
        return Dict([(Var(k), self.value_expr(depth - 1)) for k in ks])

    def copy_program(self, steps):
        """copy / alias histories.  Holders: variables, items of lists / dictionaries at any depth, the 表 / 物 properties of
        objects.  Copy forms: 令, =, multi-name 令, element / key / property assignment, an argument stored by 后增 前增 新增 写入,
        loop variables, literals evaluated repeatedly, defaults of a type handed to each new object; the source of a copy is a
        whole variable or a part of one (甲#1, 甲#“a”, 物之表).  Mutations: element and key assignment, 后增 前增 新增 (first /
        inside / last / past the end / counted from the end) 左移 右移, 移除 (first / middle / last / absent key), 写入 (new /
        present / formerly removed key), 自增 自减.  After every step every holder is displayed, and some holder is looked at
        through an order-dependent view (所有索引 所有值 长度, 遍历 with one / two variables, 首项 末项 逆序); at the end every
        dictionary of every holder is."""
        rng = self.rng
        import copy as _copy
        # a method whose dictionary literal is evaluated once per call: it takes a copy, then removes a key from the original
        mk = rng.choice(['a', 'a', 'b', 'b', 'c', '无'])
        mwho = rng.choice(['内', '内', '副'])
        make_dict = Func('造表', [], [Decl(['内'], Dict([(Var('a'), Num('0')), (Var('b'), Arr([Num('5')])), (Var('c'), Num('2'))])),
                                      Decl(['副'], Var('内')),
                                      ExprS(MCall(Var(mwho), [('移除', [Str(mk)])])),
                                      Ret(Arr([Var('副'), Var('内')]))])
        box = Class('盒', [('物', Arr([Num('1')])), ('名', Str('甲')),
                          ('表', Dict([(Var('a'), Num('1')), (Var('b'), Arr([Num('5')])), (Var('c'), Num('3'))]))],
                    [Func('改名', ['新名'], [ExprS(Assign(This('名'), Var('新名')))]),
                     Func('取名', [], [Ret(This('名'))])])
        body = [box, BUMP, MAKE_NUM, MAKE_LIST]
        # declared only by the programs that call them
        extra = {'除键': Func('除键', ['键'], [ExprS(MCall(This('表'), [('移除', [Var('键')])]))]),
                 '存表': Func('存表', ['新表'], [ExprS(Assign(This('表'), Var('新表')))])}

        def need(f):
            if f == '造表':
                if make_dict not in body:
                    body.insert(4, make_dict)
            elif extra[f] not in box.methods:
                box.methods.append(extra[f])
        shapes = {}   # name -> python shape for choosing valid paths: list/dict ('L'/'D' + items), number 'N', other scalar 'S', object 'O'
        names = []
        objid = {}    # name of an object variable -> which object it names (objects are shared by every name they were given to)
        objtab = {}   # object -> shape of its 表 property
        removed = []  # keys removed so far (candidates for being written back: they must come back at the END of the order)
        dead = [False]

        def shape_of(e):
            if isinstance(e, Arr):
                return ['L'] + [shape_of(x) for x in e.items]
            if isinstance(e, Dict):
                return ['D'] + [(k.name, shape_of(v)) for k, v in e.kvs]
            return 'N' if isinstance(e, Num) else 'S'

        def size(sh):
            if isinstance(sh, list):
                return 1 + sum(size(x[1] if isinstance(x, tuple) else x) for x in sh[1:])
            return 1

        def bump(target):
            # numbers are changed in place by 自增 / 自减: one more mutator, applied to a variable, an item or a loop variable
            return ExprS(MCall(target, [(rng.choice(['自增', '自减']), [Num(rng.choice(['1', '2', '5', '100']))])]))

        def show_all():
            xs, seen = [], set()
            for n in names:
                if shapes[n] == 'O':
                    xs.append(Prop(Var(n), '名'))
                    if objid[n] not in seen:          # (one look at each object's 表 is enough: its names share it)
                        seen.add(objid[n])
                        xs.append(Prop(Var(n), '表'))
                else:
                    xs.append(Var(n))
            return [ExprS(Call('显示', xs or [Num('0')]))]

        def new_name():
            n = '量%d' % self.fresh()
            names.append(n)
            return n

        def new_object(n):
            self.stat('object-created')
            shapes[n] = 'O'
            objid[n] = self.fresh()
            objtab[objid[n]] = ['D', ('a', 'N'), ('b', ['L', 'N']), ('c', 'N')]

        def bind(dst, sh, src=None):
            """dst now holds a copy of a value of shape sh (an object: the very object src names)"""
            shapes[dst] = _copy.deepcopy(sh)
            if sh == 'O':
                objid[dst] = objid[src]
            else:
                objid.pop(dst, None)

        def path_into(n, want_container):
            """random access path into variable n; returns (expr, shape)"""
            e, sh = Var(n), shapes[n]
            for _ in range(rng.randint(0, 3)):
                if isinstance(sh, list) and sh[0] == 'L' and len(sh) > 1:
                    i = rng.randint(1, len(sh) - 1)
                    e, sh = Index(e, Num(str(i))), sh[i]
                elif isinstance(sh, list) and sh[0] == 'D' and len(sh) > 1:
                    k, s2 = rng.choice(sh[1:])
                    e, sh = Index(e, Str(k)), s2
                else:
                    break
            return e, sh

        def containers(n, kind=None):
            """every list / dictionary reachable from variable n (through items, keys and an object's 表): (expr, shape)"""
            out = []

            def walk(e, sh, d):
                if not isinstance(sh, list):
                    return
                if kind is None or sh[0] == kind:
                    out.append((e, sh))
                if d >= 3:
                    return
                for i, x in enumerate(sh[1:], 1):
                    if sh[0] == 'L':
                        walk(Index(e, Num(str(i))), x, d + 1)
                    else:
                        walk(Index(e, Str(x[0])), x[1], d + 1)
            if shapes[n] == 'O':
                walk(Prop(Var(n), '表'), objtab[objid[n]], 1)
            else:
                walk(Var(n), shapes[n], 0)
            return out

        def source_of(src):
            """what a copy is taken from: the variable, or a part of it"""
            if rng.random() < 0.3:
                cs = containers(src)
                if cs:
                    e, sh = rng.choice(cs)
                    if not isinstance(e, Var):
                        self.stat('copy-of-a-part')
                    return e, sh
            return Var(src), shapes[src]

        def view(e, sh):
            """an order-dependent look at one list / dictionary"""
            k = rng.random()
            self.stat('order-view-of-' + ('dictionary' if sh[0] == 'D' else 'list'))
            if sh[0] == 'D':
                if k < 0.45:
                    return ExprS(Call('显示', [Prop(e, '所有索引'), Prop(e, '所有值')]))
                if k < 0.6:
                    return ExprS(Call('显示', [Prop(e, '所有索引'), Prop(e, '长度')]))
                if k < 0.85:
                    return Iter(['键', '值'], e, [ExprS(Call('显示', [Var('键'), Var('值')]))])
                return Iter(['值'], e, [ExprS(Call('显示', [Var('值')]))])
            if k < 0.4:
                return ExprS(Call('显示', [Prop(e, '首项'), Prop(e, '末项'), Prop(e, '长度')]))
            if k < 0.6:
                return ExprS(Call('显示', [Prop(e, '逆序')]))
            return Iter(['位', '项'], e, [ExprS(Call('显示', [Var('位'), Var('项')]))])

        def pick_key(sh):
            """a present key by its place in the order (first / middle / last), now and then an absent one"""
            ks = [k for k, _ in sh[1:]]
            if ks and rng.random() < 0.88:
                c = rng.random()
                if len(ks) > 2 and 0.4 <= c < 0.75:
                    self.stat('remove-middle-key')
                    return rng.choice(ks[1:-1])
                self.stat('remove-only-key' if len(ks) == 1 else 'remove-first-key' if c < 0.75 else 'remove-last-key')
                return ks[0] if c < 0.75 else ks[-1]
            self.stat('remove-absent-key')
            return rng.choice([k for k in KEYS + ['无'] if k not in ks])

        def set_key(sh, k, vsh):
            for i in range(1, len(sh)):
                if sh[i][0] == k:
                    sh[i] = (k, vsh)       # a present key keeps its place
                    return
            sh.append((k, vsh))            # a new (or formerly removed) key goes to the end

        def stored_value(avoid):
            """what a storing method / assignment is handed: a fresh number, or a variable (what is stored is a copy of its value)"""
            # (now and then the very variable the receiver sits in: 以甲（后增：甲） stores a copy of 甲 as it was)
            self_too = rng.random() < 0.2
            cands = [n for n in names if (n != avoid or self_too) and shapes[n] != 'O' and size(shapes[n]) <= 10]
            if cands and rng.random() < 0.35:
                n = rng.choice(cands)
                self.stat('variable-stored-by-method-or-key-assignment' + ('(into itself)' if n == avoid else ''))
                return Var(n), _copy.deepcopy(shapes[n])
            return Num(str(self.fresh())), 'N'

        def dict_mut(root, pe, sh):
            k = rng.random()
            ks = [kk for kk, _ in sh[1:]]
            if k < 0.3:
                key = rng.choice(KEYS)
                v, vsh = stored_value(root) if rng.random() < 0.3 else (Num(str(self.fresh())), 'N')
                body.append(ExprS(Assign(Index(pe, Str(key)), v)))
                set_key(sh, key, vsh)
            elif k < 0.72:
                key = pick_key(sh)
                call = MCall(pe, [('移除', [Str(key)])])
                body.append(ExprS(Call('显示', [call])) if rng.random() < 0.3 else ExprS(call))
                for i in range(1, len(sh)):
                    if sh[i][0] == key:
                        sh.pop(i)
                        removed.append(key)
                        break
            else:
                c = rng.random()
                back = [x for x in removed if x not in ks]
                if c < 0.45 and back:
                    key = rng.choice(back)
                elif c < 0.65 and ks:
                    key = rng.choice(ks)
                else:
                    key = rng.choice([x for x in KEYS + ['k2', '乙'] if x not in ks])
                self.stat('write-present-key' if key in ks else 'write-back-removed-key' if key in removed else 'write-new-key')
                v, vsh = stored_value(root)
                body.append(ExprS(MCall(pe, [('写入', [Str(key), v])])))
                set_key(sh, key, vsh)

        def list_mut(root, pe, sh):
            n = len(sh) - 1
            m = rng.choice(['后增', '前增', '左移', '右移', '新增', '新增'])
            if m in ('左移', '右移'):
                body.append(ExprS(MCall(pe, [(m, [])])))
                if n > 0:
                    sh.pop(1 if m == '左移' else n)
                return
            v, vsh = stored_value(root)
            if m == '后增':
                body.append(ExprS(MCall(pe, [(m, [v])])))
                sh.append(vsh)
            elif m == '前增':
                body.append(ExprS(MCall(pe, [(m, [v])])))
                sh.insert(1, vsh)
            else:
                # the new item gets 0-based position idx: inside, first, last, past the end (= last), counted from the end
                c = rng.random()
                if c < 0.45 and n >= 2:
                    idx = rng.randint(1, n - 1)
                elif c < 0.55:
                    idx = 0
                elif c < 0.65:
                    idx = n
                elif c < 0.75:
                    idx = n + rng.randint(1, 3)
                elif c < 0.98 and n >= 1:
                    idx = -rng.randint(1, n)
                elif c >= 0.98:
                    idx = -(n + 1 + rng.randint(0, 1))     # before the first item: an index error, the program ends here
                else:
                    idx = 0
                body.append(ExprS(MCall(pe, [(rng.choice(['新增', '新增', '添加']), [v, Num(str(idx))])])))
                pos = idx if idx >= 0 else n + idx
                self.stat('insert-' + ('before-first(error)' if pos < 0 else 'first' if pos == 0 else 'inside' if pos < n else 'last'))
                if pos < 0:
                    dead[0] = True
                else:
                    sh.insert(1 + min(pos, n), vsh)

        for _ in range(rng.randint(1, 3)):
            v = self.value_expr(3)
            if rng.random() < 0.35:
                # a dictionary with enough keys for first / middle / last to differ, also below a list / a key
                ks = rng.sample(KEYS, rng.randint(3, 4))
                v = Dict([(Var(k), self.value_expr(1)) for k in ks])
                w = rng.random()
                if w < 0.25:
                    v = Arr([v, Num(rng.choice(SMALL_INTS))])
                elif w < 0.4:
                    v = Dict([(Var('k1'), Num('0')), (Var('内'), v)])
            n = new_name()
            shapes[n] = shape_of(v)
            body.append(Decl([n], v))
        if rng.random() < 0.6:
            n = new_name()
            new_object(n)
            body.append(Decl([n], New('盒', [])))
        for _ in range(steps):
            if dead[0]:
                break
            r = rng.random()
            src = rng.choice(names)
            before = len(body)
            if r < 0.08 and shapes[src] != 'O':
                # a literal that mentions a variable: 令 y = 【x，1】 / 【k = x】 / y = 【x】 (the embedded value is a copy too)
                k = rng.random()
                if k < 0.4:
                    lit, sh = Arr([Var(src), Num(str(self.fresh()))]), ['L', _copy.deepcopy(shapes[src]), 'N']
                elif k < 0.7:
                    lit, sh = Dict([(Var('a'), Var(src)), (Var('b'), Num('0'))]), ['D', ('a', _copy.deepcopy(shapes[src])), ('b', 'N')]
                else:
                    lit, sh = Arr([Arr([Var(src)])]), ['L', ['L', _copy.deepcopy(shapes[src])]]
                if rng.random() < 0.7 or len(names) < 2:
                    n = new_name()
                    bind(n, sh)
                    body.append(Decl([n], lit, const=rng.random() < 0.2))
                else:
                    dst = rng.choice([x for x in names if x != src])
                    bind(dst, sh)
                    body.append(ExprS(Assign(Var(dst), lit)))
            elif r < 0.18:      # 令 y = x / 令 y = x#1 / 令 y = 物之表 / one more object of the type
                n = new_name()
                if rng.random() < 0.12:
                    new_object(n)
                    body.append(Decl([n], New('盒', [])))
                else:
                    e, sh = source_of(src)
                    bind(n, sh, src)
                    body.append(Decl([n], e))
            elif r < 0.26:    # 令 y、z = x
                n1, n2 = new_name(), new_name()
                e, sh = source_of(src)
                bind(n1, sh, src)
                bind(n2, sh, src)
                body.append(Decl([n1, n2], e))
            elif r < 0.36:    # y = x (existing)
                dst = rng.choice(names)
                if dst != src:
                    e, sh = source_of(src)
                    bind(dst, sh, src)
                    body.append(ExprS(Assign(Var(dst), e)))
            elif r < 0.46:    # c#i = x   (element assignment stores a copy); 物之表 = x / 以物（存表：x）
                dst = rng.choice(names)
                if shapes[dst] == 'O':
                    if isinstance(shapes[src], list) and shapes[src][0] == 'D':
                        if rng.random() < 0.6:
                            body.append(ExprS(Assign(Prop(Var(dst), '表'), Var(src))))
                        else:
                            need('存表')
                            body.append(ExprS(MCall(Var(dst), [('存表', [Var(src)])])))
                        objtab[objid[dst]][:] = _copy.deepcopy(shapes[src])
                        self.stat('dictionary-assigned-to-property')
                else:
                    pe, sh = path_into(dst, True)
                    if isinstance(pe, Index) and shapes[src] != 'O' and dst != src:
                        body.append(ExprS(Assign(pe, Var(src))))
                        # shapes of dst change: recompute conservatively by marking the slot scalar-opaque
                        self._set_shape(shapes, dst, pe, shapes[src])
            elif r < 0.76:    # mutation through a path
                dst = rng.choice(names)
                aim = rng.random()
                if 0.45 <= aim < 0.7:
                    # go for a list if some variable holds one: insertion at any place, removal at either end
                    with_l = [n for n in names if containers(n, 'L')]
                    if with_l:
                        dst = rng.choice(with_l)
                        pe, sh = rng.choice(containers(dst, 'L'))
                        list_mut(dst, pe, sh)
                        body += show_all()
                        if not dead[0] and rng.random() < 0.3:
                            body.append(view(pe, sh))
                        continue
                if aim < 0.45:
                    # go for a dictionary if some variable holds one: removal / writing back / key assignment
                    with_d = [n for n in names if containers(n, 'D')]
                    if with_d:
                        dst = rng.choice(with_d)
                        pe, sh = rng.choice(containers(dst, 'D'))
                        if shapes[dst] == 'O' and isinstance(pe, Prop) and rng.random() < 0.4:
                            key = pick_key(sh)
                            need('除键')
                            body.append(ExprS(MCall(Var(dst), [('除键', [Str(key)])])))
                            for i in range(1, len(sh)):
                                if sh[i][0] == key:
                                    sh.pop(i)
                                    removed.append(key)
                                    break
                        else:
                            dict_mut(dst, pe, sh)
                        body += show_all()
                        if rng.random() < 0.5:
                            body.append(view(pe, sh))
                        continue
                if shapes[dst] == 'O':
                    k = rng.random()
                    if k < 0.3:
                        body.append(ExprS(Assign(Prop(Var(dst), '名'), Str(rng.choice(TEXTS)))))
                    elif k < 0.6:
                        body.append(ExprS(MCall(Var(dst), [('改名', [Str(rng.choice(TEXTS))])])))
                    else:
                        pe, sh = rng.choice(containers(dst))
                        (dict_mut if sh[0] == 'D' else list_mut)(dst, pe, sh)
                else:
                    pe, sh = path_into(dst, True)
                    if isinstance(sh, list) and sh[0] == 'L':
                        list_mut(dst, pe, sh)
                    elif isinstance(sh, list) and sh[0] == 'D':
                        dict_mut(dst, pe, sh)
                    elif sh == 'N' and rng.random() < 0.65:
                        # a number held by a variable or stored at any depth of a container: changed in place
                        body.append(bump(pe))
                    elif isinstance(pe, Index):
                        body.append(ExprS(Assign(pe, Num(str(self.fresh())))))
                        self._set_shape(shapes, dst, pe, 'N')
            elif r < 0.86:    # loop variable copies
                cands = [(Var(n), shapes[n]) for n in names if isinstance(shapes[n], list) and len(shapes[n]) > 1]
                if rng.random() < 0.3:
                    # what is traversed may also sit inside a variable (甲#1, 甲#“a”, 物之表)
                    cands = [x for n in names for x in containers(n) if len(x[1]) > 1] or cands
                if cands:
                    ce, csh = rng.choice(cands)
                    lv = '环%d' % self.fresh()
                    # mutate through the loop variable: the iterated collection must not change
                    elems = [x if not isinstance(x, tuple) else x[1] for x in csh[1:]]
                    muts = []
                    if all(isinstance(x, list) and x[0] == 'L' for x in elems):
                        muts.append(ExprS(MCall(Var(lv), [('后增', [Num(str(self.fresh()))])])))
                        muts.append(ExprS(MCall(Var(lv), [rng.choice([('左移', []), ('前增', [Num(str(self.fresh()))]),
                                                                      ('新增', [Num(str(self.fresh())), Num('1')])])])))
                        if all(len(x) > 1 and x[1] == 'N' for x in elems):
                            muts.append(bump(Index(Var(lv), Num('1'))))
                        if all(len(x) > 1 and isinstance(x[1], list) and x[1][0] == 'L' and len(x[1]) > 1 and x[1][1] == 'N' for x in elems):
                            muts.append(bump(Index(Index(Var(lv), Num('1')), Num('1'))))
                    elif all(isinstance(x, list) and x[0] == 'D' for x in elems):
                        muts.append(ExprS(Assign(Index(Var(lv), Str('新')), Num(str(self.fresh())))))
                        common = [k for k in KEYS if all(any(kk == k and vv == 'N' for kk, vv in x[1:]) for x in elems)]
                        if common:
                            muts.append(bump(Index(Var(lv), Str(rng.choice(common)))))
                        # a key removed from / written back into the loop variable's own dictionary (a key that comes first
                        # in one of the items at least, when there is one)
                        self.stat('loop-over-dictionaries')
                        firsts = [x[1][0] for x in elems if len(x) > 2]
                        key = rng.choice(firsts) if firsts else rng.choice(KEYS)
                        muts.append(ExprS(MCall(Var(lv), [('移除', [Str(key)])])))
                        muts.append(ExprS(MCall(Var(lv), [('移除', [Str(key)])])))      # (twice: it is the likelier choice)
                        muts.append(ExprS(MCall(Var(lv), [('写入', [Str(rng.choice(KEYS)), Num(str(self.fresh()))])])))
                    elif all(x == 'N' for x in elems):
                        muts.append(bump(Var(lv)))
                    if not muts or rng.random() < 0.15:
                        muts = [ExprS(Assign(Var(lv), Num(str(self.fresh()))))]
                    loopvars = [lv]
                    if csh[0] == 'L' and rng.random() < 0.3:
                        # two-variable form; the position handed out by the loop is a number like any other
                        iv = '位%d' % self.fresh()
                        loopvars = [iv, lv]
                        muts = [rng.choice(muts), bump(Var(iv))]
                    else:
                        muts = [rng.choice(muts)]
                    body.append(Iter(loopvars, ce, muts + [ExprS(Call('显示', [Var(v) for v in loopvars]))]))
            else:             # literals evaluated repeatedly (loop body, method called several times) must be fresh each time
                k = rng.random()
                lv = '次%d' % self.fresh()
                passes = Arr([Num(str(i)) for i in range(1, rng.randint(2, 3) + 1)])
                if k < 0.3:
                    tmp = '新%d' % self.fresh()
                    lit = rng.choice([Arr([Num('0')]), Arr([Num('0'), Arr([Num('7')])]), Dict([(Var('a'), Num('0'))]),
                                      Dict([(Var('a'), Num('0')), (Var('b'), Arr([Num('7')])), (Var('c'), Var(lv))])])
                    if isinstance(lit, Dict) and len(lit.kvs) > 1:
                        # the literal's value is bound, copied, and a key is removed through one of the two names
                        dup = '副%d' % self.fresh()
                        self.stat('literal-copied-then-key-removed(loop)')
                        who = rng.choice([tmp, dup])
                        body.append(Iter([lv], passes, [Decl([tmp], lit), Decl([dup], Var(tmp)),
                                                        ExprS(MCall(Var(who), [('移除', [Str(rng.choice(['a', 'b', 'c']))])])),
                                                        ExprS(Call('显示', [Var(tmp), Var(dup), Prop(Var(dup), '所有索引'), Prop(Var(tmp), '所有值')]))]))
                        body += show_all()
                        continue
                    if isinstance(lit, Dict):
                        mut = rng.choice([ExprS(Assign(Index(Var(tmp), Str('b')), Var(lv))), bump(Index(Var(tmp), Str('a')))])
                    else:
                        mut = rng.choice([ExprS(MCall(Var(tmp), [('后增', [Var(lv)])])), bump(Index(Var(tmp), Num('1')))] +
                                         ([bump(Index(Index(Var(tmp), Num('2')), Num('1')))] if len(lit.items) > 1 else []))
                    body.append(Iter([lv], passes, [Decl([tmp], lit), mut, ExprS(Call('显示', [Var(tmp)]))]))
                elif k < 0.75:
                    # a number literal changed in place where it stands (receiver, bumped argument, item of a literal)
                    step = Var(lv) if rng.random() < 0.3 else None
                    shown = [self.bumped_literal(step) for _ in range(rng.randint(1, 2))]
                    body.append(Iter([lv], passes, [ExprS(Call('显示', shown))]))
                else:
                    # the literals of a method body, once per call
                    f = rng.choice(['造数', '造列', '造表'])
                    if f == '造表':
                        self.stat('literal-copied-then-key-removed(method)')
                        need(f)
                    body.append(ExprS(Call('显示', [Call(f, []) for _ in range(rng.randint(2, 3))])))
            if len(body) == before:
                continue            # (a step that found nothing to do)
            body += show_all()
            if not dead[0] and rng.random() < 0.35:
                # one holder seen through an order-dependent view
                cs = [x for n in names for x in containers(n)]
                if cs:
                    body.append(view(*rng.choice(cs)))
        if not dead[0]:
            # finally: the key order of every dictionary of every holder
            ds = [x for n in names for x in containers(n, 'D')]
            rng.shuffle(ds)
            for e, sh in ds[:4]:
                body.append(ExprS(Call('显示', [Prop(e, '所有索引'), Prop(e, '所有值')])))
        return Program([], body), {}

    def _set_shape(self, shapes, root, pe, newshape):
        # walk the Index chain from the root and replace the shape at its end
        chain = []
        e = pe
        while isinstance(e, Index):
            chain.append(e.idx)
            e = e.root
        chain.reverse()
        sh = shapes[root]
        import copy
        newshape = copy.deepcopy(newshape)
        for i, idx in enumerate(chain):
            last = i == len(chain) - 1
            if isinstance(sh, list) and sh[0] == 'L':
                k = int(idx.lit)
                if last:
                    sh[k] = newshape
                else:
                    sh = sh[k]
            elif isinstance(sh, list) and sh[0] == 'D':
                key = idx.s
                for j in range(1, len(sh)):
                    if sh[j][0] == key:
                        if last:
                            sh[j] = (key, newshape)
                        else:
                            sh = sh[j][1]
                        break

    # ---- calls and objects (C08) -------------------------------------------------------------------
    def call_program(self):
        rng = self.rng
        body = [MARK]
        funcs = []   # (name, arity)
        # plain methods
        for i in range(rng.randint(1, 4)):
            ar = rng.randint(0, 3)
            fn = '算%d' % self.fresh()
            params = ['参%d' % j for j in range(ar)]
            env = {p: 'num' for p in params}
            fb = [ExprS(Call('显示', [Str(fn)] + [Var(p) for p in params]))]
            if funcs and rng.random() < 0.5:
                g, gar = rng.choice(funcs)
                fb.append(ExprS(Call('显示', [Call(g, [self.expr('num', 1, env, 0, False) for _ in range(gar)])])))
            if rng.random() < 0.8:
                fb.append(Ret(self.expr('num', 2, env, 0.0, False)))
            else:
                fb.append(ExprS(self.expr('num', 1, env, 0.0, False)))
            # some methods have a handler of their own: a call with the wrong number of arguments is the CALLER's error and runs
            # none of the callee, handler included
            hs = [('异常', [ExprS(Call('显示', [Str('内拦'), Str(fn)])), Ret(Num('-1'))])] if rng.random() < 0.35 else []
            body.append(Func(fn, params, fb, hs))
            funcs.append((fn, ar))
        # recursion
        depth = rng.choice([0, 3, 10, 50, 300])
        body.append(Func('递', ['深'], [If(Bin('le', Var('深'), Num('0')), [Ret(Num('0'))]),
                                        Ret(Bin('+', Num('1'), Call('递', [Bin('-', Var('深'), Num('1'))])))]))
        # fails `深` calls below its first caller (a thrown exception, a runtime fault or an unknown method)
        body.append(Func('坠', ['深'], [If(Bin('le', Var('深'), Num('0')),
                                          [rng.choice([Throw('异常', [Str('底')]), ExprS(Call('显示', [Bin('/', Num('1'), Num('0'))])),
                                                       ExprS(MCall(Num('1'), [('无此法', [])]))])]),
                                        Ret(Bin('+', Num('1'), Call('坠', [Bin('-', Var('深'), Num('1'))])))]))
        # recursion THROUGH AN ARGUMENT of a call with several arguments: 累(N) = （并：…、（累：N - 1）、…） with the recursive call at
        # a random argument position (the earlier arguments of the outer call are already evaluated when the same call
        # expression is entered again), the two-argument classic 阿 (Ackermann), a recursive constructor call and — below — the
        # same through methods of an object.  并 / 其并 show and combine their inputs position-sensitively.
        comb_ar = rng.randint(2, 3)
        cps_ = ['甲', '乙', '丙'][:comb_ar]
        weigh = lambda vs: Bin('+', Bin('+', Bin('*', vs[0], Num('100')), Bin('*', vs[1], Num('10'))), vs[2]) if len(vs) == 3 \
            else Bin('-', Bin('*', vs[0], Num('10')), vs[1])
        body.append(Func('并', cps_, [ExprS(Call('显示', [Str('并')] + [Var(p) for p in cps_])), Ret(weigh([Var(p) for p in cps_]))]))

        def rec_args(self_call):
            # at least one recursive call, at a random position; the other positions mention the depth or a constant
            pos = rng.randrange(comb_ar) if rng.random() < 0.25 else rng.randrange(1, comb_ar)
            out = []
            for i in range(comb_ar):
                if i == pos or rng.random() < 0.15:
                    out.append(self_call())
                else:
                    out.append(rng.choice([Var('深'), Var('深'), Bin('*', Var('深'), Num('2')), Num(rng.choice(SMALL_INTS))]))
            return out
        body.append(Func('累', ['深'], [If(Bin('le', Var('深'), Num('0')), [Ret(Num(rng.choice(['0', '1'])))]),
                                        Ret(Call('并', rec_args(lambda: Call('累', [Bin('-', Var('深'), Num('1'))]))))]))
        body.append(Func('阿', ['上', '右'], [If(Bin('eq', Var('上'), Num('0')), [Ret(Bin('+', Var('右'), Num('1')))]),
                                             If(Bin('eq', Var('右'), Num('0')), [Ret(Call('阿', [Bin('-', Var('上'), Num('1')), Num('1')]))]),
                                             Ret(Call('阿', [Bin('-', Var('上'), Num('1')), Call('阿', [Var('上'), Bin('-', Var('右'), Num('1'))])]))]))
        body.append(Class('对', [('左', Num('0')), ('右', Var('空'))], []))
        body.append(Func('对', ['初左', '初右'], [ExprS(Assign(This('左'), Var('初左'))), ExprS(Assign(This('右'), Var('初右')))], ctor=True))
        body.append(Func('串', ['深'], [If(Bin('le', Var('深'), Num('0')), [Ret(Var('空'))]),
                                        Ret(New('对', [Var('深'), Call('串', [Bin('-', Var('深'), Num('1'))])]))]))
        # a type with defaults, constructor, methods
        body.append(Class('点', [('横', Num('1')), ('竖', Arr([Num('0')])), ('下', Var('空')),
                                 ('格', Arr([Arr([Num('0'), Num('0')]), Arr([Num('0'), Num('0')])])),
                                 ('表', Dict([(Var('k'), Arr([Num('0')]))]))],
                          [Func('移', ['步'], [ExprS(Assign(This('横'), Bin('+', This('横'), Var('步')))), Ret(This('横'))]),
                           Func('叠', ['物'], [ExprS(MCall(This('竖'), [('后增', [Var('物')])])), Ret(Prop(This('竖'), '长度'))]),
                           Func('己', [], [Ret(This('自身'))]),
                           # in-place change of an element reached through a nested default
                           Func('落子', ['行', '列', '子'], [ExprS(Assign(Index(Index(This('格'), Var('行')), Var('列')), Var('子'))), Ret(This('格'))]),
                           Func('记', ['物'], [ExprS(MCall(Index(This('表'), Str('k')), [('后增', [Var('物')])])), Ret(This('表'))]),
                           # links between objects: a chain's intermediate result is ANOTHER object
                           Func('接', ['另'], [ExprS(Assign(This('下'), Var('另'))), Ret(Var('另'))]),
                           Func('取下', [], [Ret(This('下'))]),
                           Func('取横', [], [Ret(This('横'))]),
                           # a method of one object calls a method of ANOTHER object (其下) that handles a failure raised `深` calls
                           # below it; afterwards 其 is still the first object: its own 横 is read and written
                           Func('探', ['深'], [Decl(['果'], MCall(This('下'), [('守', [Var('深')])])),
                                              ExprS(Assign(This('横'), Bin('+', This('横'), Num('100')))),
                                              Ret(Arr([Var('果'), This('横')]))]),
                           Func('守', ['深'], [ExprS(Call('显示', [Str('守'), This('横')])), Ret(Call('坠', [Var('深')]))],
                                [('异常', [ExprS(Call('显示', [Str('守拦')])), Ret(Num('-1'))])]),
                           Func('并', cps_, [ExprS(Call('显示', [Str('其并')] + [Var(p) for p in cps_])),
                                            Ret(Bin('+', weigh([Var(p) for p in cps_]), This('横')))]),
                           Func('累', ['深'], [If(Bin('le', Var('深'), Num('0')), [Ret(Num('0'))]),
                                               Ret(MCall(This('自身'), [('并', rec_args(
                                                   lambda: MCall(This('自身'), [('累', [Bin('-', Var('深'), Num('1'))])])))]))])],
                          # 何为 … ？ blocks are part of the grammar (they are compiled and stored; nothing reads them: the name
                          # stays an unknown property)
                          getters=([Func('和', [], [Ret(Bin('+', This('横'), Num('1')))], getter=True)] if rng.random() < 0.4 else [])))
        if rng.random() < 0.7:
            # the constructor refuses a negative argument by throwing — directly, or one call below
            body.append(Func('验初', ['数'], [If(Bin('lt', Var('数'), Num('-50')), [Throw('异常', [Str('太负')])]), Ret(Var('数'))]))
            body.append(Func('点', ['初横'], [If(Bin('lt', Var('初横'), Num('0')), [Throw('异常', [Str('负初')])]),
                                             ExprS(Assign(This('横'), Call('验初', [Var('初横')]))), ], ctor=True))
            ctor_ar = 1
        else:
            ctor_ar = 0
        # constructs under a handler: what the handler sees is the exception the constructor threw (message included); with the wrong
        # number of arguments the construction is the caller's error as well
        body.append(Func('试建', ['数'], [Decl(['新'], New('点', [Var('数')] if ctor_ar else [])), Ret(Prop(Var('新'), '横'))],
                         [('异常', [ExprS(Call('显示', [Str('建拦'), This('内容')])), Ret(This('内容'))])]))
        main = []
        objs = []

        def show_objs():
            return ExprS(Call('显示', [Prop(Var(x), '横') for x in objs] + [Prop(Var(x), '竖') for x in objs] +
                              [Prop(Var(x), '格') for x in objs] + [Prop(Var(x), '表') for x in objs]))

        if rng.random() < 0.3:
            # two linked objects; a method of the first calls a method of the second, which handles a failure raised 0–3 calls below
            # it; the first then goes on with 其
            a, b = '体%d' % self.fresh(), '体%d' % self.fresh()
            for o in (a, b):
                main.append(Decl([o], New('点', [Num(rng.choice(SMALL_INTS)) for _ in range(ctor_ar)])))
                objs.append(o)
            main.append(ExprS(MCall(Var(a), [('接', [Var(b)])])))
            for _ in range(rng.randint(1, 2)):
                main.append(ExprS(Call('显示', [MCall(Var(a), [('探', [Num(str(rng.randint(0, 3)))])])])))
                main.append(show_objs())
        for _ in range(rng.randint(3, 9)):
            r = rng.random()
            if r < 0.3:
                fn, ar = rng.choice(funcs)
                k = ar if rng.random() < 0.85 else rng.choice([a for a in range(0, 5) if a != ar])
                args = [self.expr('num', 1, {}, 0.0, True) for _ in range(k)]
                if rng.random() < 0.3:
                    y = '果%d' % self.fresh()
                    main.append(ExprS(Call(fn, args, yld=y)))
                    main.append(ExprS(Call('显示', [Var(y)])))
                else:
                    main.append(ExprS(Call('显示', [Call(fn, args)])))
            elif r < 0.36:
                main.append(ExprS(Call('显示', [Call('递', [Num(str(depth))])])))
            elif r < 0.40:
                kk = rng.random()
                if kk < 0.7:
                    main.append(ExprS(Call('显示', [Call('试建', [Num(rng.choice(['3', '-1', '-2', '0', '-60', '-100']))])])))
                else:
                    main.append(ExprS(Call('显示', [Call('试建', [Num('1')] * rng.choice([0, 2]))])))
            elif r < 0.43:
                k = rng.random()
                if k < 0.45:
                    main.append(ExprS(Call('显示', [Call('累', [Num(str(rng.randint(0, 5)))])])))
                elif k < 0.7:
                    main.append(ExprS(Call('显示', [Call('阿', [Num(str(rng.randint(0, 2))), Num(str(rng.randint(0, 3)))])])))
                else:
                    d = rng.randint(0, 4)
                    c = '链%d' % self.fresh()
                    main.append(Decl([c], Call('串', [Num(str(d))])))
                    e, shown = Var(c), []
                    for _ in range(d):
                        shown.append(Prop(e, '左'))
                        e = Prop(e, '右')
                    main.append(ExprS(Call('显示', shown + [e])))
            elif r < 0.6:
                o = '体%d' % self.fresh()
                k = ctor_ar if rng.random() < 0.9 else ctor_ar + 1
                main.append(Decl([o], New('点', [Num(rng.choice(SMALL_INTS)) for _ in range(k)])))
                objs.append(o)
            elif objs:
                o = rng.choice(objs)
                k = rng.random()
                if k < 0.3:
                    main.append(ExprS(Call('显示', [MCall(Var(o), [('移', [Num(rng.choice(SMALL_INTS))])])])))
                elif k < 0.36:
                    main.append(ExprS(Call('显示', [MCall(Var(o), [('叠', [Num(str(self.fresh()))])])])))
                elif k < 0.42:
                    main.append(ExprS(Call('显示', [MCall(Var(o), [('累', [Num(str(rng.randint(0, 5)))])])])))
                elif k < 0.5:
                    main.append(ExprS(Call('显示', [MCall(Var(o), [('落子', [Num(str(rng.randint(1, 2))), Num(str(rng.randint(1, 2))), Num(str(self.fresh()))])]),
                                                  MCall(Var(o), [('记', [Num(str(self.fresh()))])])])))
                elif k < 0.58:
                    main.append(ExprS(Call('显示', [MCall(Var(o), [('己', []), ('移', [Num('2')])])])))
                elif k < 0.65:
                    # 得到 after a chain of two links, inside an expression: the name is bound to the chain's result
                    y = '链%d' % self.fresh()
                    main.append(Decl(['承%d' % self.fresh()], MCall(Var(o), [('己', []), ('移', [Num('3')])], yld=y)))
                    main.append(ExprS(Call('显示', [Var(y)])))
                elif k < 0.8:
                    main.append(ExprS(Call('显示', [Prop(Var(o), '横'), Prop(Var(o), '竖')])))
                elif k < 0.87 and len(objs) >= 2:
                    # link two different objects, then walk the chain: every link runs with ITS receiver as 其
                    a, b = rng.sample(objs, 2)
                    main.append(ExprS(MCall(Var(a), [('接', [Var(b)])])))
                    if rng.random() < 0.5:
                        main.append(ExprS(Call('显示', [MCall(Var(a), [('取下', []), ('取横', [])]), MCall(Var(a), [('取下', []), ('移', [Num('10')])])])))
                    else:
                        # … and a failure handled inside the other object's method, 0–3 calls below the handler
                        main.append(ExprS(Call('显示', [MCall(Var(a), [('探', [Num(str(rng.randint(0, 3)))])])])))
                elif k < 0.90:
                    # links run strictly one after the other: the second link's argument is read AFTER the first link has run
                    main.append(ExprS(Call('显示', [MCall(Var(o), [('移', [Num(rng.choice(SMALL_INTS))]), ('加', [Prop(Var(o), '横')])]),
                                                  MCall(Var(o), [('己', []), ('移', [MCall(Var(o), [('移', [Num('1')])])]), ('乘', [Prop(Var(o), '横')])])])))
                elif k < 0.93:
                    main.append(ExprS(Call('显示', [MCall(Var(o), [(rng.choice(['无此法', '移']), [])])])))
                else:
                    main.append(ExprS(Call('显示', [Prop(Var(o), rng.choice(['无此性', '横', '和']))])))
                main.append(show_objs())
            else:
                main.append(ExprS(Call('显示', [MCall(Num(rng.choice(SMALL_INTS)), [('加', [Num('1')]), ('乘', [Num('2')])])])))
        return Program([], body + main), {}

    # ---- instances of a type: own defaults, in-place changes of scalar properties (C08) --------------
    # Two input classes on which the UNCHANGED interpreter differs from the spec semantics are kept out of the random stream
    # (DESIGN §12.8, "instances" paragraph); set to True to see them:
    #  * a type's default written as a bare name (其量设为基) is stored BY REFERENCE: a later in-place change of that name
    #    (以基（自增：5）) changes the type's default, so objects created afterwards do not start from the declared default;
    INST_MUTATE_NAMES_USED_AS_DEFAULTS = True
    #  * a type defined inside a method body: the second call of that method fails (the type's name is exported twice), and a
    #    method of such an object cannot be called where the type's name is not visible (error 42).
    INST_TYPES_DEFINED_INSIDE_METHODS = False

    def inst_program(self):
        """Types whose default properties are SCALARS (numbers in every notation, numerals as texts, truth values, 空), containers,
        an object (shared by reference: 新建 copies the reference, like every copy of an object) and expressions over program
        inputs / method inputs / planted display calls; two or more instances created before and after each change; properties
        changed IN PLACE (自增 / 自减 on a number, 转换数值 on a text, on items of a default list / dictionary) without ever having
        been assigned on that object: through 其 inside a method, through `对象之属性` from outside, through a chain, through a linked
        object, by the constructor; the same with ordinary assignment as the control. After every step every property of every
        instance, of a fresh instance and the names the defaults were computed from are displayed."""
        rng = self.rng
        body = [MARK]
        ins = {}
        inputs = []
        # program inputs are the only names that exist before the (hoisted) type definitions of the program body
        base = None
        if rng.random() < 0.4:
            base = '基'
            inputs.append(base)
            ins[base] = rng.choice([2.0, -1.5, 0.0, 10.0, 0.5])
        tbase = None
        if rng.random() < 0.25:
            tbase = '文基'
            inputs.append(tbase)
            ins[tbase] = rng.choice(['3*10^2', '12', '5*^-1'])
        num_lits = ['0', '0', '1', '-3', '0.5', '10', '2*10^3', '1.5E+3', '25*^-2', '9007199254740993', '-0.5', '3.0', '+4']
        numerals = ['1*10^3', '25*^-2', '2.5*10^2', '12', '-3.5', '1*^3', '007', '0.5', '4*10^-2']

        def num_default(names):
            k = rng.random()
            if names and k < 0.3:
                n = rng.choice(names)
                return rng.choice([Var(n), Var(n), Bin('+', Var(n), Num('1')), Bin('*', Var(n), Num('2'))])
            if k < 0.4:
                return Call('记', [Str('初%d' % self.fresh()), Num(rng.choice(num_lits))])     # evaluated once, when the type is defined
            if k < 0.47:
                return MCall(Num(rng.choice(SMALL_INTS)), [(rng.choice(['自增', '自减']), [Num(rng.choice(SMALL_INTS))])])
            if k < 0.52:
                return Bin(rng.choice(['+', '-', '*']), Num(rng.choice(SMALL_INTS)), Num(rng.choice(SMALL_INTS)))
            return Num(rng.choice(num_lits))

        CORE = '芯'
        body.append(Class(CORE, [('值', Num(rng.choice(['7', '0', '-1'])))],
                          [Func('增', ['步'], [ExprS(MCall(This('值'), [('自增', [Var('步')])])), Ret(This('值'))])]))
        types = {}     # name -> dict(ctor=kind, core=bool, made_by=None | factory method)

        def make_type(name, names, tnames):
            """(class statement, constructor statement or None, description)"""
            core = rng.random() < 0.6
            props = [('量', num_default(names)),
                     ('码', Var(rng.choice(tnames)) if tnames and rng.random() < 0.4 else Str(rng.choice(numerals))),
                     ('旗', rng.choice([Var('真'), Var('假'), Bin('gt', Num(rng.choice(SMALL_INTS)), Num('0'))])),
                     ('虚', Var('空')),
                     ('列', Arr([num_default(names) if rng.random() < 0.3 else Num(rng.choice(SMALL_INTS)) for _ in range(rng.randint(1, 3))])),
                     ('典', Dict([(Var('a'), Num(rng.choice(SMALL_INTS))), (Var('b'), Str(rng.choice(numerals)))])),
                     ('伴', Var('空')),
                     ('芯', New(CORE, []) if core else Var('空'))]
            rng.shuffle(props)
            in_place = lambda p, m, a: ExprS(MCall(p, [(m, a)]))
            methods = [
                # in place, through 其; the value of the call is the value of the last statement
                Func('增', ['步'], [in_place(This('量'), '自增', [Var('步')]), Ret(This('量'))]),
                Func('减', ['步'], [in_place(This('量'), '自减', [Var('步')])]),
                # the ordinary ways: a new number is stored
                Func('改量', ['数'], [ExprS(Assign(This('量'), Var('数'))), Ret(This('量'))]),
                Func('加量', ['步'], [ExprS(Assign(This('量'), Bin('+', This('量'), Var('步')))), Ret(This('量'))]),
                Func('读码', [], [Ret(MCall(This('码'), [('转换数值', [])]))]),
                Func('翻旗', [], [ExprS(Assign(This('旗'), Bin('xeq', This('旗'), Var('假')))), Ret(This('旗'))]),
                Func('增列', ['位', '步'], [in_place(Index(This('列'), Var('位')), '自增', [Var('步')]), Ret(This('列'))]),
                Func('添列', ['物'], [in_place(This('列'), '后增', [Var('物')]), Ret(Prop(This('列'), '长度'))]),
                Func('增典', ['步'], [in_place(Index(This('典'), Str('a')), '自增', [Var('步')]),
                                      in_place(Index(This('典'), Str('b')), '转换数值', []), Ret(This('典'))]),
                Func('己', [], [Ret(This('自身'))]),
                Func('伴者', [], [Ret(This('伴'))]),
                Func('接', ['另'], [ExprS(Assign(This('伴'), Var('另'))), Ret(Var('另'))]),
                # a method of one object changes ANOTHER object in place, then reads its own property
                Func('传增', ['步'], [ExprS(Call('显示', [Str('传'), MCall(This('伴'), [('增', [Var('步')])])])), Ret(This('量'))]),
                Func('全增', ['步'], [ExprS(MCall(This('自身'), [('增', [Var('步')])])), Ret(MCall(This('自身'), [('己', []), ('增', [Var('步')])]))]),
                Func('芯增', ['步'], [in_place(Prop(This('芯'), '值'), '自增', [Var('步')]), Ret(Prop(This('芯'), '值'))]),
                Func('虚增', ['步'], [in_place(This('虚'), '自增', [Var('步')]), Ret(This('虚'))])]
            rng.shuffle(methods)
            cls = Class(name, props, methods)
            ck = rng.choice(['none', 'none', 'assign', 'bump', 'bump', 'bump-all', 'partial'])
            cb = {'assign': [ExprS(Assign(This('量'), Var('初')))],
                  'bump': [in_place(This('量'), '自增', [Var('初')])],
                  'bump-all': [in_place(This('量'), '自减', [Var('初')]), in_place(This('码'), '转换数值', []),
                               in_place(Index(This('列'), Num('1')), '自增', [Var('初')]), in_place(Index(This('典'), Str('a')), '自增', [Var('初')])],
                  'partial': [If(Bin('gt', Var('初'), Num('0')), [ExprS(Assign(This('量'), Var('初')))],
                                 els=[in_place(This('量'), '自减', [Num('1')])])]}.get(ck)
            ctor = Func(name, ['初'], cb, ctor=True) if cb else None
            types[name] = {'ctor': ck, 'core': core, 'factory': None}
            return cls, ctor

        names = [base] if base else []
        tnames = [tbase] if tbase else []
        cls, ctor = make_type('柜', names, tnames)
        body.append(cls)
        if ctor:
            body.append(ctor)
        if rng.random() < 0.45:
            if self.INST_TYPES_DEFINED_INSIDE_METHODS and rng.random() < 0.45:
                # the type is defined inside a method: its defaults mention the method's own input
                cls, ctor = make_type('箱', ['底'], [])
                body.append(Func('造箱', ['底', '初'], [cls] + ([ctor] if ctor else []) +
                                 [Ret(New('箱', [Var('初')] if ctor else []))]))
                types['箱']['factory'] = '造箱'
            else:
                cls, ctor = make_type('箱', names, tnames)
                body.append(cls)
                if ctor:
                    body.append(ctor)
        main = []
        objs = []      # (variable, type)
        link = {}      # variable -> variable its 伴 holds
        faults = [1] if rng.random() < 0.05 else []      # at most one deliberate error (it ends the program)
        own_core = set()
        assigned_null = set()

        def new_expr(t):
            d = types[t]
            a = [Num(rng.choice(['1', '2', '5', '-2', '0']))] if d['ctor'] != 'none' else []
            if a and objs and rng.random() < 0.15:
                a = [Prop(Var(rng.choice(objs)[0]), '量')]      # the constructor's argument is another instance's property
            if d['ctor'] != 'none' and faults and rng.random() < 0.1:
                faults.pop()
                a = rng.choice([[], a + [Num('9')]])       # a wrong number of arguments for a declared constructor
            if d['factory']:
                return Call(d['factory'], [rng.choice([Num(rng.choice(SMALL_INTS))] + [Var(n) for n in names])] + (a[:1] or [Num('0')]))
            return New(t, a)

        def create():
            o = '件%d' % self.fresh()
            t = rng.choice(list(types))
            main.append(Decl([o], new_expr(t)))
            objs.append((o, t))

        ALL = ['量', '码', '旗', '虚', '列', '典']

        def show_all(touched=()):
            # the properties the last step could have reached, 量, and some of the others — of EVERY instance
            ps_ = [p for p in ALL if p == '量' or p in touched or rng.random() < 0.3]
            fs = []
            for o, t in objs:
                fs += [Prop(Var(o), p) for p in ps_]
                if (types[t]['core'] or o in own_core) and ('芯' in touched or rng.random() < 0.4):
                    fs.append(Prop(Prop(Var(o), '芯'), '值'))
            main.append(ExprS(Call('显示', fs)))
            # a fresh instance of every type starts from the declared defaults, whatever happened to the others
            for t, d in types.items():
                if rng.random() < (0.7 if d['factory'] is None else 0.3):
                    q = rng.choice([p for p in ps_ if p != '虚'])
                    main.append(ExprS(Call('显示', [Str('新'), Prop(new_expr(t), '量')] + ([Prop(new_expr(t), q)] if q != '量' else []))))
            if (names or tnames) and rng.random() < 0.5:
                main.append(ExprS(Call('显示', [Var(n) for n in names + tnames])))

        for _ in range(rng.randint(2, 3)):
            create()
        if rng.random() < 0.5:
            show_all(ALL)
        step = lambda: Num(rng.choice(['1', '2', '3', '10', '-1', '0.5']))
        for _ in range(rng.randint(3, 8)):
            o, t = rng.choice(objs)
            k = rng.random()
            shown = None
            touched = ('量',) if k < 0.38 else ('码',) if k < 0.45 else ('列', '典') if k < 0.52 else ('量', '码') if k < 0.72 else \
                ('量', '码', '列', '旗') if k < 0.80 else ('芯',) if k < 0.88 else ('虚',)
            if k < 0.10:
                create()
            elif k < 0.13 and self.INST_MUTATE_NAMES_USED_AS_DEFAULTS and names:
                shown = MCall(Var(rng.choice(names)), [(rng.choice(['自增', '自减']), [step()])])
            elif k < 0.26:
                shown = MCall(Var(o), [(rng.choice(['增', '增', '减']), [step()])])
            elif k < 0.38:
                # from outside, on the property itself
                shown = MCall(Prop(Var(o), '量'), [(rng.choice(['自增', '自减']), [step()])])
            elif k < 0.45:
                shown = rng.choice([MCall(Var(o), [('读码', [])]), MCall(Prop(Var(o), '码'), [('转换数值', [])])])
            elif k < 0.52:
                shown = rng.choice([MCall(Var(o), [('增列', [Num('1'), step()])]), MCall(Index(Prop(Var(o), '列'), Num('1')), [('自增', [step()])]),
                                    MCall(Var(o), [('添列', [step()])]), MCall(Var(o), [('增典', [step()])]),
                                    MCall(Index(Prop(Var(o), '典'), Str('a')), [('自减', [step()])]),
                                    MCall(Index(Prop(Var(o), '典'), Str('b')), [('转换数值', [])])])
            elif k < 0.60:
                # through a chain: the first link yields the object itself
                shown = rng.choice([MCall(Var(o), [('己', []), (rng.choice(['增', '减']), [step()])]),
                                    MCall(Var(o), [('全增', [step()])]),
                                    MCall(Var(o), [('己', []), ('己', []), ('读码', [])])])
            elif k < 0.72:
                # through a linked object
                if link and rng.random() < 0.6:
                    o = rng.choice(sorted(link))
                if o not in link or rng.random() < 0.25:
                    p = rng.choice(objs)[0]
                    link[o] = p
                    shown = MCall(Var(o), [('接', [Var(p)]), ('增', [step()])])
                else:
                    shown = rng.choice([MCall(Var(o), [('伴者', []), ('增', [step()])]), MCall(Var(o), [('传增', [step()])]),
                                        MCall(Prop(Prop(Var(o), '伴'), '量'), [('自增', [step()])]),
                                        MCall(Prop(Var(o), '伴'), [('减', [step()])])])
            elif k < 0.75 and len(objs) >= 2:
                # a value taken from ANOTHER instance's property (by assignment, as an argument) is a copy: the source is then
                # changed in place
                p = rng.choice([x for x, _ in objs if x != o])
                f, m, a = rng.choice([('量', '自增', [step()]), ('量', '自减', [step()]), ('码', '转换数值', [])])
                main.append(ExprS(rng.choice([Assign(Prop(Var(o), f), Prop(Var(p), f)), Assign(Prop(Var(o), f), Prop(Var(p), f)),
                                              Call('显示', [MCall(Var(o), [('改量', [Prop(Var(p), '量')])])])])))
                shown = MCall(Prop(Var(rng.choice([o, p, p])), f), [(m, a)])
            elif k < 0.80:
                # the ordinary ways (control): a new value is stored in this object only
                p = rng.choice(objs)[0]
                shown = rng.choice([MCall(Var(o), [('改量', [step()])]), MCall(Var(o), [('加量', [step()])]),
                                    Assign(Prop(Var(o), '量'), step()), Assign(Prop(Var(o), '量'), Prop(Var(p), '量')),
                                    Assign(Prop(Var(o), '码'), Prop(Var(p), '码')), Assign(Prop(Var(o), '列'), Prop(Var(p), '列')),
                                    MCall(Var(o), [('翻旗', [])]), Assign(Prop(Var(o), '旗'), Var(rng.choice(['真', '假']))),
                                    Assign(Prop(Var(o), '码'), Str(rng.choice(numerals)))])
            elif k < 0.88:
                # the object default: one 芯 for all instances of the type, until an instance is given its own
                if types[t]['core'] or o in own_core:
                    if rng.random() < 0.3:
                        own_core.add(o)
                        shown = Assign(Prop(Var(o), '芯'), New(CORE, []))
                    else:
                        shown = rng.choice([MCall(Var(o), [('芯增', [step()])]), MCall(Prop(Prop(Var(o), '芯'), '值'), [('自增', [step()])]),
                                            MCall(Prop(Var(o), '芯'), [('增', [step()])])])
                else:
                    own_core.add(o)
                    shown = Assign(Prop(Var(o), '芯'), New(CORE, []))
            elif not faults or k < 0.97:
                # 空 by default, a number once assigned
                if o in assigned_null:
                    shown = rng.choice([MCall(Var(o), [('虚增', [step()])]), MCall(Prop(Var(o), '虚'), [('自增', [step()])])])
                else:
                    assigned_null.add(o)
                    shown = Assign(Prop(Var(o), '虚'), step())
            else:
                faults.pop()
                shown = rng.choice([Prop(Var(o), '无此性'), MCall(Var(o), [('无此法', [])]), MCall(Var(o), [('增', [])]),
                                    MCall(Var(o), [('增', [step(), step()])]), Assign(Prop(Var(o), '无此性'), step())])
            if shown is not None:
                main.append(ExprS(Call('显示', [shown])) if not isinstance(shown, Assign) else ExprS(shown))
            show_all(touched)
        # the types keep the methods the program uses (and what those use) plus a few of the others
        text = Program([], main).render(rng)[0]
        for st in body:
            for c in ([st] if isinstance(st, Class) else [x for x in getattr(st, 'body', []) if isinstance(x, Class)]):
                if c.name == CORE:
                    continue
                used = {m.name for m in c.methods if '（' + m.name in text}
                used |= {'增'} if used & {'传增', '全增'} else set()
                used |= {'己'} if '全增' in used else set()
                c.methods = [m for m in c.methods if m.name in used or rng.random() < 0.15]
        return Program(inputs, body + main), ins

    # ---- exceptions (C09) --------------------------------------------------------------------------
    def fault_stmt(self):
        """returns (statement, is_thrown_exception_with_known_message)"""
        rng = self.rng
        k = rng.random()
        if k < 0.25:
            return Throw('异常', [Str('误%d' % self.fresh())]), True
        if k < 0.37:
            return ExprS(Call('显示', [Bin('/', Num('1'), Num('0'))])), False
        if k < 0.49:
            return ExprS(Call('显示', [Index(Arr([Num('1')]), Num('5'))])), False
        if k < 0.59:
            return ExprS(Call('显示', [Var('未定名')])), False
        if k < 0.74:
            return Throw('自定错', [Str('文%d' % self.fresh())]), True
        if k < 0.84:
            # a failing built-in method: the frame on top when it fails is a native one
            return ExprS(Call('显示', [MCall(Num('100'), [('除', [Num('0')])])])), False
        if k < 0.92:
            # the raise point is a DECLARATION of the body (a type whose default faults): declarations run first, and their faults
            # belong to the body's handlers like any other
            return Class('盒%d' % self.fresh(), [('每份', Bin('/', Num('100'), Num('0')))], []), False
        return ExprS(MCall(Num('1'), [('无此法', [])])), False

    def exc_program(self):
        rng = self.rng
        body = [Class('自定错', [('内容', Str(''))], []),
                Func('自定错', ['话'], [ExprS(Assign(This('内容'), Var('话')))], ctor=True)]
        depth = rng.choice([1, 2, 2, 3, 3, 4, 4, 5])
        fault_at = rng.randint(1, depth) if rng.random() < 0.6 else depth
        handler_at = rng.choice([0, 0] + list(range(1, depth + 1)) + [None])
        hcls = rng.choice(['异常', '异常', '自定错'])
        names = ['层%d' % i for i in range(1, depth + 1)]
        fstmt, known_msg = self.fault_stmt()
        # some levels are methods of objects (receiver 体i, an instance of 户 named 名i): after the level below has returned — because
        # an exception was handled somewhere below — 其 is still this level's receiver (read and written after the call)
        objmode = rng.random() < 0.5
        is_meth = [False] + [objmode and rng.random() < 0.65 for _ in range(depth)]     # index = level
        # a handler that itself raises (log and re-throw); the re-raised exception may be taken by a handler further out
        rethrow = handler_at is not None and handler_at >= 1 and rng.random() < 0.45
        outer_at = rng.choice(list(range(1, handler_at)) * 2 + [0, None]) if rethrow else None
        ocls = rng.choice(['异常', '异常', '自定错'])
        if rethrow:
            fault_at = rng.randint(handler_at, depth)
            if rng.random() < 0.7:
                # mostly: the inner handler matches what reaches it
                hcls = '自定错' if isinstance(fstmt, Throw) and fstmt.cls == '自定错' else '异常'

        # … and some levels are constructors (如何新建建i？): an exception thrown in a constructor body — or anywhere below it — crosses the
        # 新建 boundary as itself (type and message)
        is_ctor = [False] + [(not is_meth[i]) and rng.random() < 0.2 for i in range(1, depth + 1)]

        def call_level(j, arg):
            if is_meth[j]:
                return MCall(Var('体%d' % j), [(names[j - 1], [arg])])
            if is_ctor[j]:
                return Prop(New('建%d' % j, [arg]), '值')
            return Call(names[j - 1], [arg])

        def handler_tail(hb, i):
            k = rng.random()
            if k < 0.4:
                hb.append(Ret(Num(str(100 + i))))
            elif k < 0.6:
                # no 输出: the body's value is 空 whatever the last statement yields
                hb.append(Decl(['次'], Num('1')))
                hb.append(ExprS(Assign(Var('次'), Bin('+', Var('次'), Num('1')))))
            elif k < 0.75:
                hb.append(ExprS(Bin('+', Num('40'), Num(str(i)))))
            elif k < 0.85:
                hb.append(ExprS(Call('递补', [])))

        funcs, meths = [], []
        for i in range(depth, 0, -1):
            # every level has a parameter 参 and a local 内i; the caller owns variables of the same names
            fb = [Decl(['内%d' % i], Bin('+', Var('参'), Num(str(i)))), ExprS(Call('显示', [Str('入%d' % i), Var('参')]))]
            inner = []
            if i == fault_at:
                inner.append(fstmt)
            elif i < depth:
                inner.append(ExprS(Call('显示', [call_level(i + 1, Num(str(10 + i)))])))
            k = rng.random()
            if k < 0.25:
                c = '计%d' % self.fresh()
                fb.append(Decl([c], Num('0')))
                fb.append(While(Bin('lt', Var(c), Num('2')),
                                [ExprS(Assign(Var(c), Bin('+', Var(c), Num('1'))))] + inner))
            elif k < 0.5:
                fb.append(If(Var('真'), inner or [ExprS(Call('显示', [Num('0')]))]))
            elif k < 0.75:
                lv = '项%d' % self.fresh()
                fb.append(Iter([lv], Arr([Num('1'), Num('2')]), [ExprS(Call('显示', [Var(lv)]))] + inner))
            else:
                fb += inner
            if is_meth[i]:
                fb.append(ExprS(Call('显示', [Str('出%d' % i), This('名')])))
                fb.append(ExprS(Assign(This('次'), Bin('+', This('次'), Num('1')))))
            else:
                fb.append(ExprS(Call('显示', [Str('出%d' % i)])))
            if is_ctor[i]:
                fb.append(ExprS(Assign(This('值'), Num(str(10 * i)))))
            else:
                fb.append(Ret(Num(str(10 * i))))
            catches = []
            if handler_at == i:
                hb = [ExprS(Call('显示', [Str('拦%d' % i)]))]
                if known_msg and rng.random() < 0.6:
                    hb.append(ExprS(Call('显示', [This('内容')])))
                if rethrow:
                    k = rng.random()
                    if k < 0.45:
                        hb.append(Throw('异常', [Str('再%d' % i)]))
                    elif k < 0.65:
                        hb.append(Throw('自定错', [Str('再文%d' % i)]))
                    elif k < 0.8:
                        hb.append(ExprS(Call('显示', [Bin('/', Num('1'), Num('0'))])))
                    else:
                        hb.append(ExprS(Call('显示', [Call('必败', [])])))
                else:
                    handler_tail(hb, i)
                catches.append((hcls, hb))
                if rng.random() < 0.3:
                    catches.insert(0, ('自定错' if hcls == '异常' else '异常', [ExprS(Call('显示', [Str('另')])), Ret(Num('-1'))]))
            elif outer_at == i:
                hb = [ExprS(Call('显示', [Str('外拦%d' % i)]))]
                handler_tail(hb, i)
                catches.append((ocls, hb))
            if is_ctor[i]:
                funcs.append(Class('建%d' % i, [('值', Num('0'))], []))
                funcs.append(Func('建%d' % i, ['参'], fb, catches, ctor=True))
            else:
                (meths if is_meth[i] else funcs).append(Func(names[i - 1], ['参'], fb, catches))
        if any(is_meth):
            body.append(Class('户', [('名', Str('无')), ('次', Num('0'))], meths))
        body += funcs
        body.append(Func('递补', [], [Ret(Num('77'))]))
        body.append(Func('必败', [], [Throw('异常', [Str('败')])]))
        # the caller owns names equal to the callees' parameter and locals
        main = [Decl(['外'], Num('7')), Decl(['参'], Num('5'))]
        objs = ['体%d' % i for i in range(1, depth + 1) if is_meth[i]]
        for i in range(1, depth + 1):
            if is_meth[i]:
                main.append(Decl(['体%d' % i], New('户', [])))
                main.append(ExprS(Assign(Prop(Var('体%d' % i), '名'), Str('名%d' % i))))
        if rng.random() < 0.5:
            main.append(Decl(['内1'], Num('50')))
            own_inner = True
        else:
            own_inner = False
        call = Decl(['得'], call_level(1, Num('3')))
        if rng.random() < 0.3:
            main.append(Iter(['回'], Arr([Num('1'), Num('2')]), [ExprS(Call('显示', [call_level(1, Var('回'))]))]))
        else:
            main.append(call)
            main.append(ExprS(Call('显示', [Var('得'), Var('外')])))
        main.append(ExprS(Call('显示', [Str('续')])))
        # after the (possibly handled) exception the caller's own names are what they were
        main.append(ExprS(Assign(Var('参'), Bin('+', Var('参'), Num('1')))))
        main.append(ExprS(Call('显示', [Var('参')])))
        if own_inner:
            main.append(ExprS(Assign(Var('内1'), Bin('+', Var('内1'), Num('1')))))
            main.append(ExprS(Call('显示', [Var('内1')])))
        else:
            main.append(Decl(['内1'], Num('99')))   # not a redeclaration: the callee's 内1 is gone
            main.append(ExprS(Call('显示', [Var('内1')])))
        if rng.random() < 0.4:
            main.append(ExprS(Call('显示', [call_level(1, Num('4'))])))
        if objs:
            # every object as the calls left it: each level touched its own receiver only
            main.append(ExprS(Call('显示', [Prop(Var(o), '名') for o in objs] + [Prop(Var(o), '次') for o in objs])))
        if rng.random() < 0.15:
            # the program body has no receiver, whatever was called before
            main.append(ExprS(Call('显示', [This('名')])))
        catches = []
        if handler_at == 0 or outer_at == 0:
            hb = [ExprS(Call('显示', [Str('主拦')]))]
            if rng.random() < 0.6:
                hb.append(Ret(Num('55')))
            else:
                hb.append(ExprS(Bin('+', Num('1'), Num('2'))))
            catches.append((hcls if handler_at == 0 else ocls, hb))
        return Program([], body + main, catches), {}

    # ---- collections through the interpreter (C12 program stream) ------------------------------------
    def coll_program(self, steps):
        """one list and one dictionary (and copies of them) driven through Zn syntax: every mutating and observing
        member, indexed/keyed reads and writes (also out of range / missing), 遍历 traces, 所有索引/所有值, display"""
        rng = self.rng

        def val():
            k = rng.random()
            if k < 0.5:
                return Num(rng.choice(SMALL_INTS))
            if k < 0.65:
                return Str(rng.choice(TEXTS))
            if k < 0.7:
                return Str(rng.choice(ML_TEXTS))
            if k < 0.85:
                return Var('空')
            return Var(rng.choice(['真', '假']))

        lists, dicts = ['列'], ['典']
        n0 = rng.randint(0, 3)
        k0 = rng.sample(KEYS, rng.randint(0, 3))
        body = [Decl(['列'], Arr([val() for _ in range(n0)])),
                Decl(['典'], Dict([(Str(k), val()) for k in k0]))]
        ln = {'列': n0}
        ks = {'典': list(k0)}
        if rng.random() < 0.3:
            # 包含 / 寻找 compare whole values: a stored dictionary with FEWER (or more) keys than the one looked for is another
            # dictionary, the order of keys does not matter, nested values count
            def dlit():
                kk = rng.sample(['a', 'b', 'c'], rng.randint(0, 3))
                return Dict([(Var(k), rng.choice([Num('1'), Num('2'), Arr([Num('1')]), Dict([(Var('a'), Num('1'))])])) for k in kk])
            stored = [dlit() for _ in range(rng.randint(2, 4))]
            body.append(Decl(['群'], Arr(stored)))
            probes = [dlit() for _ in range(2)]
            base = rng.choice(stored)
            if base.kvs:
                probes.append(Dict(base.kvs + [(Var('z'), Num('9'))]))            # a superset of a stored one
                probes.append(Dict(base.kvs[:-1]))                               # a subset
                probes.append(Dict(list(reversed(base.kvs))))                    # the same content in another order
            for pr in probes:
                body.append(ExprS(Call('显示', [MCall(Var('群'), [('寻找', [pr])]), MCall(Var('群'), [('包含', [pr])])])))

        def observe():
            out = []
            for l in lists:
                out.append(ExprS(Call('显示', [Var(l), Prop(Var(l), '长度'), Prop(Var(l), '首项'), Prop(Var(l), '末项')])))
            for d in dicts:
                out.append(ExprS(Call('显示', [Var(d), Prop(Var(d), '长度'), Prop(Var(d), '所有索引'), Prop(Var(d), '所有值')])))
            return out

        def idx(l):
            # mostly a valid 1-based position, sometimes 0 / beyond the end
            if ln[l] > 0 and rng.random() < 0.88:
                return rng.randint(1, ln[l])
            return rng.choice([0, ln[l] + 1, ln[l] + 3])

        def key(d, want_present):
            if ks[d] and (want_present or rng.random() < 0.5):
                return rng.choice(ks[d])
            return rng.choice(KEYS)

        dead = False
        for _ in range(steps):
            if dead:
                break
            r = rng.random()
            l, d = rng.choice(lists), rng.choice(dicts)
            if r < 0.12:
                body.append(ExprS(MCall(Var(l), [(rng.choice(['后增', '前增']), [val()])])))
                ln[l] += 1
            elif r < 0.2:
                body.append(ExprS(Call('显示', [MCall(Var(l), [(rng.choice(['左移', '右移']), [])])])))
                ln[l] = max(0, ln[l] - 1)
            elif r < 0.26:
                i, j = idx(l), idx(l)
                body.append(ExprS(MCall(Var(l), [('交换', [Num(str(i)), Num(str(j))])])))
                dead = not (1 <= i <= ln[l] and 1 <= j <= ln[l])
            elif r < 0.32:
                i = idx(l)
                body.append(ExprS(Assign(Index(Var(l), Num(str(i))), val())))
                dead = not (1 <= i <= ln[l])
            elif r < 0.38:
                i = idx(l)
                body.append(ExprS(Call('显示', [Index(Var(l), Num(str(i)))])))
                dead = not (1 <= i <= ln[l])
            elif r < 0.44:
                body.append(ExprS(Call('显示', [MCall(Var(l), [(rng.choice(['包含', '寻找']), [val()])]), Prop(Var(l), '逆序')])))
            elif r < 0.5:
                o = rng.choice(lists)
                body.append(ExprS(MCall(Var(l), [('合并', [Arr([val()]), Var(o)])])))
                ln[l] += 1 + ln[o]
            elif r < 0.62:
                k = key(d, False)
                body.append(ExprS(Assign(Index(Var(d), Str(k)), val())))
                if k not in ks[d]:
                    ks[d].append(k)
            elif r < 0.7:
                k = key(d, False)
                body.append(ExprS(Call('显示', [MCall(Var(d), [('移除', [Str(k)])])])))
                if k in ks[d]:
                    ks[d].remove(k)
            elif r < 0.76:
                k = key(d, rng.random() < 0.85)
                body.append(ExprS(Call('显示', [Index(Var(d), Str(k))])))
                dead = k not in ks[d]
            elif r < 0.8:
                body.append(ExprS(Call('显示', [MCall(Var(d), [('读取', [Str(key(d, False))])])])))
            elif r < 0.84:
                k = key(d, False)
                body.append(ExprS(MCall(Var(d), [('写入', [Str(k), val()])])))
                if k not in ks[d]:
                    ks[d].append(k)
            elif r < 0.9:
                # copies: later changes through one name never show through the other
                if rng.random() < 0.3:
                    n, n2 = '列%d' % self.fresh(), '列%d' % self.fresh()
                    body.append(Decl([n, n2], Var(l)))      # each name its own copy
                    lists += [n, n2]
                    ln[n] = ln[n2] = ln[l]
                elif rng.random() < 0.5:
                    n = '列%d' % self.fresh()
                    body.append(Decl([n], Var(l)))
                    lists.append(n)
                    ln[n] = ln[l]
                else:
                    n = '典%d' % self.fresh()
                    body.append(Decl([n], Var(d)))
                    dicts.append(n)
                    ks[n] = list(ks[d])
            elif r < 0.93:
                body.append(Iter(['键', '值'], Var(d), [ExprS(Call('显示', [Var('键'), Var('值')]))]))
            elif r < 0.96:
                body.append(Iter(['序', '项'], Var(l), [ExprS(Call('显示', [Var('序'), Var('项')]))]))
            elif r < 0.985:
                # the loop body changes the very list that is being traversed: the passes are those of the list as it was when the
                # loop started (positions 1..n, its items in order), and afterwards the list is what the body's operations made of
                # it.  One body either only removes or only adds (a body that does both can write a new item into a place the
                # traversal has not visited yet: which item that pass then sees is not fixed by the property).
                n = ln[l]
                when = rng.randint(1, n + 1) if rng.random() < 0.6 else None     # only in that pass / in every pass
                times = n if when is None else (1 if when <= n else 0)
                if rng.random() < 0.5:
                    op = ExprS(Call('显示', [MCall(Var(l), [(rng.choice(['左移', '右移']), [])])]))
                    ln[l] = max(0, n - times)
                else:
                    k = rng.random()
                    if k < 0.7:
                        op = ExprS(MCall(Var(l), [(rng.choice(['后增', '前增']), [val() if rng.random() < 0.5 else Var('项')])]))
                        ln[l] = n + times
                    else:
                        op = ExprS(MCall(Var(l), [('合并', [Arr([val(), Var('序')])])]))
                        ln[l] = n + 2 * times
                inner = [op] if when is None else [If(Bin('eq', Var('序'), Num(str(when))), [op])]
                body.append(Iter(['序', '项'], Var(l), [ExprS(Call('显示', [Var('序'), Var('项')]))] + inner +
                                 [ExprS(Call('显示', [Prop(Var(l), '长度')]))]))
            else:
                # the dictionary analogue: new keys written into the traversed dictionary are appended after its present keys and
                # are not visited by the running loop
                tag = '+%d' % self.fresh()
                body.append(Iter(['键', '值'], Var(d), [ExprS(Call('显示', [Var('键'), Var('值')])),
                                                       ExprS(MCall(Var(d), [('写入', [MCall(Var('键'), [('拼接', [Str(tag)])]), Var('值')])])),
                                                       ExprS(Call('显示', [Prop(Var(d), '长度')]))]))
                ks[d] += [k + tag for k in ks[d]]
            body += observe()
        return Program([], body), {}

    # ---- text methods (C14 / C10) -------------------------------------------------------------------
    def text_program(self, steps):
        """texts held by variables, inputs and literals go through the text members — 长度 字数 文本 字符组, 替换 分隔 匹配 匹配开头
        匹配结尾 取样 去除空格 转小写-英文 转大写-英文 拼接 格式化 转换数值 — with well-typed arguments mostly, ill-typed and miscounted ones
        now and then; results are displayed, bound to names and fed to later calls (also as chains 以X（…）、（…）); 转换数值 on a
        variable is followed by a display of that variable (it rewrites `*^` / `*10^` in its receiver); the exceptions of 取样 and
        转换数值 end the program or are taken by a 拦截异常 handler of the program"""
        rng = self.rng
        LIT = ['', 'a', 'ab', 'abc', 'aXbXc', 'Hello World', 'ABCxyz', '  a b  ', 'a,b,,c', '你好', '你好，世界', '甲乙丙丁', 'a你b好', '😀x😀', 'é',
               '１２', 'aaa', 'abab', '{#1}-{#2}', '{#2}{#1}{#3}', '12', '-3.5', '1*^3', '2.5*10^2', '1e3', '1e', 'x1', '0.5', '+7', '.5', '　全角　',
               '\t缩进', 'Ｚ', 'zZ@[`{']
        SEPS = ['', ',', 'X', 'a', 'b', '你', '，', 'ab', '😀', ' ', 'aa', '好，', '-']
        texts, nums = [], []
        body, inputs, ins = [], [], {}
        for n, v in (('入甲', ' \u3000a b\u00a0\t'), ('入乙', '“引”`号`'), ('入丙', '6.02*10^23'), ('入丁', 'A你B好C')):
            if rng.random() < 0.4:
                inputs.append(n)
                ins[n] = v
                texts.append(n)
        for i in range(rng.randint(1, 3)):
            n = '文%d' % self.fresh()
            body.append(Decl([n], Str(rng.choice(LIT))))
            texts.append(n)
        if rng.random() < 0.5:
            body.append(Decl(['数'], Num(rng.choice(['1', '2', '-1', '0', '3', '2.5']))))
            nums.append('数')

        def text(depth=1):
            k = rng.random()
            if k < 0.45:
                return Var(rng.choice(texts))
            if k < 0.8 or depth <= 0:
                return Str(rng.choice(LIT))
            return pure_call(depth - 1)

        def sep():
            return Str(rng.choice(SEPS)) if rng.random() < 0.8 else text(0)

        def num():
            k = rng.random()
            if nums and k < 0.2:
                return Var(rng.choice(nums))
            if k < 0.3:
                return Prop(text(0), rng.choice(['长度', '字数']))
            return Num(rng.choice(['1', '2', '3', '-1', '-2', '0', '4', '7', '-9', '1.5', '2.9']))

        def wrong():
            return rng.choice([Num('1'), Var('真'), Var('空'), Arr([Str('a')]), Dict([(Var('a'), Str('a'))])])

        def pure_call(depth=1):
            """a call whose result is a text (or a list / truth value for 分隔 / 匹配…), never changing its receiver"""
            m = rng.choice(['替换', '替换', '分隔', '匹配', '匹配开头', '匹配结尾', '取样', '取样', '去除空格', '转小写-英文', '转大写-英文', '拼接', '格式化'])
            recv = text(depth)
            if m == '替换':
                args = [sep(), text(0)]
            elif m in ('分隔', '匹配', '匹配开头', '匹配结尾'):
                args = [sep()]
            elif m == '取样':
                args = [num(), num()]
            elif m in ('拼接', '格式化'):
                args = [text(0) for _ in range(rng.randint(0, 3))]
            else:
                args = []
            k = rng.random()
            if k < 0.05 and args:
                args[rng.randrange(len(args))] = wrong()
            elif k < 0.09:
                args = args[:-1] if args and rng.random() < 0.5 else args + [text(0)]
            chain = [(m, args)]
            if m in ('去除空格', '转小写-英文', '转大写-英文', '拼接', '替换', '格式化', '取样') and rng.random() < 0.25:
                m2 = rng.choice(['转大写-英文', '转小写-英文', '去除空格', '分隔', '匹配', '拼接', '取样'])
                chain.append((m2, {'分隔': [sep()], '匹配': [sep()], '拼接': [text(0)], '取样': [num(), num()]}.get(m2, [])))
            return MCall(recv, chain)

        for _ in range(steps):
            r = rng.random()
            if r < 0.4:
                body.append(ExprS(Call('显示', [pure_call(2)])))
            elif r < 0.5:
                t = text(1)
                body.append(ExprS(Call('显示', [Prop(t, rng.choice(['长度', '字数', '文本', '字符组', '字符组']))])))
            elif r < 0.62:
                n = '果%d' % self.fresh()
                body.append(Decl([n], pure_call(1)))
                body.append(ExprS(Call('显示', [Var(n)])))
                # the result may be a list or a truth value: it joins the texts only when it is certainly a text
                c = body[-2].e.chain[-1][0]
                if c in ('去除空格', '转小写-英文', '转大写-英文', '拼接', '替换', '格式化', '取样'):
                    texts.append(n)
            elif r < 0.8:
                # 转换数值: the number, then what the receiver holds
                v = rng.choice(texts)
                if rng.random() < 0.5:
                    body.append(ExprS(Assign(Var(v), Str(rng.choice(['12', '-3.5', '1*^3', '2.5*10^2', '1e3', '7*^2*^1', '1*10^2*10^1', '0.5', '+7', '.5', '007', '1e308',
                                                                    '1e', 'x1', '甲*^乙', '', '1*^', ' 1', '1.2.3', '１２'])))) if v not in inputs else ExprS(Call('显示', [Var(v)])))
                k = rng.random()
                if k < 0.5:
                    body.append(ExprS(Call('显示', [MCall(Var(v), [('转换数值', [])])])))
                elif k < 0.8:
                    body.append(ExprS(Call('显示', [Bin('+', MCall(Var(v), [('转换数值', [])]), Num('1'))])))
                else:
                    body.append(ExprS(Call('显示', [MCall(Str(rng.choice(['12', '2*^2', '1*10^3', 'x', '3.25'])), [('转换数值', [Str('多余')] if rng.random() < 0.2 else [])])])))
                body.append(ExprS(Call('显示', [Var(v), Prop(Var(v), '长度')])))
            elif r < 0.9:
                c = pure_call(1)
                c.chain = [(rng.choice(['匹配', '匹配开头', '匹配结尾']), [sep()])]
                body.append(If(c, [ExprS(Call('显示', [Str('中')]))], [], [ExprS(Call('显示', [Str('不中')]))]))
            else:
                body.append(Iter(['字'], Prop(text(0), '字符组') if rng.random() < 0.5 else MCall(text(0), [('分隔', [sep()])]),
                                 [ExprS(Call('显示', [Var('字'), MCall(Var('字'), [('拼接', [Str('!')])])]))]))
        body.append(Ret(Arr([Var(t) for t in texts[:4]])))
        catches = []
        if rng.random() < 0.4:
            # (the handler names inputs only: a body-level 令 is gone when the handler runs — the statement block is its own scope)
            catches = [('异常', [ExprS(Call('显示', [Str('拦')])), Ret(Arr([Var(t) for t in inputs]))])]
        return Program(inputs, body, catches), ins

    # ---- scoping (C06) ---------------------------------------------------------------------------
    def scope_program(self):
        """mostly valid programs over three names with shadowing, nested blocks, a method that is called from
        several depths, 得到, constants; a few deliberately invalid accesses (each ends the run with 42/43/44)"""
        rng = self.rng
        names = ['甲', '乙', '丙']
        bad = rng.choice([0.0, 0.03, 0.08])

        def visible(stack, n):
            for blk in reversed(stack):
                if n in blk:
                    return blk[n]
            return None

        def yield_stmts(stack, y):
            """statements that are neither a 令 nor a call statement, with `（域：n）得到y` somewhere INSIDE an expression:
            得到 binds y (a constant) in the block that evaluates the expression, whatever the position"""
            call = Call('域', [Num(str(self.fresh()))], yld=y)
            show = ExprS(Call('显示', [Var(y)]))
            k = rng.randrange(8)
            assignable = [m for m in names if visible(stack, m) is False and m != y]
            if k == 0:        # condition of a nested branch
                return [If(Bin('gt', call, Num('0')), [show]), show]
            if k == 1:        # condition of a nested loop that is false at once / left at once
                if rng.random() < 0.5:
                    return [While(Bin('lt', call, Num('0')), [ExprS(Call('显示', [Num('0')]))]), show]
                return [While(Bin('gt', call, Num('0')), [show, Break()])]
            if k == 2 and assignable:     # right-hand side of an assignment
                z = rng.choice(assignable)
                return [ExprS(Assign(Var(z), call)), ExprS(Call('显示', [Var(z), Var(y)]))]
            if k == 3:        # inside a list literal
                return [ExprS(Call('显示', [Arr([Num('1'), call])])), show]
            if k == 4:        # operand of an arithmetic expression that is a call argument
                return [ExprS(Call('显示', [Bin('+', call, Num('1'))])), show]
            if k == 5:        # the collection of a nested 遍历
                return [Iter(['子'], Arr([call, Num('2')]), [ExprS(Call('显示', [Var('子')]))]), show]
            if k == 6:        # argument of another call whose own result is bound too (different name)
                return [ExprS(Call('显示', [Call('域', [call])])), show]
            return [ExprS(Call('显示', [call]))] + ([show] if rng.random() < 0.7 else [])   # call argument

        def yield_block(stack):
            """a branch or loop body WITHOUT any 令 / call statement, whose expressions bind names through 得到; loops run the
            body several times (every pass is a new block: no redeclaration); afterwards the bound name is read (not defined,
            or the outer variable it shadowed, unchanged)"""
            out = []
            ys = rng.sample(names + ['丁', '戊'], rng.choice([1, 1, 2]))
            wrap = rng.randrange(5)
            if wrap == 3 and visible(stack, '次') is None:
                out.append(Decl(['次'], Num('0')))
                stack[-1]['次'] = False
            inner = stack + [{}]
            if wrap == 2:
                inner = stack + [{'项': False}, {}]
            body = []
            vis = [m for m in names if visible(inner, m) is not None and m not in ys]
            if vis and rng.random() < 0.4:
                body.append(ExprS(Call('显示', [Var(rng.choice(vis))])))
            for y in ys:
                body += yield_stmts(inner, y)
                inner[-1][y] = True
            if wrap == 0:
                out.append(If(Var('真'), body))
            elif wrap == 1:
                out.append(If(Var('假'), [ExprS(Call('显示', [Num('0')]))], els=body))
            elif wrap == 2:
                out.append(Iter(['项'], Arr([Num(str(i)) for i in range(1, rng.randint(2, 4))]), body))
            elif wrap == 3:
                out.append(ExprS(Assign(Var('次'), Num('0'))))
                out.append(While(Bin('lt', Var('次'), Num(str(rng.randint(2, 3)))),
                                 [ExprS(Assign(Var('次'), Bin('+', Var('次'), Num('1'))))] + body))
            else:
                out.append(Iter(['项'], Arr([Num('1'), Num('2')]), [If(Bin('xeq', Var('项'), Var('项')), body)]))
            # after the block: the names it bound are gone
            for y in ys:
                if visible(stack, y) is not None or rng.random() < 0.35:
                    out.append(ExprS(Call('显示', [Var(y)])))
            return out

        def block(depth, stack, count):
            out = []
            stack = stack + [{}]
            for _ in range(count):
                r = rng.random()
                n = rng.choice(names)
                here = stack[-1]
                if r < 0.06:
                    # block form 令： with mixed 设为 / 恒为 lines
                    free = [m for m in names if m not in here]
                    if len(free) >= 2:
                        a, b = rng.sample(free, 2)
                        ca, cb = rng.random() < 0.5, rng.random() < 0.5
                        out.append(DeclBlock([([a], Num(str(self.fresh())), ca), ([b], Num(str(self.fresh())), cb)]))
                        here[a], here[b] = ca, cb
                elif r < 0.25:
                    if (n in here) == (rng.random() < bad):     # valid: not yet in this block
                        const = rng.random() < 0.3
                        out.append(Decl([n], Num(str(self.fresh())), const=const))
                        here.setdefault(n, const)
                elif r < 0.45:
                    v = visible(stack, n)
                    ok = v is not None and v is False
                    if ok or rng.random() < bad:
                        out.append(ExprS(Assign(Var(n), Num(str(self.fresh())))))
                elif r < 0.58:
                    if visible(stack, n) is not None or rng.random() < bad:
                        out.append(ExprS(Call('显示', [Var(n)])))
                elif r < 0.65:
                    out.extend(yield_block(stack))
                elif r < 0.78 and depth > 0:
                    out.append(If(Var('真'), block(depth - 1, stack, rng.randint(1, 4))))
                elif r < 0.88 and depth > 0:
                    lv = rng.choice(names)
                    if lv not in here or True:
                        inner = block(depth - 1, stack + [{lv: False}], rng.randint(1, 3))
                        out.append(Iter([lv], Arr([Num('1'), Num('2')]), [ExprS(Call('显示', [Var(lv)]))] + inner))
                elif r < 0.93:
                    out.append(ExprS(Call('显示', [Call('域', [Num(str(self.fresh()))])])))
                elif r < 0.96:
                    y = rng.choice(names)
                    if y not in here:
                        out.append(ExprS(Call('域', [Num('1')], yld=y)))
                        here[y] = True
                elif rng.random() < bad * 3:
                    out.append(rng.choice([Decl([rng.choice(['真', '空', '显示', '异常'])], Num('1')),
                                           ExprS(Assign(Var(rng.choice(['真', '假', '空'])), Num('1')))]))
                else:
                    out.append(ExprS(Call('显示', [Num(str(self.fresh()))])))
            # after an inner block: show everything still visible
            vis = [m for m in names if visible(stack, m) is not None]
            if vis:
                out.append(ExprS(Call('显示', [Var(m) for m in vis])))
            if not out:
                out.append(ExprS(Call('显示', [Num(str(self.fresh()))])))
            return out

        # the method declares 甲 itself and reads 乙 of whoever called it (names live in blocks, not in lexical scopes)
        fb = [Decl(['甲'], Bin('+', Var('入'), Num('100'))), ExprS(Call('显示', [Var('甲')]))]
        if rng.random() < 0.3:
            fb.append(ExprS(Assign(Var('入'), Num('3'))))     # inputs are constants: 44
        fb.append(Ret(Var('甲')))
        body = [Func('域', ['入'], fb)]
        # a method with inputs that leaves through 输出 from inside a loop (list or dictionary) or a branch:
        # afterwards none of its declarations (inputs, loop variables, locals) may remain
        coll = Dict([(Var('k1'), Num('1')), (Var('k2'), Num('2'))]) if rng.random() < 0.5 else Arr([Num('1'), Num('2'), Num('3')])
        lvs = [['项'], ['键', '值'], []][rng.choice([0, 1, 1, 2])]
        inner = [Decl(['内'], Num('5'))]
        k = rng.random()
        if k < 0.5:
            inner.append(Ret(Var('目标')))
        elif k < 0.75:
            inner.append(If(Bin('xeq', Var('目标'), Num('2')), [Ret(Var('内'))]))
        else:
            inner.append(Break())
        body.append(Func('查找', ['目标', '库'], [Iter(lvs, coll, inner), Ret(Num('-1'))]))
        # method / handler bodies without 令 that bind a name through 得到 inside an expression; called twice. (The bound
        # name is never one of the method's own inputs: whether that is a redeclaration is where the pinned code and the
        # spec part — reported, not generated.)
        probes = []
        if rng.random() < 0.15:
            y = '丁'
            body.append(Func('探', ['入'], [ExprS(Call('显示', [Arr([Call('域', [Var('入')], yld=y)])])), Ret(Var(y))]))
            probes.append('探')
        if rng.random() < 0.15:
            y = '丁'
            body.append(Func('险', ['入'], [Throw('异常', [Str('x')])],
                             catches=[('异常', [ExprS(Call('显示', [Bin('+', Call('域', [Num('1')], yld=y), Num('1'))])), Ret(Var(y))])]))
            probes.append('险')
        main = block(3, [], rng.randint(4, 10))
        for pn in probes:
            at = rng.randint(0, len(main))
            main[at:at] = [ExprS(Call('显示', [Call(pn, [Num('1')])])), ExprS(Call('显示', [Call(pn, [Num('2')])]))]
        if probes and rng.random() < 0.3:
            main.append(ExprS(Call('显示', [Var(rng.choice(['入', '丁']))])))
        if rng.random() < 0.6:
            main.append(ExprS(Call('显示', [Call('查找', [Num(str(rng.randint(1, 3))), Num('0')])])))
            probe = rng.random()
            if probe < 0.4:
                main.append(Decl(['目标'], Num('77')))          # the method's input is gone: a fresh declaration
                main.append(ExprS(Call('显示', [Var('目标')])))
            elif probe < 0.7:
                main.append(Decl([rng.choice(['库', '内', '项', '键', '值'])], Num('78')))
            else:
                main.append(ExprS(Call('显示', [Var(rng.choice(['目标', '库', '内']))])))   # undefined: 42
        if rng.random() < 0.3:
            main.append(ExprS(Call('显示', [Var(rng.choice(names))])))
        return Program([], body + main), {}
