"""C03 — parsing builds the tree the grammar prescribes, for any layout.

Three-way check per case:  Go tree (harness `compile`, the real parser)  =  model tree (driver `parse`: Model/Parser over Model/Lexer,
end to end, line numbers included)  =  the generator's intended tree (property; line numbers ignored).
Streams: layout (random layouts), toggle (each layout dimension alone, and each pair), corrupt (if the real parser accepts a damaged
text, the tree must be complete — Python walker over the real dump, Lean walker over the model tree)."""
import os
import re
import znlayout
from zngen import cps
from props import parsecommon as pc
from props import c03_comments as cc

RULE = ("valid programs from the six program generators (expressions, control flow, copies, calls/objects, exceptions, scopes) rendered "
        "canonically, tokenised by the REAL lexer, then re-laid-out: synonym spellings (==/等于 … =/设为, 之/的), Chinese/ASCII punctuation, "
        "quote styles, any white-space run or none between tokens, ONE optional comma where tryConsume swallows it, comments of the four kinds "
        "(own line, end of line, inline), TAB vs 4 spaces, LF/CR/CRLF/LFCR, blank lines, optional line breaks after ， 、 { 【 ： and before 】 }. "
        "Stream toggle: every single layout dimension alone and every pair, on every corpus program. Stream ungrammatical: hand-written texts the grammar does not derive (chained comparisons, two commas, missing parts, statement after a 拦截 block, unbalanced brackets …) must be rejected. Stream corrupt: token deletion, "
        "duplication, swap, splices, noise, indentation and line-break damage. Non-trivial = the laid-out text differs from the canonical one "
        "and has at least 8 tokens. One program in three opens with 1–3 导入 statements (library / file, with and without 之 items, "
        "sometimes two on one line, with or without `；` between / after them — a `；` on the line of a 导入 statement is part of the import "
        "section and leaves no empty statement) below 0–3 blank lines; besides tree equality the LINE of every import node — Go's, hence the model's — "
        "is compared with the generator's ground truth: the physical line (0-based, CR/LF/CRLF/LFCR each one line end) on which the 导入 "
        "keyword stands in the text as laid out (comment lines, blank lines and multi-line comments above it included).")
ASSUMPTIONS = ["the lexer model (Model/Lexer.lean, another worker's deliverable) is compared end to end here; its own theorems are C04/C13/C18's",
               "generator names avoid glyphs that would form a keyword with a neighbouring token when spaces are removed"]
PARTIAL = ("character level PROVED for the canonical rendering (C03Chars.parse_render_canonical: lexer model composed with the parser round trip — "
           "one space between tokens, LF line ends, TAB indentation, every synonymous spelling, both punctuation sets, back-tick names, "
           "safe-encoded literals; any nesting depth); the other layouts (several / no spaces, comments, 4-space indentation, CR / CRLF / LFCR, blank "
           "lines, verbatim multi-line literals) are stated in parse_render_layouts_full and carried at character level by these runs; proved at "
           "token + line-layout level for all of them: parse_statements_roundtrip, comments_are_invisible, comma_is_optional, "
           "linebreak_exceptions, returned_tree_complete (all token streams), synonym_tables")


def _retry_timeouts(ctx, lines, answers):
    """the machine may be busy: a `timeout` answer is re-run alone before it counts"""
    idx = [i for i, a in enumerate(answers) if a.startswith('timeout') or a.startswith('crash')]
    for i in idx[:50]:
        for _ in range(2):
            r = ctx.run_go([lines[i]], timeout_ms=2000, parallel=False)[0]
            if not (r.startswith('timeout') or r.startswith('crash')):
                answers[i] = r
                break
    return answers


T_IMPORT = 0x4D
IMPORT_POOL = [(1, '@JSON', []), (1, '@文件', ['读取文件']), (1, '@文件', ['读取文件', '写入文件']), (2, '模块甲', []), (2, '库/乙', ['子', '丑']),
               (1, '丙库', ['寅']), (2, 'mod.zn', []), (1, '@JSON', ['生成JSON', '解析JSON', '甲'])]
COMMENT_HEADERS = ['注：说明\n', '// x = 1\n\n', '/* 多行\n   注释 */\n', '注：“跨\n行”\n', '\n注1：「甲」\n\n', '/* a */ /* b\n*/\n']


def add_imports(rng, prog):
    """give a corpus program 1–3 leading 导入 statements below 0–3 blank lines (parsing only: nothing is executed in this check)"""
    k = rng.choice([1, 1, 2, 3])
    ims = []
    for i in range(k):
        ty, name, items = rng.choice(IMPORT_POOL)
        last = i + 1 == k
        r = rng.random()
        if r < 0.55:
            sep = '\n'
        elif r < 0.65:
            sep = '\n' if last else ' '                                   # two 导入 on one line, nothing between
        elif r < 0.85:
            sep = rng.choice(['；', '；；', ' ； ', '；　；']) + ('\n' if last else rng.choice(['', ' ']))   # … separated by ；
        else:
            sep = rng.choice(['；', '；；；', ' ；']) + '\n'                  # ； at the end of the line
        ims.append((ty, name, items, sep))
    prog.imports = ims
    prog.header = '\n' * rng.choice([0, 0, 1, 2, 3])


def check_cases(ctx, stream, cases):
    """cases: [(source, intended sx or None, canonical source[, expected lines of the import nodes])]"""
    srcs = [c[0] for c in cases]
    lines = ['compile ' + cps(s) for s in srcs]
    go = _retry_timeouts(ctx, lines, ctx.run_go(lines, timeout_ms=2000))
    model = ctx.run_lean(['parse ' + cps(s) for s in srcs])
    replay = []
    for k, case in enumerate(cases):
        src, intended, canon = case[:3]
        ctx.evaluations += 1
        g, m = go[k], model[k]
        gc = g.split(' | ')[0]
        if gc != m:
            replay.append(k)
        if len(case) > 3 and case[3] is not None and gc.startswith('ok '):
            got = [int(x) for x in re.findall(r'\(import (\d+) ', gc)]
            if case[3]:
                ctx.count(stream + ":import-line-checked")
            if max(case[3], default=0) >= 2:
                ctx.count(stream + ':import-on-line>=2')
            if got != case[3]:
                ctx.violation(stream + ':import-line', lines[k], 'import lines %s | %s' % (got, gc[:300]),
                              'import lines %s (0-based line of each 导入 keyword)' % case[3])
        if intended is not None:
            if not gc.startswith('ok '):
                ctx.violation(stream + ':rejected', lines[k], g, 'ok ' + pc.strip_lines(intended)[:300])
            elif pc.strip_lines(gc[3:]) != pc.strip_lines(intended):
                ctx.violation(stream + ':tree-changed', lines[k], pc.strip_lines(gc[3:])[:500], pc.strip_lines(intended)[:500])
        if gc.startswith('ok '):
            if not pc.complete(gc[3:]):
                ctx.violation(stream + ':incomplete-tree', lines[k], gc[:400], 'complete')
        ctx.count(stream + ':' + (pc.outcome_class(g) if not gc.startswith('err syn') else ' '.join(gc.split(' ')[:3])))
        if src != canon and src.count('\n') + src.count('\r') >= 0 and len(src) > 16:
            ctx.nontriv(cps(src))
    # classify end-to-end mismatches: parser model on the real token stream
    if replay:
        sub = [srcs[k] for k in replay]
        ml, _ = pc.model_parse(ctx, sub)
        for k, mt in zip(replay, ml):
            gc = go[k].split(' | ')[0]
            where = 'parser-model' if mt != gc else 'lexer-model'
            ctx.disagreement(stream + ':' + where, lines[k], go[k][:400], model[k][:400])
    return go, model


def run(ctx):
    rng = ctx.rng
    nprog = ctx.n(260, 5000)
    klay = ctx.n(3, 8)
    progs = pc.corpus(rng, nprog)
    for i, p in enumerate(progs):
        if i % 3 == 1:
            add_imports(rng, p)
    rendered = [p.render(rng) for p in progs]
    canon = [r[0] for r in rendered]
    tk = ctx.run_go(['tokens ' + cps(s) for s in canon], timeout_ms=4000)
    spans = [pc.token_spans(t) for t in tk]
    # (a) random layouts
    cases = []
    for p, (src, sx), sp in zip(progs, rendered, spans):
        if not sp:
            continue
        cases.append((src, sx, src, list(p.import_lines)))
        if p.imports:
            # comment lines (single- and multi-line) above the first 导入: the import lines shift by the physical lines added
            h = rng.choice(COMMENT_HEADERS)
            cases.append((h + src, sx, src, [l + h.count('\n') for l in p.import_lines]))
        for _ in range(klay):
            offs = []
            text = znlayout.relayout(rng, src, sp, offsets=offs)
            exp = [znlayout.line_index(text, o) for o, (_, _, ty) in zip(offs, sp) if ty == T_IMPORT]
            cases.append((text, sx, src, exp))
    go, model = check_cases(ctx, 'layout', cases)
    ctx.streams.append({'stream': 'layout', 'cases': len(cases), 'programs': nprog, 'layouts_each': klay})
    for k in (1, len(cases) // 2, len(cases) - 1):
        ctx.sample({'stream': 'layout', 'source': cases[k][0].encode('utf-8', 'replace').decode(), 'go': go[k][:300], 'model': model[k][:300]})
    # (b) single toggles and pairs of toggles, on a smaller corpus
    ntog = ctx.n(24, 300)
    cases = []
    toggles = znlayout.single_toggles() + znlayout.pair_toggles()
    for (src, sx), sp in list(zip(rendered, spans))[:ntog]:
        if not sp:
            continue
        for name, lay in toggles:
            offs = []
            text = znlayout.relayout(rng, src, sp, lay, offsets=offs)
            cases.append((text, sx, src, [znlayout.line_index(text, o) for o, (_, _, ty) in zip(offs, sp) if ty == T_IMPORT]))
    check_cases(ctx, 'toggle', cases)
    ctx.streams.append({'stream': 'toggle', 'cases': len(cases), 'toggles': len(toggles)})
    # (c) corrupted renderings: accepted ⇒ complete
    ncor = ctx.n(80, 2500)
    cases = []
    for (src, sx), sp in list(zip(rendered, spans))[:ncor]:
        lay = znlayout.relayout(rng, src, sp) if rng.random() < 0.5 else src
        for s in pc.corruptions(rng, lay, sp if lay == src else [], ctx.n(10, 16)):
            cases.append((s, None, src))
    go, model = check_cases(ctx, 'corrupt', cases)
    # the Lean completeness walker on the model's trees of accepted corrupted inputs
    acc = [m[3:] for m in model if m.startswith('ok ')]
    if acc:
        res = ctx.run_lean(['complete ' + a for a in acc])
        for a, r in zip(acc, res):
            if r != 'complete':
                ctx.disagreement('corrupt:model-tree-incomplete', 'complete ' + a[:300], 'complete', r)
    ctx.streams.append({'stream': 'corrupt', 'cases': len(cases), 'accepted': len(acc)})
    # (d) texts the grammar does not derive must be rejected (no chained comparison, one comma only, no missing part, nothing after 拦截)
    ung = pc.ungrammatical(rng, ctx.n(3 * len(pc.UNGRAMMATICAL), 20 * len(pc.UNGRAMMATICAL)))
    go, model = check_cases(ctx, 'ungrammatical', [(s, None, '') for s in ung])
    for s, g in zip(ung, go):
        if not g.startswith('err syn'):
            ctx.violation('ungrammatical:not-rejected', 'compile ' + cps(s), g[:300], 'err syn (the grammar does not derive this text)')
    ctx.streams.append({'stream': 'ungrammatical', 'cases': len(ung)})

    # (e) comments that try to be noticed (props/c03_comments.py): rich bodies — quotes of the other style, comment openers of the other
    #      kinds, `*/` look-alikes, back-ticks, keywords, line ends — in the canonical text at chosen places, and through the layout renderer
    cases = []
    kcom = ctx.n(2, 6) if os.environ.get('VERIF_C03_COMMENTS', '1') != '0' else 0
    lay = dict(comment_line=0.3, comment_eol=0.2, comment_inline=0.1)
    for p, (src, sx), sp in zip(progs, rendered, spans):
        if not sp:
            continue
        for j in range(kcom):
            offs = []
            if j % 2 == 0:
                text = cc.decorate(rng, src, sp, offsets=offs)
            else:
                with cc.rich(znlayout):
                    text = znlayout.relayout(rng, src, sp, lay, offsets=offs)
            if text == src:
                continue
            cases.append((text, sx, src, [znlayout.line_index(text, o) for o, (_, _, ty) in zip(offs, sp) if ty == T_IMPORT]))
    go, model = check_cases(ctx, 'comments', cases)
    for k, v in sorted(cc.STATS.items()):
        ctx.count('comments-drawn:' + k, v)
    ctx.streams.append({'stream': 'comments', 'cases': len(cases), 'per_program': kcom, 'drawn': dict(cc.STATS)})
    for k in (0, len(cases) // 2) if cases else ():
        ctx.sample({'stream': 'comments', 'source': cases[k][0].encode('utf-8', 'replace').decode(), 'go': go[k][:300], 'model': model[k][:300]})

def replay(ctx, data):
    case = data['case']
    print('go   :', ctx.run_go([case], timeout_ms=2000)[0][:3000])
    f = case.split(' ')
    if f[0] in ('compile', 'ast'):
        print('model:', ctx.run_lean(['parse ' + f[1]])[0][:3000])
        tk = ctx.run_go(['tokens ' + f[1]])[0]
        print('parser model on the real tokens:', ctx.run_lean(['parse-tokens' + tk[2:]])[0][:3000] if tk.startswith('ok') else tk)
        src = ''.join(chr(int(x, 16)) for x in f[1].split('.')) if f[1] != '-' else ''
        print('source:\n' + src.encode('utf-8', 'replace').decode())
    if data.get('spec'):
        print('expected:', data['spec'][:3000])
