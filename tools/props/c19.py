"""C19 — JSON generation and parsing are faithful inverses.

Every case is one protocol line answered three times: by the real Go code (harness/ops_json.go: stdlib/json's
FN_generateJson / FN_parseJson, common.ElementToJSONString, or a whole Zn program with a 拦截异常 handler run by the
real interpreter), by the Lean model (lean/ZnVerif/Ops/C19.lean over Model/Json.lean), and by the property itself.
The property's judge for JSON texts is Python's `json` module — the "standard JSON parser" of the property text —
with object_pairs_hook so that key order is seen:

  gen      random JSON-representable dictionaries (nested dictionaries/lists of texts, doubles, booleans, 空), and the same
           with a non-finite number planted somewhere.  Go's text must decode as UTF-8, parse with Python, and equal the
           value structurally AND in key order; a non-finite number must raise 异常.  Model: same bytes.
  rt       解析JSON(生成JSON(d)), several times in one process (Go re-randomises map iteration): must be d, keys in order.
  parse    documents written by Python's encoder (ensure_ascii on/off, compact/default/indented separators), hand-written
           documents (duplicate keys, number spellings, every escape form, surrogate pairs, lone surrogates, top-level
           non-objects) and their single-character corruptions (every deletion, every replacement from a pool) through
           解析JSON: value-equal to Python's verdict (valid object → same structure and key order, anything else → 异常).
  zn       a sample of all of the above through Zn programs `输出（生成JSON：甲）… 拦截异常：输出真`: the exception must be
           catchable, the value the same.
  deep     nesting depth around the parser's bound (10000).
  bytes    byte-level corruptions (invalid UTF-8) and values JSON has no form for (a function): Go vs model only,
           the property is silent there; never a panic.
  args     wrong arity / argument kinds: Go vs model (error codes 53 / 82).
"""
import json, math, struct

RULE = ("gen/rt: random dictionaries of depth ≤ 4 with ≤ 6 keys per level over texts drawn from a pool of hard characters "
        "(quotes, backslash, all C0 controls, DEL, < > &, U+2028/9, U+FFFD, U+FFFF, astral, U+10FFFF, empty) and doubles drawn "
        "from a boundary pool (±0, subnormals, max, 1e21 / 1e-6 format switches, 2^53±, random bit patterns); non-finite numbers "
        "planted in 1 of 8. parse: Python-encoded and hand-written documents with every single-character deletion and every "
        "replacement from a pool of structural, numeric, escape and non-ASCII characters. quick ≥ 5 000, thorough ≥ 300 000 "
        "cases. non-trivial = a dictionary with at least two keys or a nested value (gen/rt), a document of at least 8 "
        "characters (parse)")
ASSUMPTIONS = [
    "Zn texts are valid UTF-8 (guaranteed by source decoding, C17); invalid bytes are exercised Go-vs-model only",
    "Python's json module (strict, NaN/Infinity literals rejected) is the reference verdict on JSON texts; an unpaired "
    "surrogate escape reads as U+FFFD (RFC 8259 §8.2 leaves it open; encoding/json and the model replace it), a number "
    "beyond the float64 range must raise (never a wrong value)",
    "NumCodec.Lawful (shortest round-trip formatting, correctly rounded parsing) is assumed in the theorems and checked "
    "here per generated number by comparing float64 bit patterns",
]
PARTIAL = ("encoding/json's tokenizer and float formatting are the Go runtime's: the theorems take them as the reference codec "
           "(refPrint goStyle / refParse) and the law NumCodec.Lawful; both are compared with the real library on every case")
TRUSTED_EXTRA = ["Python 3 json module and float() as the reference JSON reader / nearest-double reference"]

# ---------------------------------------------------------------------------------------------------
# values: python structures; dict = list of (key, value) pairs wrapped in D


class D(list):
    """ordered dictionary: list of (key, value)"""


def hx(b):
    return b.hex() if b else '-'


def bits_of(x):
    if x != x:
        return 'nan'
    return '%016x' % struct.unpack('>Q', struct.pack('>d', x))[0]


def canon(v):
    if v is None:
        return 'null'
    if v is True:
        return 'b:1'
    if v is False:
        return 'b:0'
    if isinstance(v, float):
        return 'n:' + bits_of(v)
    if isinstance(v, int):
        return 'n:' + bits_of(float(v))
    if isinstance(v, str):
        return 's:' + hx(v.encode('utf-8'))
    if isinstance(v, D):
        return '{' + ','.join(hx(k.encode('utf-8')) + '=' + canon(x) for k, x in v) + '}'
    if isinstance(v, list):
        return '[' + ','.join(canon(x) for x in v) + ']'
    if v == 'fn!':
        return 'fn'
    raise ValueError(v)


HARD = (['"', '\\', '/', '<', '>', '&', "'", '\x7f', '\u2028', '\u2029', '\ufffd', '\uffff', '\ud7ff', '\ue000',
         '\U00010000', '\U0001f600', '\U0010ffff', '\u00e9', '\u4f60', '\u0301', ' ', ':', ',', '{', '}', '[', ']']
        + [chr(i) for i in range(0x20)])
PLAIN = list('abcxyz019 _-') + ['你', '好']


def gen_text(rng, keyish=False):
    x = rng.random()
    if x < 0.08:
        return ''
    n = rng.choice([1, 1, 2, 3, 5, 9])
    out = []
    for _ in range(n):
        y = rng.random()
        if y < 0.45:
            out.append(rng.choice(PLAIN))
        elif y < 0.9:
            out.append(rng.choice(HARD))
        else:
            c = rng.randint(0, 0x10FFFF)
            if 0xD800 <= c < 0xE000:
                c = 0xFFFD
            out.append(chr(c))
    return ''.join(out)


def f64(bits):
    return struct.unpack('>d', struct.pack('>Q', bits))[0]


BOUNDARY = [0.0, -0.0, 1.0, -1.0, 0.1, 0.5, 1.5, 2.0, 3.0, 10.0, 100.0, 0.3, 0.30000000000000004, 1e-6, 9.999999999999999e-7,
            1.0000000000000002e-6, 1e-7, 1e21, 999999999999999900000.0, 1.0000000000000001e21, 1e20, 1e22, 5e-324, 1e-323,
            2.2250738585072014e-308, 2.225073858507201e-308, 1.7976931348623157e308, 8.98846567431158e307,
            9007199254740992.0, 9007199254740994.0, 9007199254740991.0, 4503599627370496.5, 123456789.123, 1e100, 1e-100,
            3.141592653589793, 2.718281828459045, 1 / 3, 2 / 3, 1e15, 1e16, 1e17, 123456789012345680.0, 0.000001234, 1234.5678,
            4.35, 0.1 + 0.7, 2.5e-5, 65536.0, 4294967296.0, 1e9, 255.0, 1e-5, 123e-20, 5e-7, 9.5e20]
NONFINITE = [float('inf'), float('-inf'), float('nan')]


def gen_number(rng):
    x = rng.random()
    if x < 0.4:
        v = rng.choice(BOUNDARY)
        return -v if rng.random() < 0.2 else v
    if x < 0.6:
        return float(rng.randint(-1000, 1000))
    if x < 0.75:
        return round(rng.uniform(-1000, 1000), rng.choice([1, 2, 3, 6]))
    while True:
        v = f64(rng.getrandbits(64))
        if v == v and abs(v) != float('inf'):
            return v


def gen_value(rng, depth, plant=None):
    x = rng.random()
    if depth > 0 and x < 0.22:
        return gen_dict(rng, depth - 1)
    if depth > 0 and x < 0.44:
        return [gen_value(rng, depth - 1) for _ in range(rng.choice([0, 0, 1, 2, 3, 5]))]
    if x < 0.60:
        return gen_text(rng)
    if x < 0.82:
        return gen_number(rng)
    if x < 0.90:
        return rng.random() < 0.5
    if x < 0.95:
        return None
    return gen_text(rng)


def gen_dict(rng, depth, nkeys=None):
    n = nkeys if nkeys is not None else rng.choice([0, 1, 2, 3, 4, 6])
    d = D()
    seen = set()
    for _ in range(n):
        k = gen_text(rng, True)
        if rng.random() < 0.3:
            k = rng.choice(['z', 'y', 'b', 'a', 'k10', 'k9', 'k1', 'Z', '你', ''])
        if k in seen:
            continue
        seen.add(k)
        d.append((k, gen_value(rng, depth)))
    return d


def leaves(v, path=()):
    """paths to every scalar slot"""
    if isinstance(v, D):
        for i, (_, x) in enumerate(v):
            yield from leaves(x, path + (i,))
    elif isinstance(v, list):
        for i, x in enumerate(v):
            yield from leaves(x, path + (i,))
    else:
        yield path


def plant(v, path, new):
    if not path:
        return new
    i = path[0]
    if isinstance(v, D):
        out = D(v)
        out[i] = (v[i][0], plant(v[i][1], path[1:], new))
        return out
    out = list(v)
    out[i] = plant(v[i], path[1:], new)
    return out


def has_nonfinite(v):
    if isinstance(v, float):
        return v != v or abs(v) == float('inf')
    if isinstance(v, D):
        return any(has_nonfinite(x) for _, x in v)
    if isinstance(v, list):
        return any(has_nonfinite(x) for x in v)
    return False


def weight(v):
    if isinstance(v, D):
        return 1 + sum(weight(x) for _, x in v)
    if isinstance(v, list):
        return 1 + sum(weight(x) for x in v)
    return 1


# ---------------------------------------------------------------------------------------------------
# the reference reader


class Reject(Exception):
    pass


def _const(name):
    raise Reject('literal ' + name)


def _float(s):
    v = float(s)
    if abs(v) == float('inf'):
        raise Reject('number out of range')
    return v


def _pairs(pairs):
    """members in document order; a repeated key keeps its first place and takes its last value"""
    d = D()
    pos = {}
    for k, v in pairs:
        if k in pos:
            d[pos[k]] = (k, v)
        else:
            pos[k] = len(d)
            d.append((k, v))
    return d


def _fix_surrogates(v):
    if isinstance(v, str):
        return ''.join('\ufffd' if 0xD800 <= ord(c) < 0xE000 else c for c in v)
    if isinstance(v, D):
        return _pairs([(_fix_surrogates(k), _fix_surrogates(x)) for k, x in v])
    if isinstance(v, list):
        return [_fix_surrogates(x) for x in v]
    return v


def reference_read(text):
    """('ok', value) or ('bad', why)"""
    try:
        v = json.loads(text, object_pairs_hook=_pairs, parse_constant=_const, parse_float=_float, parse_int=_float)
    except Reject as e:
        return ('bad', str(e))
    except RecursionError:
        return ('bad', 'too deep for the reference')
    except ValueError as e:
        return ('bad', 'syntax')
    return ('ok', _fix_surrogates(v))


def expected_parse(text):
    """what 解析JSON must answer"""
    st, v = reference_read(text)
    if st == 'ok' and isinstance(v, D):
        return 'ok ' + canon(v)
    if st == 'bad' and v.startswith('too deep'):
        return 'ok … when lists/objects nest at most 10000 deep (the reference reader cannot judge this document)'
    return 'exc'


# ---------------------------------------------------------------------------------------------------
# documents


def to_py(v):
    """D → dict for Python's encoder (keys are distinct here)"""
    if isinstance(v, D):
        return {k: to_py(x) for k, x in v}
    if isinstance(v, list):
        return [to_py(x) for x in v]
    return v


HAND_DOCS = [
    '{"a":1,"a":2}', '{"a":1,"b":2,"a":3}', '{"b":{"x":1,"x":2,"y":3},"a":[{"k":1,"k":2}]}',
    '{"n":[0,-0,1.0,1E2,1e+2,1e-2,0.1e-2,-1.5E+3,12345678901234567890123,4.9e-324,2.2250738585072011e-308]}',
    '{"big":1e400}', '{"big":-1e400}', '{"edge":1.7976931348623157e308}', '{"edge":1.7976931348623159e308}',
    '{"tiny":1e-400}', '{"z":0e999999999999}', '{"m":123456789012345678901234567890e-30}',
    '{"e":"\\"\\\\\\/\\b\\f\\n\\r\\t"}', '{"u":"\\u00e9\\u00E9\\u4F60\\u0000\\u001f\\uFFFF"}',
    '{"p":"\\ud83d\\ude00\\uD83D\\uDE00"}', '{"lone":"\\ud800"}', '{"lone":"\\udc00x"}', '{"lone":"\\ud800\\u0041"}',
    '{"lone":"\\ud800\\ud800\\udc00"}', '{"lone":"\\ud83d\\n"}', '{"\\u0061":1,"a":2}',
    '[]', '[1,2]', 'null', 'true', 'false', '1', '-1.5', '"text"', '{}', ' {} ', '\t{\n"a" : [ ] ,\r"b":{ } }\n',
    '{"a":NaN}', '{"a":Infinity}', '{"a":-Infinity}', '{"a":nan}', '', ' ', '{', '}', '{"a"}', '{"a":}', '{,}', '[,]',
    '{"a":1,}', '{"a":[1,]}', '{"a":01}', '{"a":1.}', '{"a":.5}', '{"a":+1}', '{"a":-}', '{"a":1e}', '{"a":0x10}',
    "{'a':1}", '{a:1}', '{"a":tru}', '{"a":TRUE}', '{"a":nul}', '{"a":"\x7f"}', '{"a":"\t"}', '{"a":"\\x41"}',
    '{"a":"\\u12"}', '{"a":"\\u12G4"}', '{"a":"\\"}', '{"a":1}{"b":2}', '{"a":1} x', '{"a":1}}', '{"a":[1}',
    '{"a":{"b":{"c":{"d":[[[[{"e":null}]]]]}}}}', '{"":""}', '{"a":"  "}', '\ufeff{}', '{"a":1}\x00',
    '{"a" :\n1\t,"b"\r:2 }', '{"k":"\U0001f600","\U0001f600":"k"}', '{"a":1e5,"b":1E-5,"c":-0.0,"d":-0e0}',
    '{"a":"\\ud800\\udbff"}', '{"a":"\\udbff\\udfff"}', '{"a":"\\uDBFF\\uDFFF\\uD800"}',
]

POOL_CORE = ['"', '\\', ',', ':', '{', '}', '[', ']', '0', '-', 'e', ' ']
POOL_FULL = POOL_CORE + ['1', '9', '+', '.', 'E', 'u', 't', 'n', 'f', 'l', 'a', 'd', 'D', '8', '/', '\n', '\t', '\x00', '\x1f',
                         '\u00e9', '\u2028', '\U0001f600', 'b', 'r']


def gen_doc(rng):
    """a document from Python's encoder"""
    top = rng.random()
    if top < 0.9:
        v = gen_dict(rng, rng.choice([0, 1, 1, 2]), nkeys=rng.choice([1, 2, 3]))
    else:
        v = gen_value(rng, 1)
    v = _strip_nonfinite(v)
    style = rng.randrange(5)
    kw = {}
    if style == 0:
        kw = dict(separators=(',', ':'))
    elif style == 1:
        kw = {}
    elif style == 2:
        kw = dict(indent=rng.choice([0, 1, 2]))
    elif style == 3:
        kw = dict(separators=(' ,\t', ' : '))
    else:
        kw = dict(separators=(',', ':'))
    return json.dumps(to_py(v), ensure_ascii=rng.random() < 0.5, **kw)


def _strip_nonfinite(v):
    if isinstance(v, float) and (v != v or abs(v) == float('inf')):
        return 0.0
    if isinstance(v, D):
        return D((k, _strip_nonfinite(x)) for k, x in v)
    if isinstance(v, list):
        return [_strip_nonfinite(x) for x in v]
    return v


def corruptions(doc, pool):
    out = []
    for i in range(len(doc)):
        out.append(doc[:i] + doc[i + 1:])
        for ch in pool:
            if ch != doc[i]:
                out.append(doc[:i] + ch + doc[i + 1:])
    return out


def encodable(s):
    try:
        s.encode('utf-8')
        return True
    except UnicodeEncodeError:
        return False


def parse_line(doc, reps=2):
    return 'json parse %d s:%s' % (reps, hx(doc.encode('utf-8')))


# ---------------------------------------------------------------------------------------------------
# judging


def judge_gen(ctx, stream, case, v, go):
    """Go's answer to `json gen <dict>` against the property"""
    if has_nonfinite(v):
        if go != 'exc':
            ctx.violation(stream + ':non-finite-must-raise', case, go, 'exc')
        return
    want = canon(v)
    if not go.startswith('ok '):
        ctx.violation(stream + ':representable-must-generate', case, go, 'ok <text parsing back to ' + want[:80] + '>')
        return
    try:
        text = bytes.fromhex(go[3:] if go[3:] != '-' else '').decode('utf-8')
    except (UnicodeDecodeError, ValueError):
        ctx.violation(stream + ':not-utf8', case, go, 'UTF-8 JSON text')
        return
    st, back = reference_read(text)
    if st != 'ok':
        ctx.violation(stream + ':not-valid-json', case, go, 'RFC 8259 text (reference parser: %s)' % back)
        return
    got = canon(back) if not isinstance(back, (int,)) or isinstance(back, bool) else canon(float(back))
    if got != want:
        ctx.violation(stream + ':parses-to-different-value-or-order', case, 'parsed-back ' + got, 'parsed-back ' + want)


def three(ctx, stream, cases, spec_of, nontrivial, model_cases=None, timeout_ms=8000):
    """runs Go and the model on `cases`; spec_of(i, go) → expected answer or None (silent)"""
    go = ctx.run_go(cases, timeout_ms=timeout_ms)
    model = ctx.run_lean(model_cases or cases)
    for i, c in enumerate(cases):
        ctx.evaluations += 1
        g, m = go[i], model[i]
        if g != m:
            ctx.disagreement(stream, c, g, m)
        want = spec_of(i, g)
        if want is not None and g != want:
            ctx.violation(stream, c, g, want)
        if g.startswith('panic') or g.startswith('crash') or g == 'timeout':
            ctx.violation(stream + ':crash', c, g, 'a value or a catchable exception')
        if nontrivial(i):
            ctx.nontriv(c)
        ctx.count(stream + ':' + g.split(' ')[0])
    ctx.streams.append({'stream': stream, 'cases': len(cases)})
    return go, model


def run(ctx):
    rng = ctx.rng
    escal = getattr(ctx, 'escalated', False)
    # ---- gen / rt ------------------------------------------------------------------------------------
    nval = ctx.n(1500, 60000)
    values = []
    for _ in range(nval):
        v = gen_dict(rng, rng.choice([0, 1, 2, 2, 3, 4]))
        if rng.random() < 0.125:
            ls = list(leaves(v))
            if ls:
                v = plant(v, rng.choice(ls), rng.choice(NONFINITE))
        values.append(v)
    # fixed corner cases first
    fixed = [D(), D([('a', [])]), D([('b', 1.0), ('a', 2.0)]), D([('z', D([('y', 1.0), ('x', [])])), ('a', [[], D()])]),
             D([('k10', 1.0), ('k9', 2.0), ('k1', 3.0), ('K', 4.0), ('', 5.0)]), D([('a', float('nan'))]),
             D([('a', [1.0, [float('inf')]])]), D([('a', D([('b', float('-inf'))]))]),
             D([('t', ''.join(HARD))]), D([(''.join(HARD), None)]), D([('n', BOUNDARY)])]
    values = fixed + values
    gen_cases = ['json gen ' + canon(v) for v in values]
    go = ctx.run_go(gen_cases)
    model = ctx.run_lean(gen_cases)
    for v, c, g, m in zip(values, gen_cases, go, model):
        ctx.evaluations += 1
        if g != m:
            ctx.disagreement('gen', c, g, m)
        judge_gen(ctx, 'gen', c, v, g)
        if len(v) >= 2 or weight(v) > 2:
            ctx.nontriv(c)
        ctx.count('gen:' + ('non-finite' if has_nonfinite(v) else 'representable'))
    ctx.streams.append({'stream': 'gen', 'cases': len(gen_cases)})
    ctx.sample({'op': gen_cases[3][:200], 'go': go[3][:200], 'model': model[3][:200]})

    rt_cases = ['json rt 3 ' + canon(v) for v in values]
    spec = ctx.run_lean(['spec:' + c for c in rt_cases])
    three(ctx, 'rt', rt_cases,
          lambda i, g: (None if spec[i] == 'any' else spec[i]),
          lambda i: len(values[i]) >= 2 or weight(values[i]) > 2)
    for v, s in zip(values, spec):
        want = 'gen:exc' if has_nonfinite(v) else 'ok ' + canon(v)
        if s != want:  # the Lean statement of the property and the Python one must be the same thing
            ctx.disagreement('rt-spec-oracles', canon(v), s, want)

    # ---- parse -----------------------------------------------------------------------------------------
    target = ctx.n(3200, 230000)
    pool = POOL_CORE if (ctx.quick() and not escal) else POOL_FULL
    docs = []
    seen = set()

    def add(doc):
        if doc not in seen and encodable(doc):
            seen.add(doc)
            docs.append(doc)

    for d in HAND_DOCS:
        add(d)
    nbase = 0
    hand_for_corruption = [d for d in HAND_DOCS if 4 <= len(d) <= 40]
    rng.shuffle(hand_for_corruption)
    k = 0
    while len(docs) < target:
        if k < len(hand_for_corruption) and (k % 2 == 0 or not ctx.quick()):
            base = hand_for_corruption[k]
        else:
            base = gen_doc(rng)
            if len(base) > ctx.n(48, 90):
                k += 1
                continue
        k += 1
        nbase += 1
        add(base)
        for c in corruptions(base, pool):
            add(c)
    ctx.count('parse:base-documents', nbase)
    parse_cases = [parse_line(d) for d in docs]
    want = [expected_parse(d) for d in docs]
    go, model = three(ctx, 'parse', parse_cases, lambda i, g: want[i], lambda i: len(docs[i]) >= 8)
    nvalid = sum(1 for w in want if w != 'exc')
    ctx.count('parse:reference-valid-objects', nvalid)
    ctx.count('parse:reference-rejects', len(want) - nvalid)
    for i in (0, 1, 3, len(HAND_DOCS) + 5):
        ctx.sample({'doc': docs[i][:120], 'go': go[i][:160], 'model': model[i][:160], 'reference': want[i][:160]})

    # ---- zn: through programs with a handler --------------------------------------------------------------
    nz = ctx.n(250, 6000)
    zvals = values[:len(fixed)] + rng.sample(values[len(fixed):], min(nz, len(values) - len(fixed)))
    zgen = ['json zn gen ' + canon(v) for v in zvals]
    go = ctx.run_go(zgen, timeout_ms=10000)
    model = ctx.run_lean(zgen)
    for v, c, g, m in zip(zvals, zgen, go, model):
        ctx.evaluations += 1
        if g != m:
            ctx.disagreement('zn-gen', c, g, m)
        judge_gen(ctx, 'zn-gen', c, v, g)
        ctx.nontriv(c)
        ctx.count('zn-gen:' + g.split(' ')[0])
    ctx.streams.append({'stream': 'zn-gen', 'cases': len(zgen)})
    zi = list(range(len(HAND_DOCS))) + rng.sample(range(len(HAND_DOCS), len(docs)), min(nz, len(docs) - len(HAND_DOCS)))
    zparse = ['json zn parse 2 s:%s' % hx(docs[i].encode('utf-8')) for i in zi]
    three(ctx, 'zn-parse', zparse, lambda j, g: want[zi[j]], lambda j: len(docs[zi[j]]) >= 8, timeout_ms=10000)
    # a call that is not even well-typed must still end in the handler, not abort the program
    three(ctx, 'zn-args', ['json zn parse 1 n:3ff0000000000000', 'json zn gen [b:1]', 'json zn gen null', 'json zn parse 1 {}'],
          lambda j, g: 'exc', lambda j: True)

    # ---- deep -------------------------------------------------------------------------------------------
    deep_cases, deep_want = [], []
    for n in ([1, 50, 9998, 9999, 10000, 10001, 20000] if ctx.quick() else [1, 50, 5000, 9998, 9999, 10000, 10001, 10002, 20000, 60000]):
        for o, c in (('[', ']'), ('{"a":', '}')):
            doc = '{"a":' + o * n + ('1' if o != '[' else '') + c * n + '}'
            deep_cases.append(parse_line(doc, 1))
            # beyond the bound the property is silent (a limit, not malformed input): a value or 异常, never a crash
            deep_want.append('ok' if n + 1 <= 10000 else None)
    for n in [9998, 9999, 10000, 10001]:
        # the encoder has no bound of its own: a value one level too deep is written, then refused by the parser
        deep_cases.append('json rt 1 {61=' + '[' * n + ']' * n + '}')
        deep_want.append('ok' if n + 1 <= 10000 else None)
    godeep = ctx.run_go(deep_cases, timeout_ms=20000)
    mdeep = ctx.run_lean(deep_cases)
    for c, g, m, w in zip(deep_cases, godeep, mdeep, deep_want):
        ctx.evaluations += 1
        g0 = g.split(' ')[0]
        if g != m:
            ctx.disagreement('deep', c[:60] + '…(%d chars)' % len(c), g[:60], m[:60])
        if (w is not None and g0 != w) or g0 not in ('ok', 'exc'):
            ctx.violation('deep', c, g[:80], w or 'ok or exc')
        ctx.nontriv(c)
    ctx.streams.append({'stream': 'deep', 'cases': len(deep_cases)})

    # ---- bytes / unrepresentable kinds / argument lists: Go vs model -----------------------------------------
    bcases = []
    for doc in HAND_DOCS[:20] + [gen_doc(rng) for _ in range(ctx.n(20, 400))]:
        b = doc.encode('utf-8')
        for _ in range(ctx.n(6, 12)):
            if not b:
                continue
            i = rng.randrange(len(b))
            nb = rng.choice([0x80, 0xBF, 0xC0, 0xC2, 0xE0, 0xED, 0xF0, 0xF4, 0xF5, 0xFF, 0xA0])
            bcases.append('json parse 1 s:%s' % hx(b[:i] + bytes([nb]) + b[i + 1:]))
    for raw in ['c0af', 'e08080', 'eda080', 'f4908080', 'f0808080', 'c2', 'e4bd', 'f09f98', 'efbfbd', 'ff', '80']:
        bcases.append('json parse 1 s:%s' % (b'{"a":"'.hex() + raw + b'"}'.hex()))
        bcases.append('json parse 1 s:%s' % (b'{"a":'.hex() + raw + b'}'.hex()))
    three(ctx, 'bytes', bcases, lambda i, g: None, lambda i: True)
    ucases = ['json gen {61=fn}', 'json gen {61=[fn,n:3ff0000000000000],62={63=fn}}', 'json elem fn', 'json elem []', 'json elem [[],{}]',
              'json elem n:3ff8000000000000', 'json elem n:7ff0000000000000', 'json elem s:22', 'json elem null', 'json elem b:1',
              'json elem {62=n:4000000000000000,61=n:3ff0000000000000}']
    three(ctx, 'other-kinds', ucases, lambda i, g: None, lambda i: True)
    acases = ['json gen', 'json gen {} {}', 'json gen [n:0000000000000000]', 'json gen s:7b7d', 'json gen null', 'json gen n:3ff0000000000000',
              'json gen b:1', 'json gen fn', 'json parse 1', 'json parse 1 s:7b7d s:7b7d', 'json parse 1 {}', 'json parse 1 null',
              'json parse 1 [s:7b7d]', 'json parse 1 n:3ff0000000000000', 'json parse 1 b:0', 'json parse 1 fn']
    three(ctx, 'args', acases, lambda i, g: None, lambda i: True)
    # the replay is the shortest failing input
    ctx.violations.sort(key=lambda v: len(v[1]))
    ctx.disagreements.sort(key=lambda v: len(v[1]))


def replay(ctx, data):
    case = data['case']
    print('case :', case[:400])
    go = ctx.run_go([case], timeout_ms=20000)[0]
    print('go   :', go[:1000])
    print('model:', ctx.run_lean([case])[0][:1000])
    f = case.split(' ')
    if f[:2] == ['json', 'parse'] or f[:3] == ['json', 'zn', 'parse']:
        arg = f[-1]
        if arg.startswith('s:'):
            try:
                doc = bytes.fromhex(arg[2:] if arg[2:] != '-' else '').decode('utf-8')
                print('document:', repr(doc)[:400])
                print('spec :', expected_parse(doc)[:1000], '   (reference reader: Python json, keys in document order)')
            except UnicodeDecodeError:
                print('spec : (not UTF-8: the property is silent)')
    elif f[:2] == ['json', 'rt']:
        print('spec :', ctx.run_lean(['spec:' + case])[0][:1000])
    elif f[:2] == ['json', 'gen'] or f[:3] == ['json', 'zn', 'gen']:
        if go.startswith('ok ') and go[3:] != '-':
            try:
                text = bytes.fromhex(go[3:]).decode('utf-8')
                print('generated text:', text[:400])
                st, back = reference_read(text)
                print('reference reader:', st, canon(back)[:600] if st == 'ok' else back)
            except (UnicodeDecodeError, ValueError) as e:
                print('generated text is not UTF-8 / not hex:', e)
        print('spec : the text must parse (Python json) to', f[-1][:600], 'with keys in this order; a non-finite number must give exc')
