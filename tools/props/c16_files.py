"""C16, executions of FILES with imported custom modules (stream `fileiso`, harness ops fseq / frace of ops_isofiles.go).

One line = a history of 2–6 executions through Interpreter.LoadFile in one process over one directory tree that changes between
the executions: several projects (directories) whose modules have the SAME names and different sources, a project nested in
another one (the same file is module “包-工具” of the outer and “工具” of the inner project), module / main files rewritten,
deleted, made syntactically wrong and repaired between two executions, modules importing modules. Run with a new interpreter per
execution and with one shared interpreter.
Oracles: (1) generator ground truth — `execute` below evaluates the file table as it stands at that step (what the manual says an
import does: the file named by the module name under the main file's directory, imports before body, a module body once per
execution); (2) for a sample, the same step executed in a brand-new process (fseq mode 2).
`frace`: goroutines × repetitions through one shared interpreter, every goroutine its own project, same module names."""
from zngen import cps

MODS = ['工具', '库', '包-工具', '包-库', '包-内-工具']          # names differing only by directory
DIRS = ['甲项', '乙项', '丙项/深', '甲项/包']                    # 甲项/包 lies inside 甲项: its 工具.zn is 甲项's “包-工具”
BROKEN = ['令令令\n', '令乙设为【1，2\n令丙设为3\n', '如何坏？\n    输出 1 +\n']


def hx(s):
    return s.encode('utf-8').hex() or '-'


def base(name):
    return name.split('-')[-1]


def path_of(d, name):
    return d + '/' + '/'.join(name.split('-')) + '.zn'


class Tree:
    """the directory tree of one line: rel path → ('mod', tag, display?, deps) | ('main', tag, display?, imports) | ('broken', src)"""

    def __init__(self, rng):
        self.rng, self.files, self.serial, self.pending = rng, {}, 0, []

    def tag(self, what):
        self.serial += 1
        return '%s%d号' % (what, self.serial)

    def source(self, rel):
        f = self.files[rel]
        if f[0] == 'broken':
            return f[1]
        kind, tag, disp, imps = f
        s = ''.join('导入“%s”\n' % n for n in imps)
        if disp:
            s += '（显示：“载%s”）\n' % tag
        if kind == 'mod':
            return s + '如何取%s？\n    输出 “%s”\n' % (base(rel[:-3].replace('/', '-')), tag)
        return s + '输出【“%s”%s】\n' % (tag, ''.join('，（取%s）' % base(n) for n in imps))

    def write(self, rel, f):
        self.files[rel] = f
        self.pending.append('w %s %s' % (hx(rel), cps(self.source(rel))))

    def delete(self, rel):
        self.files.pop(rel, None)
        self.pending.append('d %s -' % hx(rel))

    def new_mod(self, rel, name):
        rng = self.rng
        deps = []
        if base(name) == '工具' and rng.random() < 0.3:          # 工具 may import a 库 (never the other way round: no cycles)
            deps = [rng.choice(['库', '包-库'])]
        self.write(rel, ('mod', self.tag(base(name)), rng.random() < 0.5, deps))

    def new_main(self, d):
        rng = self.rng
        k = rng.choice([1, 1, 2, 2, 3])
        imps, seen = [], set()
        for n in rng.sample(MODS, len(MODS)):
            if base(n) not in seen and len(imps) < k:
                seen.add(base(n)); imps.append(n)
        self.write(d + '/主.zn', ('main', self.tag('主'), rng.random() < 0.3, imps))
        return imps

    def take_ops(self):
        ops, self.pending = self.pending, []
        return ops

    # ---- ground truth ----------------------------------------------------------------------------------------------------
    def execute(self, d):
        """(ok?, answer-or-error-prefix, displayed lines) of LoadFile(d/主.zn).Execute on the tree as it stands"""
        trace, loaded = [], set()

        class Stop(Exception):
            pass

        def load(rel, is_main):
            f = self.files.get(rel)
            if f is None:
                raise Stop('err rt 60 ' if not is_main else 'err ')        # module not found (a missing main file: some error)
            if f[0] == 'broken':
                raise Stop('err syn ')
            _, tag, disp, imps = f
            for n in imps:
                if n not in loaded:
                    loaded.add(n)
                    load(path_of(d, n), False)
            if disp:
                trace.append('载' + tag)
            return f
        try:
            m = load(d + '/主.zn', True)
        except Stop as e:
            return False, e.args[0], trace
        vals = [m[1]] + [self.files[path_of(d, n)][1] for n in m[3]]
        return True, 'ok [' + ','.join('s:' + hx(v) for v in vals) + ']', trace


def judge(got, truth):
    ok, head, trace = truth
    tr = ','.join(hx(t) for t in trace) or '-'
    if ok:
        return got == head + ' | ' + tr
    return got.startswith(head) and got.endswith(' | ' + tr)


def show_truth(truth):
    ok, head, trace = truth
    return head + ('' if ok else '…') + ' | ' + (','.join(hx(t) for t in trace) or '-')


def gen_history(rng):
    """→ (steps-text, k, truths, tags describing the history)"""
    t = Tree(rng)
    dirs = rng.sample(DIRS, rng.choice([1, 2, 2, 2, 3]))
    if rng.random() < 0.25 and '甲项' not in dirs:
        dirs[0] = '甲项'
    if rng.random() < 0.25 and '甲项' in dirs and '甲项/包' not in dirs:
        dirs.append('甲项/包')
    started, steps, truths, kinds = {}, [], [], set()
    k = rng.randint(2, 6)
    for i in range(k):
        d = rng.choice(dirs) if i >= len(dirs) or rng.random() < 0.3 else dirs[i]
        if d not in started:
            imps = t.new_main(d)
            started[d] = True
            for n in imps:
                rel = path_of(d, n)
                if rel not in t.files or rng.random() < 0.5:
                    t.new_mod(rel, n)
            for rel in [r for r in list(t.files) if t.files[r][0] == 'mod']:     # what the modules import themselves
                for n in t.files[rel][3]:
                    if path_of(d, n) not in t.files and rng.random() < 0.85:
                        t.new_mod(path_of(d, n), n)
            kinds.add('same-module-name-in-%d-directories' % len(started) if len(started) > 1 else 'first-project')
        else:
            main = t.files.get(d + '/主.zn')
            imps = main[3] if main and main[0] == 'main' else [rng.choice(MODS)]
            n = rng.choice(imps)
            rel = path_of(d, n)
            ev = rng.choice(['unchanged', 'rewrite-module', 'rewrite-module', 'rewrite-module', 'delete-module', 'break-module',
                             'rewrite-main', 'rewrite-main', 'delete-main', 'break-main', 'repair'])
            if ev == 'rewrite-module':
                t.new_mod(rel, n)
            elif ev == 'delete-module':
                t.delete(rel)
            elif ev == 'break-module':
                t.write(rel, ('broken', rng.choice(BROKEN)))
            elif ev == 'rewrite-main':
                for m in t.new_main(d):
                    if path_of(d, m) not in t.files:
                        t.new_mod(path_of(d, m), m)
            elif ev == 'delete-main':
                t.delete(d + '/主.zn')
            elif ev == 'break-main':
                t.write(d + '/主.zn', ('broken', rng.choice(BROKEN)))
            elif ev == 'repair':                                     # whatever is missing or broken gets a new version
                if not main or main[0] != 'main':
                    imps = t.new_main(d)
                for m in imps:
                    f = t.files.get(path_of(d, m))
                    if f is None or f[0] == 'broken':
                        t.new_mod(path_of(d, m), m)
                for r in [r for r in list(t.files) if t.files[r][0] == 'mod']:
                    for m in t.files[r][3]:
                        f = t.files.get(path_of(d, m))
                        if f is None or f[0] == 'broken':
                            t.new_mod(path_of(d, m), m)
            kinds.add(ev)
        ops = t.take_ops()
        steps.append('%d %s%s' % (len(ops), ''.join(o + ' ' for o in ops), hx(d + '/主.zn')))
        truths.append(t.execute(d))
    return ' '.join(steps), k, truths, kinds


def race_line(rng, g, reps, k=4):
    """k projects in k directories, the same module names everywhere, nothing displays"""
    t = Tree(rng)
    parts = []
    for i in range(k):
        d = '竞%d' % i
        imps = ['工具', '包-库']
        t.write(d + '/主.zn', ('main', t.tag('主'), False, imps))
        for n in imps:
            t.write(path_of(d, n), ('mod', t.tag(base(n)), False, []))
        ops = t.take_ops()
        parts.append('%d %s %s %s' % (len(ops), ' '.join(ops), hx(d + '/主.zn'), hx(t.execute(d)[1])))
    return 'frace %d %d %d %s' % (g, reps, k, ' '.join(parts))


def run_par(ctx, lines, timeout_ms, workers=8):
    """the framework runs fewer than 200 lines in ONE harness process; these lines cost 50–100 ms each (temp files, several
    executions), so they are spread over `workers` processes here (order kept)"""
    from concurrent.futures import ThreadPoolExecutor
    size = max(1, (len(lines) + workers - 1) // workers)
    chunks = [lines[i:i + size] for i in range(0, len(lines), size)]
    with ThreadPoolExecutor(max_workers=workers) as ex:
        return [a for part in ex.map(lambda c: ctx.run_go(c, timeout_ms=timeout_ms, parallel=False), chunks) for a in part]


def stream(ctx, run_under_race_detector=None):
    rng = ctx.rng
    hist = [gen_history(rng) for _ in range(ctx.n(120, 3000))]
    lines, meta = [], []
    for steps, k, truths, kinds in hist:
        for mode in (0, 1):
            lines.append('fseq %d %d %s' % (mode, k, steps))
            meta.append((mode, k, truths, kinds))
    go = run_par(ctx, lines, 20000)
    failing = []
    for line, (mode, k, truths, kinds), g in zip(lines, meta, go):
        ctx.evaluations += k
        ctx.count('fileiso:executions', k)
        for kd in kinds:
            ctx.count('fileiso:' + kd)
        ctx.count('fileiso:' + ('shared-interpreter' if mode else 'separate-interpreters'))
        parts = g.split(' ;; ')
        for tr in truths:
            ctx.count('fileiso:truth:' + ('ok' if tr[0] else tr[1].strip().replace(' ', '-')))
        if len(parts) != k or not all(judge(p, tr) for p, tr in zip(parts, truths)):
            failing.append((line, k, truths, g))
        ctx.nontriv(line)
    # a history that also fails as the only line of a new harness process is self-contained: those are reported first
    failing.sort(key=lambda x: x[1])
    own, carried = [], []
    for line, k, truths, g in failing:
        if len(own) < 3 and len(own) + len(carried) < 24:
            g2 = ctx.run_go([line], timeout_ms=20000, parallel=False)[0]
            p2 = g2.split(' ;; ')
            if len(p2) != k or not all(judge(p, tr) for p, tr in zip(p2, truths)):
                own.append((line, k, truths, g2, ''))
                continue
        carried.append((line, k, truths, g, '   [seen after other histories in the same harness process]'))
    for line, k, truths, g, note in own + carried:
        parts = g.split(' ;; ')
        bad = next((i for i in range(k) if i >= len(parts) or not judge(parts[i], truths[i])), 0)
        ctx.violation('fileiso' + ('-shared' if line.startswith('fseq 1') else ''), line,
                      'execution %d of %d: %s%s' % (bad + 1, k, parts[bad] if bad < len(parts) else g[:300], note),
                      show_truth(truths[bad]) + '   (what the files say at that moment; all: ' + ' ;; '.join(show_truth(x) for x in truths) + ')')
    # the brand-new-process oracle on a sample: every execution of the history in a process of its own
    sample = rng.sample(range(len(hist)), min(len(hist), ctx.n(8, 600)))
    flines = ['fseq 2 %d %s' % (hist[i][1], hist[i][0]) for i in sample]
    fgo = run_par(ctx, flines, 60000)
    for i, fl, fg in zip(sample, flines, fgo):
        ctx.evaluations += hist[i][1]
        ctx.count('fileiso:fresh-process-oracle', hist[i][1])
        for mode in (0, 1):
            g = go[2 * i + mode]
            if g != fg:
                ctx.violation('fileiso:fresh', lines[2 * i + mode], g, fg + '   (every execution of the same history in a brand-new process)')
    # concurrently: one shared interpreter, every goroutine its own project
    gr, reps = ctx.n(8, 32), ctx.n(40, 600)
    rl = race_line(rng, gr, reps)
    out = ctx.run_go([rl], timeout_ms=120000, parallel=False)[0]
    ctx.evaluations += gr * reps
    ctx.count('fileiso:race:executions', gr * reps)
    ctx.nontriv(rl)
    if out != 'ok':
        ctx.violation('fileiso:race', rl, out, 'ok   (every goroutine gets the answer of ITS project)')
    if run_under_race_detector is not None:
        rl2 = race_line(rng, 8, ctx.n(10, 100))
        r = run_under_race_detector(rl2)
        if r is not None:
            rout, races, first = r
            ctx.evaluations += 1
            ctx.count('fileiso:race-detector:reports', races)
            if races or rout != 'ok':
                ctx.violation('fileiso:race-detector', rl2, ('DATA RACE ×%d: %s' % (races, first)) if races else rout[:1500], 'ok, no race report')
    ctx.streams.append({'stream': 'fileiso', 'cases': len(lines) + len(flines) + 1, 'histories': len(hist), 'fresh_process_sample': len(flines)})
    ctx.sample({'stream': 'fileiso', 'line': lines[0][:300], 'go': go[0], 'truth': [show_truth(x) for x in hist[0][2]]})
