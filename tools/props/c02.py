"""C02 — program-level three-way comparison (Go interpreter, Lean model evaluator, Lean spec semantics)."""
from props import progs
from props.progs import replay  # noqa

GEN = 'flow'
RULE = ("programs of nested 如果/再如/否则, 每当 (counter incremented first, so every loop terminates), 遍历 over list and dictionary "
        "literals with 0/1/2 loop variables, 结束循环/继续循环/输出 at random depths inside and outside methods, a 显示 marker between "
        "control transfers; conditions depend on loop counters and loop variables; 每当/如果/再如 conditions with an observable effect "
        "(（记：n、cond） displays n at every evaluation) and 每当 conditions that can be evaluated for exactly K passes (index into a K-item "
        "list, key looked up through it, division by K - 计) whose last pass leaves by 输出 / 结束循环 / not at all; calls of earlier "
        "methods from inside loops and branches; uncaught 抛出 at random depths (in half of the programs); five hand-written programs "
        "head the stream. Non-trivial = the program contains a loop and a "
        "control transfer (输出/结束循环/继续循环) and displays at least one marker.")
ASSUMPTIONS = ["non-terminating programs are outside the quantifier (all generated loops are bounded by construction)"]
PARTIAL = "object methods and handlers are C08/C09's"


def run(ctx):
    g = progs.G(ctx.rng)
    n = ctx.n(2000, 50000)
    ps = progs.hand_flow() + [g.flow_program(ctx.rng.choice([2, 3, 3, 4])) for _ in range(n)]
    progs.run_stream(ctx, 'flow', ps, nontrivial=lambda src, go: ('每当' in src or '遍历' in src) and
                     any(k in src for k in ('输出', '结束循环', '继续循环')) and not go.endswith('| -'))
