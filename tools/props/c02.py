"""C02 — program-level three-way comparison (Go interpreter, Lean model evaluator, Lean spec semantics)."""
import os
from props import progs
from props.progs import replay  # noqa

GEN = 'flow'
RULE = ("programs of nested 如果/再如/否则, 每当 (counter incremented first, so every loop terminates), 遍历 over list and dictionary "
        "literals with 0/1/2 loop variables, 结束循环/继续循环/输出 at random depths inside and outside methods, a 显示 marker between "
        "control transfers; conditions depend on loop counters and loop variables; 每当/如果/再如 conditions with an observable effect "
        "(（记：n、cond） displays n at every evaluation) and 每当 conditions that can be evaluated for exactly K passes (index into a K-item "
        "list, key looked up through it, division by K - 计) whose last pass leaves by 输出 / 结束循环 / not at all; calls of earlier "
        "methods from inside loops and branches; uncaught 抛出 at random depths (in half of the programs); ten hand-written programs "
        "head the stream. Loop variables are values the body may change IN PLACE (自增/自减 on the position, the item, a 每当 counter — "
        "directly or through a callee that bumps its input —, 转换数值 on a numeral key; also a plain reassignment, a copy taken first, the "
        "position stored in a list first): every pass displays its variables, and the loop is executed AGAIN (same statement twice, a "
        "second loop over the same collection, inside an enclosing 遍历/每当 whose own variables are changed too, in a method called two "
        "or three times with collections of different sizes) — positions are 1, 2, 3 … every time; one program in fifty walks a list of "
        "130–520 items twice. Non-trivial = the program contains a loop and a "
        "control transfer (输出/结束循环/继续循环) and displays at least one marker. Streams `semicolon` / `semicolon-flow` (props/edges.py): `；` statements "
        "in every kind of block (program, 如果 / 再如 / 否则, 每当, 遍历 over list and dictionary, method with and without 输出, constructor, object method, "
        "handler of a method and of the program, 令： block) at every place (alone first / between / last, before and after a statement on its "
        "line, doubled, the only statement, after the statement whose value is the body's); bodies that consist of definitions only; 80 flow "
        "programs with `；` sprinkled over every statement list.")
ASSUMPTIONS = ["non-terminating programs are outside the quantifier (all generated loops are bounded by construction)"]
PARTIAL = "object methods and handlers are C08/C09's"


def run(ctx):
    g = progs.G(ctx.rng)
    g.loop_mut = True
    # kept out of the stream (see progs.G): the caller reading a variable right after a callee bumped it in place
    g.CALLEE_BUMP_VISIBLE_IN_CALLER = os.environ.get('VERIF_C02_CALLEE_BUMP_VISIBLE_IN_CALLER', '0') == '1'
    n = ctx.n(2000, 50000)
    ps = progs.hand_flow() + [g.flow_program(ctx.rng.choice([2, 3, 3, 4])) for _ in range(n)]
    progs.run_stream(ctx, 'flow', ps, nontrivial=lambda src, go: ('每当' in src or '遍历' in src) and
                     any(k in src for k in ('输出', '结束循环', '继续循环')) and not go.endswith('| -'))
    for k, v in sorted(g.stats.items()):
        ctx.count('flow:gen:' + k, v)
    # `；` statements: every kind of block × every place (113 programs), then flow programs with `；` sprinkled over every statement
    # list; bodies made of definitions only — props/edges.py
    from props import edges
    progs.run_stream(ctx, 'semicolon', edges.semicolon_programs(ctx.rng), nontrivial=lambda src, go: True)
    sp = edges.sprinkled_flow_programs(g, ctx.rng, ctx.n(80, 4000))
    progs.run_stream(ctx, 'semicolon-flow', sp, nontrivial=lambda src, go: ('每当' in src or '遍历' in src) and not go.endswith('| -'))
