#!/usr/bin/env python3
"""dev helper: devrun.py <gen> <count> [seed]  — runs a generator through the three-way comparison, prints failures"""
import sys, os
sys.path.insert(0, os.path.dirname(os.path.abspath(__file__)))
import framework as fw
from props import progs

gen, count = sys.argv[1], int(sys.argv[2])
seed = int(sys.argv[3]) if len(sys.argv) > 3 else 1
ctx = fw.Ctx('C01', 'quick', seed)
g = progs.G(ctx.rng)
g.loop_mut = os.environ.get('LOOP_MUT', '1') == '1'
g.CALLEE_BUMP_VISIBLE_IN_CALLER = os.environ.get('CALLEE_BUMP_VISIBLE_IN_CALLER', '0') == '1'
mk = {'expr': lambda: g.expr_program(ctx.rng.randint(1, 5)), 'flow': lambda: g.flow_program(3),
      'copy': lambda: g.copy_program(ctx.rng.randint(3, 12)), 'call': g.call_program, 'inst': g.inst_program, 'exc': g.exc_program,
      'scope': g.scope_program, 'text': lambda: g.text_program(ctx.rng.randint(2, 8)), 'coll': lambda: g.coll_program(ctx.rng.randint(3, 12))}[gen]
ps = [mk() for _ in range(count)]
srcs, go, model, spec = progs.run_stream(ctx, gen, ps)
print('evaluations', ctx.evaluations, 'disagreements', len(ctx.disagreements), 'violations', len(ctx.violations))
print(ctx.dist)
def src_of(case):
    f = case.split(' ')[1]
    return ''.join(chr(int(x, 16)) for x in f.split('.')) if f != '-' else ''
for w, c, a, b in ctx.disagreements[:4]:
    print('--- DISAGREEMENT', w); print(src_of(c)); print('go   :', a); print('model:', b)
seen = set()
n = 0
for w, c, a, b in ctx.violations:
    if w in seen and n > 6: continue
    seen.add(w); n += 1
    if n > 8: break
    print('--- VIOLATION', w); print(src_of(c)); print('go  :', a); print('spec:', b)
