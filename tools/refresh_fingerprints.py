#!/usr/bin/env python3
"""records the fingerprints of every function of the interpreter packages as of the current /repo tree
(run after the model has been brought in line with a change of the Go code)"""
import json, os, subprocess
V = os.path.dirname(os.path.dirname(os.path.abspath(__file__)))
subprocess.run([V + '/tools/build.sh'], check=True)
subprocess.run([V + '/.build/znextract', '-repo', os.environ.get('ZN_REPO', '/repo'), '-out', V + '/lean/ZnVerif/Generated', '-facts', V + '/.build/facts.json'], check=True)
fp = json.load(open(V + '/.build/facts.json'))['fingerprints']
json.dump(fp, open(V + '/tools/fingerprints.json', 'w'), indent=0, sort_keys=True, ensure_ascii=False)
print(len(fp), 'fingerprints recorded')
