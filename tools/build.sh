#!/bin/bash
# Rebuilds everything a check needs from $ZN_REPO's current working tree (default /repo).
#   tools/build.sh [extract] [harness] [lean <targets…>]
set -e
export GOFLAGS=-mod=mod GOPROXY=off GOSUMDB=off GOTOOLCHAIN=local
V=$(cd "$(dirname "$0")/.." && pwd)
ZN_REPO=${ZN_REPO:-/repo}
B=$V/.build
mkdir -p $B
exec 9>$B/.lock
flock 9
if [ ! -x $B/znextract ] || [ -n "$(find $V/extract -newer $B/znextract -name '*.go' 2>/dev/null)" ]; then
  (cd $V/extract && go build -o $B/znextract .)
fi
# harness: sources copied beside a go.mod whose replace points at $ZN_REPO
H=$B/harness-src
mkdir -p $H
rsync -a --delete --exclude go.mod --exclude go.sum $V/harness/ $H/
sed "s#@ZN_REPO@#$ZN_REPO#" $V/harness/go.mod.tmpl > $H/go.mod.new
cmp -s $H/go.mod.new $H/go.mod || mv $H/go.mod.new $H/go.mod
rm -f $H/go.mod.new $H/go.mod.tmpl
cp $ZN_REPO/go.sum $H/go.sum
# pkg/server links on Linux only with the verif-tagged pipe file; ops that need it carry the tag `znserver`
TAGS=verif
[ -f $ZN_REPO/pkg/server/name_pipe_linux.go ] && TAGS=verif,znserver
# the C20 op links pkg/server and needs both hook files
if [ -f $ZN_REPO/pkg/server/name_pipe_linux.go ] && [ -f $ZN_REPO/pkg/server/verif_hooks.go ]; then TAGS=$TAGS,pmhooks; fi
COVER=""
if [ "${ZN_COVER:-0}" = "1" ]; then
  # measurement only (tools/coverage.sh): a binary built with -cover writes no data when its main module says go < 1.20
  sed -i 's/^go 1.18/go 1.21/' $H/go.mod
  COVER="-cover -coverpkg=github.com/DemoHn/Zn/...,znharness"   # (the main package must be among them, or no data is written)
fi
(cd $H && go build $COVER -tags $TAGS -o $B/znharness .)
# the same harness under the race detector (C16); cgo/gcc needed, skipped quietly when unavailable
if [ "${ZN_RACE:-1}" = "1" ]; then (cd $H && go build -race -tags $TAGS -o $B/znharness-race . 2>/dev/null) || true; fi
