#!/bin/bash
# merge_worker.sh <worker verif dir> <base commit> — three-way merge of a worker's scratch copy of /verif into this tree.
# For every file the worker changed relative to <base commit>: unchanged here since base → take the worker's file;
# changed here too → git merge-file (conflicts are listed). Build output, evidence and replays are skipped.
set -u
W=$(readlink -f "$1"); BASE=$2
V=$(cd "$(dirname "$0")/.." && pwd)
B=$(mktemp -d /tmp/mergebase.XXXXXX)
git -C $V archive $BASE | tar -x -C $B
cd $W
find . -type f \( -path ./lean/.lake -o -path ./.build -o -path ./evidence -o -path ./replays -o -name __pycache__ -o -path ./.git -o -path ./seeded -o -path ./patches \) -prune -o -type f -print | grep -v "/.lake/\|^./.build/\|^./evidence/\|^./replays/\|__pycache__\|^./seeded/\|\.pyc$\|^./coverage-" | while read f; do
  f=${f#./}
  if [ -f "$B/$f" ] && cmp -s "$W/$f" "$B/$f"; then continue; fi
  if [ ! -f "$V/$f" ]; then mkdir -p "$(dirname "$V/$f")"; cp "$W/$f" "$V/$f"; echo "NEW   $f"; continue; fi
  if cmp -s "$W/$f" "$V/$f"; then continue; fi
  if [ -f "$B/$f" ] && cmp -s "$V/$f" "$B/$f"; then cp "$W/$f" "$V/$f"; echo "TAKE  $f"; continue; fi
  if [ ! -f "$B/$f" ]; then echo "BOTH-NEW (kept ours, worker's at $W/$f)  $f"; continue; fi
  cp "$V/$f" "$V/$f.ours.$$"
  if git merge-file -q "$V/$f" "$B/$f" "$W/$f"; then echo "MERGE $f"; rm -f "$V/$f.ours.$$"; else echo "CONFLICT $f (ours saved as $f.ours.$$)"; fi
done
rm -rf $B
