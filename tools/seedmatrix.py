#!/usr/bin/env python3
"""tools/seedmatrix.py [name-prefix …] — runs every seeded change (seeded/<name>/patch.diff) against the check of its own property and
the checks listed in meta.json `also` / `detected_by`, 4 at a time, and records in meta.json `matrix`: {check: verdict} with
verdict ∈ caught (failing input) | no-failing-input | missed | error.  (Bookkeeping for DESIGN §12.6; not a registered command.)"""
import json, os, subprocess, sys, glob, re
from concurrent.futures import ThreadPoolExecutor
V = os.path.dirname(os.path.dirname(os.path.abspath(__file__)))
names = sorted(os.path.basename(os.path.dirname(p)) for p in glob.glob(V + '/seeded/*/patch.diff'))
if len(sys.argv) > 1:
    names = [n for n in names if any(n.startswith(a) for a in sys.argv[1:])]

def one(name):
    mp = V + '/seeded/%s/meta.json' % name
    m = json.load(open(mp))
    checks = [m['property']] + [c for c in (m.get('detected_by') or []) + (m.get('also') or []) if c != m['property']]
    checks = list(dict.fromkeys(checks))
    p = subprocess.run([V + '/tools/seedtest.sh', V + '/seeded/%s/patch.diff' % name] + checks, capture_output=True, text=True)
    res, cur = {}, None
    streams = {}
    for ln in p.stdout.split('\n'):
        mm = re.match(r'== (C\d+) exit=(\d+)', ln)
        if mm:
            cur = mm.group(1)
            res[cur] = 'missed' if mm.group(2) == '0' else 'error'
        elif cur and ln.startswith('VIOLATION'):
            res[cur] = 'no-failing-input' if 'no-failing-input-found' in ln else 'caught'
        elif cur and 'stream:' in ln:
            streams[cur] = ln.split('stream:')[1].strip()
    m['matrix'] = res
    m['matrix_streams'] = streams
    json.dump(m, open(mp, 'w'), ensure_ascii=False, indent=1)
    return name, res, streams

with ThreadPoolExecutor(max_workers=4) as ex:
    for name, res, streams in ex.map(one, names):
        print(name, res, streams, flush=True)
