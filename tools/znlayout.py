"""Layout-varying renderer (C03).

Input: the canonical rendering of a generator program (tools/zngen.py) and its token spans as reported by the REAL lexer
(harness op `tokens`).  Output: a text with the same token sequence — hence, says the property, the same tree — in another layout:

  synonyms        == / 等于, /= / 不等于, > / 大于, >= / 不小于, < / 小于, <= / 不大于, = / 设为 (outside 【】), 之 / 的
  punctuation     Chinese / ASCII for （ ） ， ： ！ ？ 【 】 ；           quotes “…” / 「…」
  spaces          any run of the lexer's white-space characters between tokens (at least one around + - * / | %)
  commas          ONE optional ， before a token inside a statement or at its start (where tryConsume swallows it)
  comments        the four kinds, between statements, at line ends and (single-line block comments) between tokens
  indentation     TAB or 4 spaces (global)            line ends      LF / CR / CRLF / LFCR (global), extra blank lines
  line breaks     optional after ， 、 { 【 ： ？(call colon) and before 】 }   (continuation lines keep the statement's indent)

`Layout` is a dict of probabilities / choices; `single_toggles()` lists layouts that switch on exactly one dimension.
All randomness comes from the rng passed in.
"""

T_STRING, T_ID = 2, 5
T_COMMA, T_SEMI, T_COLON, T_QMARK, T_BANG, T_HASH = 11, 12, 13, 14, 16, 18
T_ARRL, T_ARRR, T_PARL, T_PARR, T_BRL, T_BRR, T_PAUSE = 20, 21, 22, 23, 24, 25, 26
T_INTDIV, T_MOD, T_ASSIGNMARK, T_GT, T_LT, T_GTE, T_LTE, T_NE, T_EQ, T_PLUS, T_MINUS, T_MUL, T_DIV = 27, 28, 29, 30, 31, 32, 33, 34, 35, 36, 37, 38, 39
T_ASSIGNW, T_NEW, T_LTEW, T_GTEW, T_LTW, T_GTW, T_DOT, T_DOT2, T_EQW = 49, 51, 52, 53, 54, 55, 71, 72, 74
ARITH_OPS = {T_PLUS, T_MINUS, T_MUL, T_DIV, T_INTDIV, T_MOD}

SYN = {  # token type -> (spellings of the synonym class); the first listed for a type is its own canonical spelling
    T_EQ: ['==', '等于'], T_EQW: ['等于', '=='],
    T_NE: ['/=', '不等于'], T_NEW: ['不等于', '/='],
    T_GT: ['>', '大于'], T_GTW: ['大于', '>'],
    T_GTE: ['>=', '不小于'], T_GTEW: ['不小于', '>='],
    T_LT: ['<', '小于'], T_LTW: ['小于', '<'],
    T_LTE: ['<=', '不大于'], T_LTEW: ['不大于', '<='],
    T_DOT: ['之', '的'], T_DOT2: ['的', '之'],
}
PUNCT = {T_COMMA: ['，', ','], T_SEMI: ['；', ';'], T_COLON: ['：', ':'], T_QMARK: ['？', '?'], T_BANG: ['！', '!'],
         T_ARRL: ['【', '['], T_ARRR: ['】', ']'], T_PARL: ['（', '('], T_PARR: ['）', ')']}
SPACES = [' ', ' ', ' ', '  ', '\t', '　', ' ', ' ', ' \t ', '​', ' ', '\u000b', '\u000c']
EOLS = {'lf': '\n', 'cr': '\r', 'crlf': '\r\n', 'lfcr': '\n\r'}
COMMENT_BODIES = ['说明', 'x = 1', '令甲为1', '如果', '  ', '注', '1、2、3', '（无）', 'a // b', '拦截', '，，', '【', '】）}']

DEFAULT = dict(synonym=0.5, ascii_punct=0.5, quotes=0.3, space=0.4, nospace=0.5, comma=0.06, comment_line=0.15, comment_eol=0.08,
               comment_inline=0.04, tab=None, eol=None, blank=0.1, linebreak=0.25)
OFF = dict(synonym=0.0, ascii_punct=0.0, quotes=0.0, space=0.0, nospace=0.0, comma=0.0, comment_line=0.0, comment_eol=0.0,
           comment_inline=0.0, tab=False, eol='lf', blank=0.0, linebreak=0.0)


def single_toggles():
    """(name, layout) with exactly one dimension switched fully on"""
    out = []
    for k in ('synonym', 'ascii_punct', 'quotes', 'space', 'nospace', 'comma', 'comment_line', 'comment_eol', 'comment_inline',
              'blank', 'linebreak'):
        d = dict(OFF)
        d[k] = 1.0 if k not in ('comma',) else 0.5
        out.append((k, d))
    d = dict(OFF)
    d['tab'] = True
    out.append(('tab', d))
    for e in ('cr', 'crlf', 'lfcr'):
        d = dict(OFF)
        d['eol'] = e
        out.append(('eol-' + e, d))
    return out


def pair_toggles():
    st = single_toggles()
    out = []
    for i in range(len(st)):
        for j in range(i + 1, len(st)):
            (a, da), (b, db) = st[i], st[j]
            if a.startswith('eol-') and b.startswith('eol-'):
                continue
            d = dict(OFF)
            for k in d:
                if da[k] != OFF[k]:
                    d[k] = da[k]
                if db[k] != OFF[k]:
                    d[k] = db[k]
            out.append((a + '+' + b, d))
    return out


def comment(rng, kind, multiline_ok):
    body = rng.choice(COMMENT_BODIES)
    if kind == 0:
        return '注：' + body.replace('“', '').replace('「', '')           # to end of line
    if kind == 1:
        return '// ' + body
    if kind == 2:
        b = body.replace('*/', '')
        if multiline_ok and rng.random() < 0.4:
            b += '\n  第二行 ' + b
        return '/* ' + b + ' */'
    b = body.replace('“', '').replace('”', '').replace('「', '').replace('」', '')
    if multiline_ok and rng.random() < 0.4:
        b += '\n第二行'
    n = str(rng.randint(1, 99)) if rng.random() < 0.3 else ''
    return ('注' + n + '：“' + b + '”') if rng.random() < 0.5 else ('注' + n + '：「' + b + '」')


def line_index(text, pos):
    """0-based physical line of offset `pos`, counting line ends as the lexer does: CR, LF, CRLF and LFCR are ONE line end each"""
    n, i = 0, 0
    while i < pos:
        c = text[i]
        if c in '\r\n':
            if i + 1 < len(text) and text[i + 1] in '\r\n' and text[i + 1] != c:
                i += 1
            n += 1
        i += 1
    return n


def relayout(rng, src, spans, layout=None, offsets=None):
    """src: canonical text (LF, 4-space indents, no comments); spans: [(start, end, type)] of its tokens in order.
    offsets: if a list is passed, it receives the offset of every token in the returned text (same order as spans)."""
    L = dict(DEFAULT)
    if layout:
        L.update(layout)
    tab = L['tab'] if L['tab'] is not None else (rng.random() < 0.5)
    eol = EOLS[L['eol'] if L['eol'] is not None else rng.choice(list(EOLS))]
    unit = '\t' if tab else '    '
    # line of each token and the indent of that line
    line_start = [0]
    for i, c in enumerate(src):
        if c == '\n':
            line_start.append(i + 1)

    def line_of(pos):
        lo, hi = 0, len(line_start) - 1
        while lo < hi:
            mid = (lo + hi + 1) // 2
            if line_start[mid] <= pos:
                lo = mid
            else:
                hi = mid - 1
        return lo

    def indent_of(ln):
        s = line_start[ln]
        k = 0
        while src.startswith('    ', s + 4 * k):
            k += 1
        return k

    out = []
    arr_depth = 0          # inside 【 】 an `=` is the map sign
    prev = None            # previous token (start, end, type)
    prev_line = -1
    stmt_indent = 0
    col_tokens = 0         # tokens emitted on the current output line
    for idx, (a, b, ty) in enumerate(spans):
        ln = line_of(a)
        first = ln != prev_line
        text = src[a:b]
        # ---- the gap before the token ---------------------------------------------------------------------------------
        if first:
            if prev is not None:
                if rng.random() < L['comment_eol']:
                    out.append(rng.choice(SPACES) + comment(rng, rng.choice([0, 1]), False))
                out.append(eol)
                for _ in range(2):
                    if rng.random() < L['blank']:
                        out.append(eol)
            stmt_indent = indent_of(ln)
            for _ in range(2):
                if rng.random() < L['comment_line']:
                    out.append(unit * rng.choice([stmt_indent, 0, stmt_indent + 1]) + comment(rng, rng.randrange(4), True).replace('\n', eol))
                    out.append(eol)
            out.append(unit * stmt_indent)
            if rng.random() < L['comma'] and ty not in (T_COMMA, T_SEMI):
                out.append(rng.choice(PUNCT[T_COMMA]))
            col_tokens = 0
        else:
            pt = prev[2]
            gap = ''
            need_space = (pt in ARITH_OPS or ty in ARITH_OPS)
            had_space = src[prev[1]:a] != ''
            broke = False
            # optional line break after ， 、 { 【 ： ？ / before 】 }
            no_comma = False
            if (pt in (T_COMMA, T_PAUSE, T_BRL, T_ARRL, T_COLON, T_QMARK) or ty in (T_ARRR, T_BRR)) and rng.random() < L['linebreak']:
                gap = eol + unit * stmt_indent
                broke = True
                # a break that is only excused by the closing bracket that follows must be followed by that bracket
                no_comma = pt not in (T_COMMA, T_PAUSE, T_BRL, T_ARRL, T_COLON, T_QMARK)
            else:
                if need_space:
                    gap = rng.choice(SPACES) if rng.random() < L['space'] else ' '
                    if '​' in gap or gap in ('\u000b', '\u000c'):
                        gap = ' '
                elif had_space:
                    gap = '' if rng.random() < L['nospace'] else (rng.choice(SPACES) if rng.random() < L['space'] else ' ')
                else:
                    gap = rng.choice(SPACES) if rng.random() < L['space'] else ''
                # a string / identifier directly after an identifier would be glued to it
                if gap == '' and pt == T_ID and ty in (T_ID, T_STRING):
                    gap = ' '
                if rng.random() < L['comment_inline']:
                    gap = gap + '/* ' + rng.choice(COMMENT_BODIES).replace('*/', '') + ' */' + (' ' if need_space else '')
            if not no_comma and rng.random() < L['comma'] and pt != T_COMMA and ty not in (T_COMMA, T_SEMI):
                gap = gap + rng.choice(PUNCT[T_COMMA]) + (' ' if need_space or rng.random() < 0.3 else '')
            out.append(gap)
        # ---- the token itself -------------------------------------------------------------------------------------------
        if ty == T_ARRL:
            arr_depth += 1
        if ty in SYN and rng.random() < L['synonym']:
            text = rng.choice(SYN[ty])
        elif ty == T_ASSIGNW and arr_depth == 0 and rng.random() < L['synonym']:
            text = '='
        elif ty == T_ASSIGNMARK and arr_depth == 0 and rng.random() < L['synonym']:
            text = '设为'
        elif ty in PUNCT and rng.random() < L['ascii_punct']:
            text = rng.choice(PUNCT[ty])
        elif ty == T_STRING and rng.random() < L['quotes'] and len(text) >= 2:
            body = text[1:-1]
            if not any(c in body for c in '“”「」『』‘’《》`\n\r'):
                text = rng.choice(['“%s”', '「%s」']) % body
        if ty == T_ARRR:
            arr_depth = max(0, arr_depth - 1)
        if offsets is not None:
            offsets.append(len(out))          # index into `out`; turned into a character offset below
        out.append(text)
        prev = (a, b, ty)
        prev_line = line_of(max(a, b - 1))   # the line on which this token ENDS (a text literal may span lines)
        col_tokens += 1
    # tail: optional end-of-line comment, trailing newline(s)
    if rng.random() < L['comment_eol']:
        out.append(' ' + comment(rng, rng.choice([0, 1]), False))
    k = rng.choice([0, 1, 1, 2])
    out.append(eol * k)
    if offsets is not None:
        acc, cum = 0, []
        for x in out:
            cum.append(acc)
            acc += len(x)
        offsets[:] = [cum[i] for i in offsets]
    return ''.join(out)
