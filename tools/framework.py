"""Common machinery of ./check: build, proof obligations, correspondence runs, verdicts, evidence.

One run of `./check Cxx --tier T`:
  1. regenerate Generated/*.lean from $ZN_REPO (default /repo), rebuild harness (-tags verif)
  2. proof obligations: lake build ZnVerif.Properties.Cxx, audit axioms, grep forbidden tokens
  3. correspondence: same case lines to Go harness, Lean model, Lean spec oracle
  4. verdict (DESIGN §4), known findings (§5), evidence JSON, exit code
"""
import json, os, random, re, subprocess, sys, time, hashlib, tempfile, shutil
from concurrent.futures import ThreadPoolExecutor

V = os.path.dirname(os.path.dirname(os.path.abspath(__file__)))
B = V + '/.build'
LEAN = V + '/lean'
ZN_REPO = os.environ.get('ZN_REPO', '/repo')
GOENV = dict(os.environ, GOFLAGS='-mod=mod', GOPROXY='off', GOSUMDB='off', GOTOOLCHAIN='local')
ALLOWED_AXIOMS = {'propext', 'Classical.choice', 'Quot.sound'}
FORBIDDEN = re.compile(r'\b(sorry|admit|native_decide|bv_decide|implemented_by)\b|^\s*axiom\s|\bunsafe\s|maxHeartbeats\s+0\b')
NCPU = os.cpu_count() or 4


def sh(cmd, **kw):
    return subprocess.run(cmd, shell=isinstance(cmd, str), stdout=subprocess.PIPE, stderr=subprocess.STDOUT,
                          text=True, **kw)


class Ctx:
    def __init__(self, pid, tier, seed, replay=None):
        self.pid, self.tier, self.seed, self.replay = pid, tier, seed, replay
        self.rng = random.Random(seed * 1000003 + int(pid[1:]))
        self.t0 = time.time()
        self.evaluations = 0
        self.nontrivial = set()
        self.samples = []
        self.dist = {}
        self.violations = []        # (what, case, go, spec)  go != spec on the property's observables
        self.disagreements = []     # (what, case, go, model) correspondence broken
        self.known_hit = []         # known findings re-observed
        self.broken_obligations = []  # names of theorems / tables that no longer check
        self.obligations = []       # (name, axioms or None)
        self.discharged = 0
        self.notes = []
        self.exhaustive = False
        self.streams = []
        self.known = load_known(pid)
        self.fingerprints_changed = []

    # ---- bookkeeping -------------------------------------------------------------------------
    def count(self, key, n=1):
        self.dist[key] = self.dist.get(key, 0) + n

    def sample(self, s):
        if len(self.samples) < 12:
            self.samples.append(s)

    def nontriv(self, case):
        self.nontrivial.add(hashlib.blake2b(case.encode(), digest_size=8).digest())

    def quick(self):
        return self.tier == 'quick'

    def n(self, q, t):
        return q * getattr(self, 'boost', 1) if self.tier == 'quick' else t

    # ---- running the two sides ---------------------------------------------------------------
    def run_go(self, lines, timeout_ms=4000, parallel=True):
        out = run_lines([B + '/znharness'], lines, env=dict(os.environ, ZNH_TIMEOUT_MS=str(timeout_ms)),
                        parallel=parallel, restart=True)
        if parallel and len(lines) > 1:
            # the watchdog measures wall-clock time: on a loaded machine a batch of 16 parallel processes answers `timeout` (or dies)
            # on lines that take milliseconds alone. Such answers are asked again, alone, with three times the watchdog; what
            # times out again stands, and after five of those in a row the rest keep their first answer (the code hangs)
            again = 0
            for i, a in enumerate(out):
                if a.startswith('timeout') or a.startswith('crash'):
                    if again >= 5:
                        break
                    out[i] = run_lines([B + '/znharness'], [lines[i]], env=dict(os.environ, ZNH_TIMEOUT_MS=str(3 * timeout_ms)),
                                       parallel=False, restart=True)[0]
                    self.count('go_answers_asked_again_alone')
                    again = again + 1 if (out[i].startswith('timeout') or out[i].startswith('crash')) else 0
        return out

    def run_lean(self, lines, parallel=True):
        return run_lines([LEAN + '/.lake/build/bin/zndriver'], lines, parallel=parallel, restart=True)

    # ---- verdict helpers ---------------------------------------------------------------------
    def in_known(self, case, what=None):
        for k in self.known:
            pred = k.get('_pred')
            if pred and pred(case):
                return k
            if k.get('witness') == case:
                return k
        return None

    def violation(self, what, case, go, spec):
        if go == 'notrun' or (isinstance(go, str) and go.startswith('notrun')):
            self.notrun = getattr(self, 'notrun', 0) + 1   # not evidence of anything: run_lines gave up after MAX_STALLS hangs
            return
        k = self.in_known(case)
        if k is not None:
            if k not in self.known_hit:
                self.known_hit.append(k)
            return
        self.violations.append((what, case, go, spec))

    def disagreement(self, what, case, go, model):
        if go == 'notrun' or model == 'notrun':
            return
        self.disagreements.append((what, case, go, model))

    def compare3(self, what, cases, go, model, spec, proj_model=None, proj_spec=None, nontrivial=None):
        """Generic three-way comparison. proj_* map an output line to the observables compared."""
        pm = proj_model or (lambda x: x)
        ps = proj_spec or (lambda x: x)
        for i, c in enumerate(cases):
            self.evaluations += 1
            g = go[i]
            if model is not None and pm(g) != pm(model[i]):
                self.disagreement(what, c, g, model[i])
            if spec is not None and ps(g) != ps(spec[i]):
                self.violation(what, c, g, spec[i])
            if nontrivial is None or nontrivial(c, g):
                self.nontriv(c)
        self.streams.append({'stream': what, 'cases': len(cases)})


MAX_STALLS = 40


def run_lines(cmd, lines, env=None, parallel=True, restart=True):
    """Feed lines to a line-protocol process; returns one answer per line.
    A process that dies or times out mid-way is restarted at the following line; the line on which it
    stopped answering is recorded as `crash` (or `timeout` if it said so)."""
    if not lines:
        return []
    nchunks = min(NCPU, max(1, len(lines) // 200)) if parallel else 1
    size = (len(lines) + nchunks - 1) // nchunks
    chunks = [lines[i:i + size] for i in range(0, len(lines), size)]

    stalls = {'n': 0}   # lines (over all chunks) on which the process hung or died; past MAX_STALLS the rest is not run —
                        # the check has failed by then, and thousands of 4-second watchdog waits would tell nothing more

    def work(chunk):
        res = []
        pos = 0
        while pos < len(chunk):
            if stalls['n'] >= MAX_STALLS:
                res.extend(['notrun'] * (len(chunk) - pos))
                break
            data = '\n'.join(chunk[pos:]) + '\n'
            p = subprocess.run(cmd, input=data, stdout=subprocess.PIPE, stderr=subprocess.PIPE, text=True, env=env)
            outl = p.stdout.split('\n')
            if outl and outl[-1] == '':
                outl.pop()
            want = len(chunk) - pos
            if len(outl) >= want:
                res.extend(outl[:want])
                pos = len(chunk)
                break
            res.extend(outl)
            pos += len(outl)
            stalls['n'] += 1
            if outl and outl[-1] == 'timeout':
                continue  # the timeout line itself was answered
            # died without answering line `pos`
            tail = (p.stderr or '')[-300:].replace('\n', ' | ')
            res.append('crash ' + ('stack-overflow' if 'stack overflow' in (p.stderr or '') else 'exit%d' % p.returncode) + (' ' if not tail else ''))
            pos += 1
            if not restart:
                res.extend(['notrun'] * (len(chunk) - pos))
                break
        return res

    if len(chunks) == 1:
        return work(chunks[0])
    with ThreadPoolExecutor(max_workers=NCPU) as ex:
        parts = list(ex.map(work, chunks))
    out = []
    for p in parts:
        out.extend(p)
    return out


# ---------------------------------------------------------------------------------------------
# known findings

def load_known(pid):
    """unrepaired findings that apply to this property (status "finding"), with their region predicates attached"""
    path = V + '/known_findings.json'
    if not os.path.exists(path):
        return []
    data = json.load(open(path))
    try:
        import known_regions
        preds = known_regions.PREDICATES
    except Exception:   # noqa
        preds = {}
    out = []
    for k in data.get('findings', []):
        if k.get('status') != 'finding':
            continue
        if k.get('property') == pid or pid in k.get('applies_to', []):
            k = dict(k)
            k['_pred'] = preds.get(k.get('id'))
            out.append(k)
    return out


def replay_known(ctx):
    """replays the witness of every listed finding of this property: while it still fails, one KNOWN-FINDING line"""
    for k in ctx.known:
        if k.get('property') != ctx.pid or not k.get('witness'):
            continue
        g = ctx.run_go([k['witness']], parallel=False)[0]
        still = g.startswith(k.get('fails_with', '\0'))
        ctx.notes.append('known finding %s: witness answers %r (%s)' % (k.get('id'), g[:80], 'still fails' if still else 'no longer fails'))
        if still and k not in ctx.known_hit:
            ctx.known_hit.append(k)


# ---------------------------------------------------------------------------------------------
# build + proof obligations

def build_all(ctx, lean_targets):
    """returns list of broken obligations (strings)"""
    broken = []
    r = sh([V + '/tools/build.sh'], env=GOENV)
    if r.returncode != 0:
        print(r.stdout[-3000:])
        # a tree that does not compile is not a property verdict; report as infrastructure failure
        print('BUILD-FAILED: harness/extractor build failed against', ZN_REPO)
        sys.exit(2)
    r = sh([B + '/znextract', '-repo', ZN_REPO, '-out', LEAN + '/ZnVerif/Generated', '-facts', B + '/facts.json'], env=GOENV)
    ctx.extract_log = r.stdout
    if r.returncode != 0:
        for ln in r.stdout.splitlines():
            if ln.startswith('EXTRACT-FAIL'):
                broken.append('table:' + ln[len('EXTRACT-FAIL '):])
        if not broken:
            broken.append('table:extractor crashed: ' + r.stdout[-300:])
    # lake build (locked: several checks may run at once)
    lock = open(B + '/.lake.lock', 'w')
    import fcntl
    fcntl.flock(lock, fcntl.LOCK_EX)
    try:
        r = sh(['lake', 'build', 'zndriver'] + lean_targets, cwd=LEAN)
    finally:
        fcntl.flock(lock, fcntl.LOCK_UN)
    ctx.lake_log = r.stdout
    if r.returncode != 0:
        ctx.lake_failed = True
        errs = [ln for ln in r.stdout.splitlines() if 'error' in ln.lower()]
        broken.append('lake-build: ' + ' ; '.join(errs[:6])[:1500])
    else:
        ctx.lake_failed = False
    return broken


# files whose functions each property's model mirrors (DESIGN appendix A); a changed fingerprint of one of their functions is
# reported in the evidence and triples the quick tier's generated volume — it is never a verdict by itself
MODELLED_FILES = {
    'C01': ['pkg/exec/eval.go', 'pkg/exec/id_match.go', 'pkg/value/number.go', 'pkg/syntax/zh/zh_ast.go'],
    'C02': ['pkg/exec/eval.go', 'pkg/runtime/vm.go', 'pkg/runtime/callframe.go', 'pkg/error/signal.go'],
    'C03': ['pkg/syntax/zh/zh_ast.go', 'pkg/syntax/zh/zh_parser.go', 'pkg/syntax/zh/tokens.go', 'pkg/syntax/zh/keyword.go', 'pkg/syntax/lexer.go'],
    'C04': ['pkg/syntax/zh/tokens.go', 'pkg/syntax/zh/keyword.go', 'pkg/syntax/id_range.go', 'pkg/exec/id_match.go'],
    'C05': ['pkg/syntax/parser.go', 'pkg/syntax/lexer.go', 'pkg/syntax/zh/tokens.go', 'pkg/syntax/zh/zh_parser.go', 'pkg/syntax/zh/zh_ast.go', 'pkg/exec/error_printer.go', 'pkg/exec/exec_varinput.go'],
    'C06': ['pkg/runtime/scope.go', 'pkg/runtime/vm.go', 'pkg/exec/eval.go', 'pkg/exec/eval_function.go', 'pkg/exec/globals.go'],
    'C07': ['pkg/value/value_util.go', 'pkg/exec/eval.go', 'pkg/value/array.go', 'pkg/value/hashmap.go', 'pkg/value/object.go'],
    'C08': ['pkg/exec/eval_function.go', 'pkg/exec/eval.go', 'pkg/exec/eval_class.go', 'pkg/value/function.go', 'pkg/value/class_model.go', 'pkg/value/object.go', 'pkg/runtime/vm.go', 'pkg/runtime/callframe.go'],
    'C09': ['pkg/exec/eval.go', 'pkg/exec/eval_function.go', 'pkg/value/function.go', 'pkg/value/exception.go', 'pkg/value/value_util.go', 'pkg/error/signal.go', 'pkg/runtime/vm.go'],
    'C10': ['pkg/value/array.go', 'pkg/value/hashmap.go', 'pkg/value/string.go', 'pkg/value/number.go', 'pkg/value/value_util.go', 'pkg/value/iv.go', 'pkg/exec/exec_varinput.go', 'pkg/runtime/vm.go'],
    'C11': ['pkg/exec/eval.go', 'pkg/value/value_util.go', 'pkg/value/hashmap.go', 'pkg/common/elem2json.go', 'pkg/value/object.go', 'pkg/runtime/module.go', 'pkg/server/http_handler.go'],
    'C12': ['pkg/value/array.go', 'pkg/value/hashmap.go', 'pkg/value/iv.go', 'pkg/exec/eval.go'],
    'C13': ['pkg/syntax/zh/tokens.go'],
    'C14': ['pkg/value/string.go', 'pkg/exec/format_str.go', 'pkg/exec/eval.go'],
    'C15': ['pkg/exec/eval.go', 'pkg/exec/interpreter.go', 'pkg/runtime/module.go', 'pkg/runtime/vm.go', 'pkg/runtime/scope.go'],
    'C16': ['pkg/exec/globals.go', 'pkg/exec/interpreter.go', 'pkg/exec/eval.go', 'pkg/server/http_handler.go', 'pkg/server/pg_handler.go'],
    'C17': ['pkg/io/input.go', 'pkg/io/file_stream.go', 'pkg/io/byte_stream.go', 'pkg/exec/interpreter.go'],
    'C18': ['pkg/exec/error_printer.go', 'pkg/syntax/lexer.go', 'pkg/runtime/vm.go', 'pkg/runtime/callframe.go', 'pkg/exec/eval.go'],
    'C19': ['pkg/common/elem2json.go', 'stdlib/json/json.go', 'pkg/value/hashmap.go'],
    'C20': ['pkg/server/pm_server.go', 'pkg/server/util.go'],
}


def check_fingerprints(ctx):
    try:
        now = json.load(open(B + '/facts.json')).get('fingerprints', {})
        base = json.load(open(V + '/tools/fingerprints.json'))
    except Exception as e:   # noqa
        ctx.notes.append('fingerprints unavailable: %s' % e)
        return
    files = MODELLED_FILES.get(ctx.pid, [])
    changed = []
    for k in sorted(set(now) | set(base)):
        if k.split('|')[0] in files and now.get(k) != base.get(k):
            changed.append(k + (' (new)' if k not in base else ' (gone)' if k not in now else ''))
    ctx.fingerprints_changed = changed
    if changed:
        ctx.boost = 3
        ctx.notes.append('modelled functions edited since the model was written: quick-tier volume ×3')


def audit(ctx, pid):
    """Runs Audit/Cxx.lean; every listed theorem must depend only on allowed axioms."""
    path = 'ZnVerif/Audit/%s.lean' % pid
    r = sh(['lake', 'env', 'lean', path], cwd=LEAN)
    text = r.stdout
    obligations = []
    # "'name' depends on axioms: [a, b]"  or  "'name' does not depend on any axioms"
    for m in re.finditer(r"'([^']+)' depends on axioms: \[([^\]]*)\]", text.replace('\n', ' ')):
        axs = [a.strip() for a in m.group(2).split(',') if a.strip()]
        obligations.append((m.group(1), axs))
    for m in re.finditer(r"'([^']+)' does not depend on any axioms", text):
        obligations.append((m.group(1), []))
    bad = []
    for name, axs in obligations:
        extra = [a for a in axs if a not in ALLOWED_AXIOMS]
        if extra:
            bad.append('axioms:%s uses %s' % (name, extra))
    if r.returncode != 0:
        errs = [ln for ln in text.splitlines() if 'error' in ln]
        bad.append('audit: ' + ' ; '.join(errs[:5])[:1000])
    # expected list: every `#print axioms X` line of the audit file must have produced an answer
    want = re.findall(r'^#print axioms\s+(\S+)', open(LEAN + '/' + path).read(), re.M)
    got = {n for n, _ in obligations}
    for w in want:
        if w not in got and w.split('.')[-1] not in {g.split('.')[-1] for g in got}:
            bad.append('missing:%s' % w)
    ctx.obligations = obligations
    ctx.discharged = len([1 for n, a in obligations if all(x in ALLOWED_AXIOMS for x in a)])
    return bad, len(want)


def grep_forbidden():
    bad = []
    for root, _, files in os.walk(LEAN + '/ZnVerif'):
        for f in files:
            if not f.endswith('.lean'):
                continue
            p = os.path.join(root, f)
            in_block = 0
            for i, ln in enumerate(open(p, encoding='utf-8'), 1):
                s = ln
                # strip comments (block comments tracked crudely, line comments exactly)
                if in_block:
                    if '-/' in s:
                        in_block = 0
                        s = s.split('-/', 1)[1]
                    else:
                        continue
                if '/-' in s:
                    before, after = s.split('/-', 1)
                    if '-/' in after:
                        s = before + after.split('-/', 1)[1]
                    else:
                        s = before
                        in_block = 1
                s = s.split('--', 1)[0]
                if FORBIDDEN.search(s):
                    bad.append('%s:%d' % (p[len(LEAN) + 1:], i))
    for f in ['Driver.lean']:
        p = LEAN + '/' + f
        if os.path.exists(p):
            for i, ln in enumerate(open(p, encoding='utf-8'), 1):
                if FORBIDDEN.search(ln.split('--', 1)[0]) and 'partial' not in ln:
                    bad.append('%s:%d' % (f, i))
    return bad


def thorough_recheck(ctx, pid):
    """leanchecker over the property's compiled module (independent re-check of the .olean)."""
    r = sh(['lake', 'env', 'leanchecker', 'ZnVerif.Properties.%s' % pid], cwd=LEAN)
    ok = r.returncode == 0
    ctx.notes.append('leanchecker ZnVerif.Properties.%s: %s' % (pid, 'ok' if ok else r.stdout[-400:]))
    return ok


# ---------------------------------------------------------------------------------------------
# shrinking

def ddmin(items, failing):
    """classic delta debugging on a list; `failing(list)->bool`"""
    n = 2
    items = list(items)
    budget = 400
    while len(items) >= 2 and budget > 0:
        chunk = max(1, len(items) // n)
        reduced = False
        for i in range(0, len(items), chunk):
            cand = items[:i] + items[i + chunk:]
            budget -= 1
            if cand and failing(cand):
                items = cand
                n = max(n - 1, 2)
                reduced = True
                break
            if budget <= 0:
                break
        if not reduced:
            if chunk == 1:
                break
            n = min(len(items), n * 2)
    return items


# ---------------------------------------------------------------------------------------------
# finishing a run

TRUSTED_BASE = [
    "Lean 4.33.0 kernel (thorough tier: leanchecker re-check of the property module's .olean)",
    "axioms admitted in property theorems: propext, Classical.choice, Quot.sound only; no sorry/native_decide/bv_decide/own axioms (grepped and #print axioms on every run)",
    "znextract (go/ast pattern translator of data tables; a pattern miss is a broken obligation)",
    "correspondence harness (Go, -tags verif, linked against the working tree), generators, canonicalisation and diff",
    "Lean compiler/runtime when the model and spec oracle are executed by the driver; NumOps instantiated with Float only there",
    "the statements in lean/ZnVerif/Spec and lean/ZnVerif/Properties",
]


def finish(ctx, mod, n_obligations_expected):
    pid = ctx.pid
    os.makedirs(V + '/evidence', exist_ok=True)
    os.makedirs(V + '/replays', exist_ok=True)
    exit_code = 0
    lines = []
    # known findings re-observed
    for k in ctx.known_hit:
        lines.append(k.get('line') if str(k.get('line', '')).startswith('KNOWN-FINDING: property=%s ' % pid) else 'KNOWN-FINDING: property=%s %s' % (pid, k.get('what', k.get('id', ''))))
    replay_path = None
    if getattr(ctx, 'notrun', 0) and not ctx.violations and not ctx.disagreements:
        # lines were given up after MAX_STALLS hangs, yet nothing recorded a failure: the run decided nothing
        ctx.broken_obligations.append('correspondence: %d lines not run after %d hangs / crashes of the harness or the driver' % (ctx.notrun, MAX_STALLS))
    if ctx.violations:
        what, case, go, spec = ctx.violations[0]
        replay_path = V + '/replays/%s-%s-%d.json' % (pid, ctx.tier, ctx.seed)
        json.dump({'property': pid, 'kind': 'failing-input', 'stream': what, 'case': case, 'go': go, 'spec': spec,
                   'seed': ctx.seed, 'tier': ctx.tier, 'more': [dict(stream=w, case=c, go=g, spec=s) for w, c, g, s in ctx.violations[1:10]],
                   'broken_obligations': ctx.broken_obligations,
                   'correspondence_disagreements': [dict(stream=w, case=c, go=g, model=m) for w, c, g, m in ctx.disagreements[:10]]},
                  open(replay_path, 'w'), ensure_ascii=False, indent=1)
        lines.append('VIOLATION property=%s replay=%s' % (pid, replay_path))
        exit_code = 1
    elif ctx.disagreements or ctx.broken_obligations:
        replay_path = V + '/replays/%s-%s-%d.json' % (pid, ctx.tier, ctx.seed)
        json.dump({'property': pid, 'kind': 'no-failing-input-found',
                   'broken_obligations': ctx.broken_obligations,
                   'correspondence_disagreements': [dict(stream=w, case=c, go=g, model=m) for w, c, g, m in ctx.disagreements[:20]],
                   'searched': {'evaluations': ctx.evaluations, 'streams': ctx.streams},
                   'seed': ctx.seed, 'tier': ctx.tier}, open(replay_path, 'w'), ensure_ascii=False, indent=1)
        lines.append('VIOLATION property=%s replay=%s no-failing-input-found' % (pid, replay_path))
        exit_code = 1
    n_obl = max(n_obligations_expected, len(ctx.obligations))
    discharged = ctx.discharged if not ctx.broken_obligations else min(ctx.discharged, max(0, n_obl - len(ctx.broken_obligations)))
    ev = {
        'property_id': pid, 'tier': ctx.tier, 'seed': ctx.seed, 'level': 'proof',
        'coverage': {
            'obligations': n_obl, 'discharged': discharged,
            'checker_cmd': 'cd /verif/lean && lake build ZnVerif.Properties.%s && lake env lean ZnVerif/Audit/%s.lean' % (pid, pid)
                           + (' && lake env leanchecker ZnVerif.Properties.%s' % pid if ctx.tier == 'thorough' else ''),
            'trusted_base': TRUSTED_BASE + getattr(mod, 'TRUSTED_EXTRA', []),
            'theorems': [{'name': n, 'axioms': a} for n, a in ctx.obligations],
            'broken_obligations': ctx.broken_obligations,
            'evaluations': ctx.evaluations,
            'distinct_nontrivial': len(ctx.nontrivial),
            'rule': getattr(mod, 'RULE', ''),
            'samples': ctx.samples if ctx.samples else ['(no correspondence cases in this run)'],
            'distribution': ctx.dist,
            'streams': ctx.streams,
            'exhaustive': bool(ctx.exhaustive),
            'correspondence_disagreements': len(ctx.disagreements),
            'known_findings_observed': [k.get('id') for k in ctx.known_hit],
            'modelled_functions_changed': ctx.fingerprints_changed,
            'partial': getattr(mod, 'PARTIAL', ''),
            'notes': ctx.notes,
        },
        'assumptions': getattr(mod, 'ASSUMPTIONS', []),
        'wall_s': round(time.time() - ctx.t0, 2),
        'violations': len(ctx.violations) + (1 if (not ctx.violations and (ctx.disagreements or ctx.broken_obligations)) else 0),
    }
    json.dump(ev, open(V + '/evidence/%s.json' % pid, 'w'), ensure_ascii=False, indent=1)
    for ln in lines:
        print(ln)
    print('%s tier=%s seed=%d obligations=%d/%d evaluations=%d nontrivial=%d disagreements=%d violations=%d wall=%.1fs' % (
        pid, ctx.tier, ctx.seed, discharged, n_obl, ctx.evaluations, len(ctx.nontrivial), len(ctx.disagreements),
        len(ctx.violations), time.time() - ctx.t0))
    return exit_code
