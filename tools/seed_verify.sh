#!/bin/bash
# seed_verify.sh <dir with patch.diff + demo_test.go> <seed-name> <property> "<needs>"
# Confirms: demo passes on unchanged code, existing tests pass with the patch, demo fails with the patch.
set -u
D=$(readlink -f "$1"); NAME=$2; PROP=$3; NEEDS=$4
export GOFLAGS=-mod=mod GOPROXY=off GOSUMDB=off GOTOOLCHAIN=local
W=/tmp/seedverify.$$
git -C /repo worktree add -f --detach $W HEAD -q
demo=$(ls $D/demo_test.go $D/demo*.go 2>/dev/null | head -1)
pkg=$(grep -m1 '^package ' $demo | awk '{print $2}')
case $pkg in
  exec|exec_test) dir=pkg/exec;; value|value_test) dir=pkg/value;; runtime|runtime_test) dir=pkg/runtime;;
  zh|zh_test) dir=pkg/syntax/zh;; syntax|syntax_test) dir=pkg/syntax;; io|io_test) dir=pkg/io;; common|common_test) dir=pkg/common;;
  json|json_test) dir=stdlib/json;; server|server_test) dir=pkg/server;; mutdemo|mutdemo_test) dir=pkg/server/mutdemo;; *) dir=pkg/exec;;
esac
mkdir -p $W/$dir
cp $demo $W/$dir/zz_seed_demo_test.go
# pkg/server builds on Linux only with the verif tag, and two of its own tests fail on the unchanged tree: run the demo alone
DT=""; case $dir in pkg/server*) DT="-tags verif -run TestMutDemo";; esac
(cd $W && go test -vet=off -count=1 $DT ./$dir/ >/tmp/seedverify.base 2>&1); base=$?
if ! git -C $W apply $D/patch.diff; then echo "PATCH DOES NOT APPLY"; git -C /repo worktree remove --force $W; exit 3; fi
(cd $W && go test -vet=off -count=1 $DT ./$dir/ >/tmp/seedverify.mut 2>&1); mut=$?
rm $W/$dir/zz_seed_demo_test.go
(cd $W && go build ./pkg/exec/ ./pkg/value/ ./pkg/runtime/ ./pkg/syntax/... ./pkg/io/ ./pkg/common/ ./stdlib/json/ ./stdlib/file/ && go test -vet=off -count=1 ./pkg/exec/ ./pkg/value/ ./pkg/runtime/ ./pkg/syntax/... ./pkg/io/ ./pkg/common/ ./stdlib/json/ ./stdlib/file/ >/tmp/seedverify.suite 2>&1); suite=$?
git -C /repo worktree remove --force $W
echo "demo on unchanged: exit $base (want 0); demo with change: exit $mut (want !=0); existing suite with change: exit $suite (want 0)"
if [ $base -eq 0 ] && [ $mut -ne 0 ] && [ $suite -eq 0 ]; then
  mkdir -p /verif/seeded/$NAME
  cp $D/patch.diff /verif/seeded/$NAME/patch.diff
  cp $demo /verif/seeded/$NAME/$(basename $demo)
  [ -f $D/README.md ] && cp $D/README.md /verif/seeded/$NAME/README.md
  python3 - "$NAME" "$PROP" "$NEEDS" "$dir" <<'PY'
import json,sys
name,prop,needs,d=sys.argv[1:5]
json.dump({"property":prop,"needs":needs,"demo_location":d+"/zz_seed_demo_test.go",
 "confirmed":{"demo_passes_on_unchanged":True,"demo_fails_with_change":True,"existing_suite_passes_with_change":True,
 "commands":["cp demo_test.go <worktree>/%s/zz_seed_demo_test.go && go test -vet=off -count=1 ./%s/ (unchanged: pass; with patch: fail)"%(d,d),
             "go test -vet=off -count=1 ./pkg/exec/ ./pkg/value/ ./pkg/runtime/ ./pkg/syntax/... ./pkg/io/ ./pkg/common/ ./stdlib/json/ ./stdlib/file/ (with patch, without demo: pass)"]},
 "detected_by":[]},open('/verif/seeded/%s/meta.json'%name,'w'),ensure_ascii=False,indent=1)
PY
  echo "KEPT as /verif/seeded/$NAME"
else
  echo "REJECTED"; tail -5 /tmp/seedverify.base /tmp/seedverify.mut /tmp/seedverify.suite
fi
