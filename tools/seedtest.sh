#!/bin/bash
# seedtest.sh <patch.diff> <ID> [ID…] — run checks against a scratch worktree of /repo with the patch applied,
# from a scratch copy of /verif (so nothing shared is disturbed). Prints each check's verdict lines.
set -u
PATCH=$(readlink -f "$1"); shift
V=$(cd "$(dirname "$0")/.." && pwd)
S=/tmp/seedrun.$$
mkdir -p $S
git -C /repo worktree add -f --detach $S/repo HEAD -q
if ! git -C $S/repo apply "$PATCH" 2>/dev/null && ! git -C $S/repo apply --3way "$PATCH"; then echo "PATCH-DOES-NOT-APPLY"; git -C /repo worktree remove --force $S/repo; rm -rf $S; exit 3; fi
rsync -a --exclude .git $V/ $S/verif/
export ZN_REPO=$S/repo
cd $S/verif
for id in "$@"; do
  out=$(./check $id --tier ${TIER:-quick} 2>&1)
  code=$?
  echo "== $id exit=$code"
  echo "$out" | grep -E "VIOLATION|KNOWN-FINDING|BROKEN|BUILD-FAILED|tier=" | head -8
  if [ $code -ne 0 ]; then
    f=$(echo "$out" | grep -o 'replay=[^ ]*' | head -1 | cut -d= -f2)
    [ -n "$f" ] && [ -f "$f" ] && mkdir -p /tmp/seedreplays && cp "$f" /tmp/seedreplays/$(basename "$PATCH" .diff)-$id.json && python3 - "$f" <<'PY'
import json,sys
d=json.load(open(sys.argv[1]))
print('   kind:',d.get('kind'),'stream:',d.get('stream'))
c=d.get('case','')
print('   case:',c[:160])
print('   go  :',str(d.get('go'))[:200]); print('   spec:',str(d.get('spec'))[:200])
if d.get('broken_obligations'): print('   broken:',d['broken_obligations'][:2])
PY
  fi
done
cd /
git -C /repo worktree remove --force $S/repo
rm -rf $S
