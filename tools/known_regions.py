"""Region predicates of the known findings (known_findings.json entries with status "finding").
A predicate takes the protocol case line and answers whether the case lies in the excluded region."""


def _src_of_run(case):
    f = case.split(' ')
    if len(f) < 2 or f[0] not in ('run', 'ast', 'parse', 'compile', 'lex'):
        return None
    if f[1] == '-':
        return ''
    try:
        return ''.join(chr(int(x, 16)) for x in f[1].split('.'))
    except ValueError:
        return None


def multiline_block_header(case):
    """KF-C03-multiline-header: a block header (a statement ending in ： or ？ that opens an indented block) whose text spans
    several physical lines — through a multi-line text literal or a line break inside brackets — while the header's
    own line is indented; or whose continuation line is indented differently from its first line."""
    src = _src_of_run(case)
    if src is None:
        return False
    lines = src.replace('\r\n', '\n').replace('\r', '\n').split('\n')
    depth = 0            # open text literals / brackets carried over from earlier lines
    first_indent = None
    for ln in lines:
        starts_inside = depth > 0
        if not starts_inside:
            first_indent = len(ln) - len(ln.lstrip(' \t'))
        for ch in ln:
            if ch in '“「『‘《【（({[':
                depth += 1
            elif ch in '”」』’》】）)}]':
                depth = max(0, depth - 1)
        t = ln.rstrip()
        if starts_inside and depth == 0 and (t.endswith('：') or t.endswith(':') or t.endswith('？') or t.endswith('?')):
            cont_indent = len(ln) - len(ln.lstrip(' \t'))
            if first_indent or cont_indent != first_indent:
                return True
    return False


def statement_after_multiline_token(case):
    """KF-C03-statement-after-multiline-token: a multi-line comment (/* … */, 注：“ … ”) or — followed by ； — a multi-line text
    literal that was opened on an indented line closes on a later physical line, and the start of another statement follows
    on that closing line."""
    src = _src_of_run(case)
    if src is None:
        return False
    text = src.replace('\r\n', '\n').replace('\n\r', '\n').replace('\r', '\n')
    i, n = 0, len(text)
    line_start = 0

    def indented(pos):
        ls = text.rfind('\n', 0, pos) + 1
        return text[ls:ls + 1] in (' ', '\t')

    def rest_of_line(pos):
        e = text.find('\n', pos)
        return text[pos:] if e < 0 else text[pos:e]
    while i < n:
        ch = text[i]
        if text.startswith('/*', i):
            j = text.find('*/', i + 2)
            if j < 0:
                return False
            if '\n' in text[i:j] and indented(i) and rest_of_line(j + 2).strip() and not rest_of_line(j + 2).strip().startswith(('//', '/*', '注')):
                return True
            i = j + 2
            continue
        if ch in '“「':
            close = '”' if ch == '“' else '」'
            depth, j = 1, i + 1
            while j < n and depth:
                if text[j] == ch:
                    depth += 1
                elif text[j] == close:
                    depth -= 1
                j += 1
            if depth:
                return False
            is_comment = text[max(0, i - 12):i].rstrip().endswith(('：', ':')) and '注' in text[max(0, i - 12):i]
            tail = rest_of_line(j).strip()
            if '\n' in text[i:j] and indented(i):
                if is_comment and tail and not tail.startswith(('//', '/*', '注')):
                    return True
                if not is_comment and tail.startswith(('；', ';')) and tail[1:].strip():
                    return True
            i = j
            continue
        i += 1
    return False


PREDICATES = {
    'KF-C03-multiline-header': multiline_block_header,
    'KF-C03-statement-after-multiline-token': statement_after_multiline_token,
}
