"""Region predicates of the known findings (known_findings.json entries with status "finding").
A predicate takes the protocol case line and answers whether the case lies in the excluded region."""


def _src_of_run(case):
    f = case.split(' ')
    if len(f) < 2 or f[0] not in ('run', 'ast', 'parse', 'compile', 'lex'):
        return None
    if f[1] == '-':
        return ''
    try:
        return ''.join(chr(int(x, 16)) for x in f[1].split('.'))
    except ValueError:
        return None


def multiline_block_header(case):
    """KF-C03-multiline-header: a block header (a statement ending in ： or ？ that opens an indented block) whose text spans
    several physical lines — through a multi-line text literal or a line break inside brackets — while the header's
    own line is indented; or whose continuation line is indented differently from its first line."""
    src = _src_of_run(case)
    if src is None:
        return False
    lines = src.replace('\r\n', '\n').replace('\r', '\n').split('\n')
    depth = 0            # open text literals / brackets carried over from earlier lines
    first_indent = None
    for ln in lines:
        starts_inside = depth > 0
        if not starts_inside:
            first_indent = len(ln) - len(ln.lstrip(' \t'))
        for ch in ln:
            if ch in '“「『‘《【（({[':
                depth += 1
            elif ch in '”」』’》】）)}]':
                depth = max(0, depth - 1)
        t = ln.rstrip()
        if starts_inside and depth == 0 and (t.endswith('：') or t.endswith(':') or t.endswith('？') or t.endswith('?')):
            cont_indent = len(ln) - len(ln.lstrip(' \t'))
            if first_indent or cont_indent != first_indent:
                return True
    return False


PREDICATES = {
    'KF-C03-multiline-header': multiline_block_header,
}
