#!/bin/bash
# tools/coverage.sh [tier] — which statements of the interpreter the correspondence streams execute.
# Runs all twenty checks from a scratch copy of /verif whose harness is built with `go build -cover -coverpkg=…/Zn/...`
# (ZN_COVER=1, see tools/build.sh) and prints the per-function coverage (go tool covdata) into coverage-<tier>.txt.
# A measurement for widening the generators; not a check, not registered in MANIFEST.json.
set -e
export GOFLAGS=-mod=mod GOPROXY=off GOSUMDB=off GOTOOLCHAIN=local
V=$(cd "$(dirname "$0")/.." && pwd)
TIER=${1:-quick}
W=$(mktemp -d /tmp/zncov.XXXXXX)
rsync -a --exclude .git $V/ $W/verif/
cd $W/verif
rm -f .build/znharness
export ZN_COVER=1 ZN_RACE=0 GOCOVERDIR=$W/cov
mkdir -p $GOCOVERDIR
for i in 01 02 03 04 05 06 07 08 09 10 11 12 13 14 15 16 17 18 19 20; do
  ./check C$i --tier $TIER 2>&1 | grep -E "VIOLATION|tier=" || true
done
mkdir -p $W/merged && go tool covdata merge -i=$GOCOVERDIR -o=$W/merged
go tool covdata textfmt -i=$W/merged -o=$W/cover.txt
grep -v "^znharness/" $W/cover.txt > $W/cover2.txt
(cd ${ZN_REPO:-/repo} && go tool cover -func=$W/cover2.txt) > $V/coverage-$TIER.txt
tail -1 $V/coverage-$TIER.txt
cd /
rm -rf $W
