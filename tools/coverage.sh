#!/bin/bash
# tools/coverage.sh [tier] — which statements of the interpreter the correspondence streams execute.
# Builds the harness with `go build -cover -coverpkg=…/Zn/...`, swaps it in for one pass over all twenty checks, and prints the
# per-function coverage of the modelled packages (go tool covdata).  A measurement for widening the generators; not a check.
set -e
export GOFLAGS=-mod=mod GOPROXY=off GOSUMDB=off GOTOOLCHAIN=local
V=$(cd "$(dirname "$0")/.." && pwd)
TIER=${1:-quick}
W=$(mktemp -d /tmp/zncov.XXXXXX)
rsync -a --exclude .git $V/ $W/verif/
cd $W/verif
ZN_RACE=0 tools/build.sh >/dev/null
H=.build/harness-src
TAGS=verif,znserver,pmhooks
sed -i 's/^go 1.18/go 1.21/' $H/go.mod   # binaries built with -cover write no data when the main module says go < 1.20
(cd $H && go build -cover -coverpkg=github.com/DemoHn/Zn/... -tags $TAGS -o ../znharness.cov .)
mv .build/znharness .build/znharness.plain
cat > .build/znharness <<EOS
#!/bin/bash
exec $W/verif/.build/znharness.cov "\$@"
EOS
chmod +x .build/znharness
# keep build.sh from rebuilding over the wrapper
sed -i 's#^(cd \$H && go build -tags \$TAGS -o \$B/znharness .)#true#' tools/build.sh
export GOCOVERDIR=$W/cov
mkdir -p $GOCOVERDIR
for i in 01 02 03 04 05 06 07 08 09 10 11 12 13 14 15 16 17 18 19 20; do
  ZN_RACE=0 ./check C$i --tier $TIER 2>&1 | grep -E "VIOLATION|tier=" || true
done
mkdir -p $W/merged && go tool covdata merge -i=$GOCOVERDIR -o=$W/merged
go tool covdata textfmt -i=$W/merged -o=$W/cover.txt
(cd ${ZN_REPO:-/repo} && go tool cover -func=$W/cover.txt) > $V/coverage-$TIER.txt
tail -1 $V/coverage-$TIER.txt
cd /
rm -rf $W
