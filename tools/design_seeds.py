#!/usr/bin/env python3
"""rewrites the block between <!-- SEEDS-BEGIN --> and <!-- SEEDS-END --> of DESIGN.md from seeded/*/meta.json"""
import json, os, glob
V = os.path.dirname(os.path.dirname(os.path.abspath(__file__)))
rows = []
for d in sorted(glob.glob(V + '/seeded/*/meta.json')):
    m = json.load(open(d))
    name = os.path.basename(os.path.dirname(d))
    rows.append('| `%s` | %s | %s | %s | %s |' % (name, m['property'], m['needs'].replace('|', '/'), ', '.join(m.get('detected_by') or ['— not yet run —']), (m.get('how') or '').replace('|', '/')))
block = ('<!-- SEEDS-BEGIN -->\n| seeded change (`seeded/<name>/`) | property | needs, to manifest | caught by | how / what had to be strengthened |\n|---|---|---|---|---|\n'
         + '\n'.join(rows) + '\n<!-- SEEDS-END -->')
p = V + '/DESIGN.md'
s = open(p).read()
if '<!-- SEEDS-BEGIN -->' in s:
    a = s.index('<!-- SEEDS-BEGIN -->'); b = s.index('<!-- SEEDS-END -->') + len('<!-- SEEDS-END -->')
    s = s[:a] + block + s[b:]
else:
    s += '\n### 12.6 Seeded changes and which checks catch them\n\nEvery change below was written by a fresh sub-agent that saw only the property text and a scratch worktree, and was kept only after I confirmed (tools/seed_verify.sh) that its demonstration passes on the unchanged code, fails with the change, and that the existing suite still passes with the change. Checks were run with `tools/seedtest.sh` (scratch worktree + scratch copy of /verif, quick tier, seed 1).\n\n' + block + '\n'
open(p, 'w').write(s)
print(len(rows), 'seeds listed')
