//go:build !pmhooks

// Built when $ZN_REPO/pkg/server lacks the verif hook files (name_pipe_linux.go, verif_hooks.go): the package
// does not compile on Linux then, so the `pm` op cannot link against it.  Every other op keeps working.
package main

func init() {
	register("pm", func(f []string) string { return "err no-hooks" })
	register("pmreal", func(f []string) string { return "err no-hooks" })
}

func childWorkerMain() {}
