package main

// C11 — repetition ops: the same execution N times in ONE process. The Go runtime starts every `range` over a map at
// a fresh random position, so any observable that depends on map iteration order shows up as more than one outcome.
//
//   repeat <N> <src-cps> [inputs…]                      fresh interpreter per run, LoadScript
//   repeatfiles <N> <n> (<relpath-hex> <src-cps>)*n <main-relpath-hex> [inputs…]   module trees, LoadFile
//   httpreq <N> <method-hex> <target-hex> <nh> (<name-hex> <value-hex>)*nh <body-hex> <src-cps>
//            a request in wire format → http.ReadRequest → the real ZnHttpHandler.ServeHTTP (pkg/server) → recorder
//
// answer:  rep <distinct> <outcome₁>              all N outcomes equal
//          rep <distinct> <outcome₁> ## <outcome₂> [## msg₁-hex msg₂-hex]   first two distinct outcomes
// An outcome is the canonical `ok <value> | <trace>` / `err … | <trace>` of op `run`; two runs also count as different
// when their full error TEXT differs (the property names the message), which canonErr alone would hide.

import (
	"runtime"
	"crypto/sha256"
	"encoding/hex"
	"fmt"
	"os"
	"path/filepath"
	"sort"
	"strconv"
	"strings"

	"github.com/DemoHn/Zn/pkg/exec"
	r "github.com/DemoHn/Zn/pkg/runtime"
)

func init() {
	register("repeat", opRepeat)
	register("repeatfiles", opRepeatFiles)
	register("exprinput", opExprInput)
}

type outcomeSet struct {
	order []string          // distinct keys in order of first appearance
	canon map[string]string // key → canonical outcome
	msg   map[string]string // key → error text
}

func newOutcomeSet() *outcomeSet {
	return &outcomeSet{canon: map[string]string{}, msg: map[string]string{}}
}

func (s *outcomeSet) add(canon, msg string) {
	h := sha256.Sum256([]byte(msg))
	key := canon + "\x00" + hex.EncodeToString(h[:8])
	if _, ok := s.canon[key]; ok {
		return
	}
	s.order = append(s.order, key)
	s.canon[key] = canon
	s.msg[key] = msg
}

func (s *outcomeSet) answer() string {
	var sb strings.Builder
	fmt.Fprintf(&sb, "rep %d %s", len(s.order), s.canon[s.order[0]])
	if len(s.order) > 1 {
		sb.WriteString(" ## " + s.canon[s.order[1]])
		if s.msg[s.order[0]] != s.msg[s.order[1]] {
			sb.WriteString(" ## " + hexs(s.msg[s.order[0]]) + " " + hexs(s.msg[s.order[1]]))
		}
	}
	return sb.String()
}

func oneOutcome(res r.Element, err error, tr []byte) (string, string) {
	if err != nil {
		return canonErr(err) + " | " + traceField(tr), exec.DisplayError(err)
	}
	return "ok " + canon(res, 0) + " | " + traceField(tr), ""
}

func opRepeat(f []string) string {
	n, _ := strconv.Atoi(f[0])
	src := parseCps(f[1])
	set := newOutcomeSet()
	for i := 0; i < n; i++ {
		// when the collector runs is timing: some repetitions start right after two collections (which empty every sync.Pool)
		if i == 2 || i == n/2+1 {
			runtime.GC()
			runtime.GC()
		}
		inputs := parseInputs(f[2:])
		interp := exec.NewInterpreter("verif").SetExternalLibs(stdLibs())
		captureStdout()
		res, err := interp.LoadScript(src).Execute(inputs)
		tr := finishCapture()
		set.add(oneOutcome(res, err, tr))
	}
	return set.answer()
}

func opRepeatFiles(f []string) string {
	n, _ := strconv.Atoi(f[0])
	nf, _ := strconv.Atoi(f[1])
	dir, err := os.MkdirTemp("", "znh-rep-")
	if err != nil {
		panic(err)
	}
	defer os.RemoveAll(dir)
	for i := 0; i < nf; i++ {
		rel := unhex(f[2+2*i])
		p := filepath.Join(dir, rel)
		os.MkdirAll(filepath.Dir(p), 0o755)
		os.WriteFile(p, []byte(string(parseCps(f[3+2*i]))), 0o644)
	}
	mainRel := unhex(f[2+2*nf])
	set := newOutcomeSet()
	for i := 0; i < n; i++ {
		inputs := parseInputs(f[3+2*nf:])
		interp := exec.NewInterpreter("verif").SetExternalLibs(stdLibs())
		captureStdout()
		res, err := interp.LoadFile(filepath.Join(dir, mainRel)).Execute(inputs)
		tr := finishCapture()
		c, m := oneOutcome(res, err, tr)
		// the temporary directory name is not part of the outcome
		set.add(c, strings.ReplaceAll(m, dir, "<dir>"))
	}
	return set.answer()
}


// exprinput <N> (<name-hex> <expr-hex>)*  →  exec.ExecExpressionInputText on a Go map, N times
func opExprInput(f []string) string {
	n, _ := strconv.Atoi(f[0])
	set := newOutcomeSet()
	for i := 0; i < n; i++ {
		m := map[string]string{}
		for j := 1; j+1 < len(f); j += 2 {
			m[unhex(f[j])] = unhex(f[j+1])
		}
		captureStdout()
		res, err := exec.ExecExpressionInputText(m)
		tr := finishCapture()
		if err != nil {
			set.add(canonErr(err)+" | "+traceField(tr), exec.DisplayError(err))
			continue
		}
		keys := make([]string, 0, len(res))
		for k := range res {
			keys = append(keys, k)
		}
		sort.Strings(keys)
		var sb strings.Builder
		for _, k := range keys {
			sb.WriteString(hexs(k) + "=" + canon(res[k], 0) + ";")
		}
		set.add("ok "+sb.String()+" | "+traceField(tr), "")
	}
	return set.answer()
}
