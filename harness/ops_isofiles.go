package main

import (
	"bytes"
	"fmt"
	"os"
	"os/exec"
	"path/filepath"
	"strconv"
	"strings"
	"sync"

	zexec "github.com/DemoHn/Zn/pkg/exec"
)

func init() {
	register("fseq", opFileSeq)
	register("runat", opRunAt)
	register("frace", opFileRace)
}

// runOneFile: LoadFile(path).Execute on `it`, canonical answer (the format of `runfiles`)
func runOneFile(it *zexec.Interpreter, path string) (out string) {
	defer func() {
		if r := recover(); r != nil {
			restoreStdout()
			out = "panic"
		}
	}()
	captureStdout()
	res, err := it.LoadFile(path).Execute(nil)
	tr := finishCapture()
	if err != nil {
		return canonErr(err) + " | " + traceField(tr)
	}
	return "ok " + canon(res, 0) + " | " + traceField(tr)
}

// runat <abs-path-hex>  →  LoadFile(path).Execute on a new interpreter (used for the brand-new-process oracle of fseq)
func opRunAt(f []string) string {
	return runOneFile(zexec.NewInterpreter("verif").SetExternalLibs(stdLibs()), unhex(f[0]))
}

func applyFileOps(root string, f []string, m int) {
	for j := 0; j < m; j++ {
		op, rel, src := f[3*j], unhex(f[3*j+1]), f[3*j+2]
		p := filepath.Join(root, rel)
		switch op {
		case "w":
			os.MkdirAll(filepath.Dir(p), 0o755)
			os.WriteFile(p, []byte(string(parseCps(src))), 0o644)
		case "d":
			os.Remove(p)
		}
	}
}

// fseq <mode> <k> step*k     step = <m> (<w|d> <relpath-hex> <src-cps|->)*m <main-relpath-hex>
// One temp root for the line; the files stay between the steps (a step writes / rewrites / deletes files, then executes one
// main file through LoadFile). Answers of ALL k executions joined by " ;; ".
// mode 0: a new Interpreter per execution; 1: one shared Interpreter; 2: every execution in a brand-new process (the oracle)
func opFileSeq(f []string) string {
	mode := f[0]
	k, _ := strconv.Atoi(f[1])
	root, err := os.MkdirTemp("", "znh-fseq-")
	if err != nil {
		panic(err)
	}
	defer os.RemoveAll(root)
	var shared *zexec.Interpreter
	if mode == "1" {
		shared = zexec.NewInterpreter("verif").SetExternalLibs(stdLibs())
	}
	outs := []string{}
	pos := 2
	for i := 0; i < k; i++ {
		m, _ := strconv.Atoi(f[pos])
		applyFileOps(root, f[pos+1:], m)
		mainPath := filepath.Join(root, unhex(f[pos+1+3*m]))
		pos += 2 + 3*m
		switch mode {
		case "2":
			cmd := exec.Command(os.Args[0])
			cmd.Stdin = strings.NewReader("runat " + hexs(mainPath) + "\n")
			var out bytes.Buffer
			cmd.Stdout = &out
			if err := cmd.Run(); err != nil {
				outs = append(outs, "fresh-failed "+err.Error())
			} else {
				outs = append(outs, strings.TrimRight(out.String(), "\n"))
			}
		case "1":
			outs = append(outs, runOneFile(shared, mainPath))
		default:
			outs = append(outs, runOneFile(zexec.NewInterpreter("verif").SetExternalLibs(stdLibs()), mainPath))
		}
	}
	return strings.Join(outs, " ;; ")
}

// frace <goroutines> <reps> <k> project*k     project = <m> (w <relpath-hex> <src-cps>)*m <main-relpath-hex> <want-hex>
// One shared Interpreter; goroutine g executes the main file of project g%k repeatedly; every answer (value / error, no trace: the
// programs must not display) must equal <want>, the generator's ground truth for that project.
func opFileRace(f []string) string {
	g, _ := strconv.Atoi(f[0])
	reps, _ := strconv.Atoi(f[1])
	k, _ := strconv.Atoi(f[2])
	root, err := os.MkdirTemp("", "znh-frace-")
	if err != nil {
		panic(err)
	}
	defer os.RemoveAll(root)
	mains, wants := make([]string, k), make([]string, k)
	pos := 3
	for i := 0; i < k; i++ {
		m, _ := strconv.Atoi(f[pos])
		applyFileOps(root, f[pos+1:], m)
		mains[i] = filepath.Join(root, unhex(f[pos+1+3*m]))
		wants[i] = unhex(f[pos+2+3*m])
		pos += 3 + 3*m
	}
	shared := zexec.NewInterpreter("verif").SetExternalLibs(stdLibs())
	var wg sync.WaitGroup
	var mu sync.Mutex
	bad := ""
	for n := 0; n < g; n++ {
		wg.Add(1)
		go func(n int) {
			defer wg.Done()
			i := n % k
			for r := 0; r < reps; r++ {
				got := ""
				func() {
					defer func() {
						if rec := recover(); rec != nil {
							got = "panic"
						}
					}()
					res, err := shared.LoadFile(mains[i]).Execute(nil)
					if err != nil {
						got = canonErr(err)
					} else {
						got = "ok " + canon(res, 0)
					}
				}()
				if got != wants[i] {
					mu.Lock()
					if bad == "" {
						bad = fmt.Sprintf("mismatch project=%d got=%s want=%s", i, strings.ReplaceAll(got, " ", "_"), strings.ReplaceAll(wants[i], " ", "_"))
					}
					mu.Unlock()
					return
				}
			}
		}(n)
	}
	wg.Wait()
	if bad != "" {
		return bad
	}
	return "ok"
}
