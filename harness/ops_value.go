// C10: one member / operator / constructor / library function / input-variable text applied to real values.
//
//   value <receiver-spec> <kind> <member-hex|-> <arg-spec>*
//
// kinds
//   g   receiver.GetProperty(member)                       s   receiver.SetProperty(member, arg0)
//   m   receiver.ExecMethod(member, args)
//   ir  index read  `receiver # arg0`  (value.NewArrayIV / NewHashMapIV(...).ReduceRHS, chosen as getMemberExprIV does)
//   iw  index write `receiver # arg0 = arg1`               (…ReduceLHS)
//   mr  value.NewMemberIV(receiver, member).ReduceRHS()    mw  …ReduceLHS(arg0)
//   c   receiver.(ConstructableElement).Construct(args)    call receiver.(*value.Function).Exec(nil, args)
//   str receiver.String()      dup value.DuplicateValue(receiver)      cmp value.CompareValues(receiver, arg0, verb=member)
//   vlp / vep / vap  value.Validate{Least,Exact,All}Params(args, member split at commas…)
//   vi  exec.ExecVarInputText(member as text)              ei  exec.ExecExpressionInputText({"甲": text})
//
// value specs (no blanks inside):
//   null  n:<16 hex bits|nan>  s:<hex of bytes|->  b:0|1  [spec,…]  {<hex key>=spec,…}
//   obj (fresh object of the user class 甲)  cls (class 甲)  fn (user method 函)  exc:<hex>  predef (the predefined 数值)
//   glob:<hex name>  lib:<hex lib>:<hex name>  reqcls respcls (pkg/common class definitions)  req resp (objects of them)
//   go:<tag> (a GoValue)   self (in an argument: the receiver itself, also inside [...] and {...})
//
// answers:  ok <canonical result> | <receiver afterwards>      err <class> <code> | <receiver afterwards>
//           (a nil element anywhere is printed nil!; a Go panic is answered `panic` by the harness main loop)
// File functions only ever see paths inside a private temporary directory (the first text argument is mapped).
package main

import (
	"fmt"
	"math"
	"os"
	"path/filepath"
	"sort"
	"strconv"
	"strings"
	"sync"

	"github.com/DemoHn/Zn/pkg/common"
	zerr "github.com/DemoHn/Zn/pkg/error"
	"github.com/DemoHn/Zn/pkg/exec"
	r "github.com/DemoHn/Zn/pkg/runtime"
	"github.com/DemoHn/Zn/pkg/value"
)

func init() {
	register("value", opValue)
}

// ---- the user class, created once per process by running a Zn snippet -----------------------------

const valueSnippet = "定义甲：\n" +
	"    其a设为1\n" +
	"    其b设为【1，2】\n" +
	"\n" +
	"    如何取a？\n" +
	"        输出 其a\n" +
	"\n" +
	"    如何加？\n" +
	"        输入X\n" +
	"        输出 X + 其a\n" +
	"\n" +
	"    如何坏？\n" +
	"        输出 1 / 0\n" +
	"\n" +
	"如何函？\n" +
	"    输入X\n" +
	"    输出 X\n" +
	"\n" +
	"输出 【甲，函】\n"

var (
	snippetOnce sync.Once
	userClass   *value.ClassModel
	userFn      *value.Function
)

func loadSnippet() {
	snippetOnce.Do(func() {
		interp := exec.NewInterpreter("verif").SetExternalLibs(stdLibs())
		res, err := interp.LoadScript([]rune(valueSnippet)).Execute(r.ElementMap{})
		if err != nil {
			panic("value snippet failed: " + exec.DisplayError(err))
		}
		arr := res.(*value.Array).GetValue()
		userClass = arr[0].(*value.ClassModel)
		userFn = arr[1].(*value.Function)
	})
}

// ---- value specs -----------------------------------------------------------------------------------

type specParser struct {
	s    string
	pos  int
	self r.Element // the receiver, for the argument spec `self` (an argument that IS the receiver)
}

func (p *specParser) fail(msg string) {
	panic(fmt.Sprintf("bad value spec (%s) at %d in %q", msg, p.pos, p.s))
}

// token: up to one of , ] } = or end
func (p *specParser) token() string {
	start := p.pos
	for p.pos < len(p.s) && !strings.ContainsRune(",]}=", rune(p.s[p.pos])) {
		p.pos++
	}
	return p.s[start:p.pos]
}

func (p *specParser) parse() r.Element {
	if p.pos >= len(p.s) {
		p.fail("empty")
	}
	switch p.s[p.pos] {
	case '[':
		p.pos++
		items := []r.Element{}
		if p.pos < len(p.s) && p.s[p.pos] == ']' {
			p.pos++
			return value.NewArray(items)
		}
		for {
			items = append(items, p.parse())
			if p.pos >= len(p.s) {
				p.fail("unterminated list")
			}
			if p.s[p.pos] == ',' {
				p.pos++
				continue
			}
			if p.s[p.pos] == ']' {
				p.pos++
				return value.NewArray(items)
			}
			p.fail("list separator")
		}
	case '{':
		p.pos++
		pairs := []value.KVPair{}
		if p.pos < len(p.s) && p.s[p.pos] == '}' {
			p.pos++
			return value.NewHashMap(pairs)
		}
		for {
			k := p.token()
			if p.pos >= len(p.s) || p.s[p.pos] != '=' {
				p.fail("dictionary key")
			}
			p.pos++
			v := p.parse()
			pairs = append(pairs, value.KVPair{Key: unhex(k), Value: v})
			if p.pos >= len(p.s) {
				p.fail("unterminated dictionary")
			}
			if p.s[p.pos] == ',' {
				p.pos++
				continue
			}
			if p.s[p.pos] == '}' {
				p.pos++
				return value.NewHashMap(pairs)
			}
			p.fail("dictionary separator")
		}
	}
	t := p.token()
	switch {
	case t == "null":
		return value.NewNull()
	case t == "self":
		if p.self == nil {
			p.fail("self outside an argument")
		}
		return p.self
	case strings.HasPrefix(t, "n:"):
		if t[2:] == "nan" {
			return value.NewNumber(math.NaN())
		}
		u, err := strconv.ParseUint(t[2:], 16, 64)
		if err != nil {
			p.fail("number bits")
		}
		return value.NewNumber(math.Float64frombits(u))
	case strings.HasPrefix(t, "s:"):
		if t[2:] == "" {
			return value.NewString("")
		}
		return value.NewString(unhex(t[2:]))
	case strings.HasPrefix(t, "b:"):
		return value.NewBool(t[2:] == "1")
	case t == "obj":
		loadSnippet()
		o, err := userClass.Construct([]r.Element{})
		if err != nil {
			panic("cannot construct the user object")
		}
		return o
	case t == "cls":
		loadSnippet()
		return userClass
	case t == "fn":
		loadSnippet()
		return userFn
	case strings.HasPrefix(t, "exc:"):
		return value.NewException(unhex(t[4:]))
	case t == "predef":
		return exec.GlobalValues["数值"]
	case strings.HasPrefix(t, "glob:"):
		v, ok := exec.GlobalValues[unhex(t[5:])]
		if !ok {
			p.fail("no such global")
		}
		return v
	case strings.HasPrefix(t, "lib:"):
		parts := strings.Split(t[4:], ":")
		if len(parts) != 2 {
			p.fail("lib spec")
		}
		for _, l := range stdLibs() {
			if l.GetName() == unhex(parts[0]) {
				if v, ok := l.GetAllExportValues()[unhex(parts[1])]; ok {
					return v
				}
			}
		}
		p.fail("no such library value")
	case t == "reqcls":
		return common.CLASS_HttpRequest
	case t == "respcls":
		return common.CLASS_HttpResponse
	case t == "req":
		return value.NewObject(common.CLASS_HttpRequest, r.ElementMap{})
	case t == "resp":
		return value.NewObject(common.CLASS_HttpResponse, r.ElementMap{})
	case strings.HasPrefix(t, "go:"):
		return value.NewGoValue(t[3:], 42)
	}
	p.fail("unknown token " + t)
	return nil
}

func parseSpec(s string) r.Element { return parseSpecSelf(s, nil) }

func parseSpecSelf(s string, self r.Element) r.Element {
	p := &specParser{s: s, self: self}
	v := p.parse()
	if p.pos != len(s) {
		p.fail("trailing text")
	}
	return v
}

func isFileLib(spec string) bool {
	return strings.HasPrefix(spec, "lib:"+hexs("@文件")+":")
}

var sandboxDir string

func makeFixture(dir string) {
	os.WriteFile(filepath.Join(dir, "存在.txt"), []byte("内容\n第二行"), 0o644)
	os.Mkdir(filepath.Join(dir, "子目录"), 0o755)
	os.WriteFile(filepath.Join(dir, "子目录", "甲.txt"), []byte{0xff, 0xfe, 'a'}, 0o644)
}

// fileSandbox: the private directory the file functions work in.  With ZNH_C10_DIR set (the orchestrator made
// it and removes it after the run) one sub-directory per harness process, made once; otherwise a fresh
// temporary directory per operation.
func fileSandbox() (string, func()) {
	if base := os.Getenv("ZNH_C10_DIR"); base != "" {
		if sandboxDir == "" {
			d := filepath.Join(base, fmt.Sprintf("p%d", os.Getpid()))
			if err := os.MkdirAll(d, 0o755); err != nil {
				panic(err)
			}
			makeFixture(d)
			sandboxDir = d
		}
		return sandboxDir, func() {}
	}
	dir, err := os.MkdirTemp("", "znh-c10-")
	if err != nil {
		panic(err)
	}
	makeFixture(dir)
	return dir, func() { os.RemoveAll(dir) }
}

// mapPath: whatever text the case carries, the file functions get a path inside dir
func mapPath(dir string, s string) string {
	switch s {
	case "":
		return "" // the empty name stays empty: it names nothing, inside or outside
	case "@dir":
		return dir
	case "f":
		return filepath.Join(dir, "存在.txt")
	case "d":
		return filepath.Join(dir, "子目录")
	case "deep":
		return filepath.Join(dir, "无", "此", "目录", "文件.txt")
	}
	h := hexs(s)
	if len(h) > 200 {
		h = h[:200]
	}
	return filepath.Join(dir, "x"+h)
}

// ---- canonical errors ------------------------------------------------------------------------------

func valErr(err error) string {
	// the error has to be displayable, too
	_ = err.Error()
	_ = exec.DisplayError(err)
	switch e := err.(type) {
	case *zerr.SyntaxError:
		return fmt.Sprintf("err syn %d", e.Code)
	case *zerr.SemanticError:
		return fmt.Sprintf("err sem %d", e.Code)
	case *zerr.RuntimeError:
		return fmt.Sprintf("err rt %d", e.Code)
	case *zerr.IOError:
		return fmt.Sprintf("err io %d", e.Code)
	case *zerr.Signal:
		if e.SigType == zerr.SigTypeException {
			if ex, ok := e.Extra.(r.Element); ok {
				return "err sigexc " + canon(ex, 0)
			}
			return "err sigexc nil!"
		}
		return fmt.Sprintf("err sig %d", e.SigType)
	case *value.Exception:
		return "err exc 0"
	}
	return "err other 0"
}

func valAnswer(res r.Element, err error, recv r.Element, hasRes bool) string {
	after := "-"
	if recv != nil {
		after = canon(recv, 0)
		// the receiver has to stay displayable and copyable
		_ = recv.String()
		_ = value.DuplicateValue(recv)
	}
	if err != nil {
		return valErr(err) + " | " + after
	}
	if !hasRes {
		return "ok - | " + after
	}
	c := canon(res, 0)
	if !strings.Contains(c, "nil!") {
		_ = res.String()
		_ = value.DuplicateValue(res)
	}
	return "ok " + c + " | " + after
}

func canonMap(m r.ElementMap) string {
	keys := make([]string, 0, len(m))
	for k := range m {
		keys = append(keys, k)
	}
	sort.Strings(keys)
	var sb strings.Builder
	sb.WriteString("{")
	for i, k := range keys {
		if i > 0 {
			sb.WriteString(",")
		}
		sb.WriteString(hexs(k) + "=" + canon(m[k], 0))
	}
	sb.WriteString("}")
	return sb.String()
}

// indexIV mirrors getMemberExprIV's choice for `root # idx`; roots and indexes it rejects are passed on to
// the IV constructors anyway (array IV for a number index, dictionary IV for a text index), whose own
// root test then has to answer.
func indexIV(root r.Element, idx r.Element) (*value.IV, string) {
	switch v := root.(type) {
	case *value.Array:
		if n, ok := idx.(*value.Number); ok {
			return value.NewArrayIV(v, int(n.GetValue())), ""
		}
	case *value.HashMap:
		switch x := idx.(type) {
		case *value.Number:
			return value.NewHashMapIV(v, x.String()), ""
		case *value.String:
			return value.NewHashMapIV(v, x.String()), ""
		}
	}
	switch x := idx.(type) {
	case *value.Number:
		return value.NewArrayIV(root, int(x.GetValue())), ""
	case *value.String:
		return value.NewHashMapIV(root, x.String()), ""
	}
	return nil, "err rt 80 | " + canon(root, 0) // getMemberExprIV: InvalidExprType
}

func opValue(f []string) string {
	if len(f) < 3 {
		return "bad-case"
	}
	kind := f[1]
	member := unhex(f[2])
	switch kind {
	case "vi":
		captureStdout()
		m, err := exec.ExecVarInputText(member)
		finishCapture()
		if err != nil {
			return valErr(err) + " | -"
		}
		return "ok " + canonMap(m) + " | -"
	case "ei":
		captureStdout()
		m, err := exec.ExecExpressionInputText(map[string]string{"甲": member})
		finishCapture()
		if err != nil {
			return valErr(err) + " | -"
		}
		return "ok " + canonMap(m) + " | -"
	}
	if kind == "vlp" || kind == "vep" || kind == "vap" {
		// the validators themselves: member = the type strings, comma separated
		vals := []r.Element{}
		for _, a := range f[3:] {
			vals = append(vals, parseSpec(a))
		}
		pats := []string{}
		if member != "" {
			pats = strings.Split(member, ",")
		}
		var err error
		switch kind {
		case "vlp":
			err = value.ValidateLeastParams(vals, pats...)
		case "vep":
			err = value.ValidateExactParams(vals, pats...)
		default:
			if len(pats) != 1 {
				return "bad-case"
			}
			err = value.ValidateAllParams(vals, pats[0])
		}
		if err != nil {
			return valErr(err) + " | -"
		}
		return "ok - | -"
	}
	recv := parseSpec(f[0])
	args := []r.Element{}
	for _, a := range f[3:] {
		args = append(args, parseSpecSelf(a, recv))
	}
	need := func(n int) bool { return len(args) >= n }
	switch kind {
	case "g":
		res, err := recv.GetProperty(member)
		return valAnswer(res, err, recv, true)
	case "s":
		if !need(1) {
			return "bad-case"
		}
		// an assignment stores a copy of the right-hand side (evalVarAssignExpr: `vr = value.DuplicateValue(vr)`)
		err := recv.SetProperty(member, value.DuplicateValue(args[0]))
		return valAnswer(nil, err, recv, false)
	case "m":
		if _, isObj := recv.(*value.Object); isObj {
			captureStdout()
			defer restoreStdout()
		}
		res, err := recv.ExecMethod(member, args)
		return valAnswer(res, err, recv, true)
	case "ir":
		if !need(1) {
			return "bad-case"
		}
		iv, bad := indexIV(recv, args[0])
		if iv == nil {
			return bad
		}
		res, err := iv.ReduceRHS()
		return valAnswer(res, err, recv, true)
	case "iw":
		if !need(2) {
			return "bad-case"
		}
		iv, bad := indexIV(recv, args[0])
		if iv == nil {
			return bad
		}
		err := iv.ReduceLHS(value.DuplicateValue(args[1]))
		return valAnswer(nil, err, recv, false)
	case "mr":
		res, err := value.NewMemberIV(recv, member).ReduceRHS()
		return valAnswer(res, err, recv, true)
	case "mw":
		if !need(1) {
			return "bad-case"
		}
		err := value.NewMemberIV(recv, member).ReduceLHS(value.DuplicateValue(args[0]))
		return valAnswer(nil, err, recv, false)
	case "c":
		ce, ok := recv.(r.ConstructableElement)
		if !ok {
			return "err rt 82 | " + canon(recv, 0) // evalNewObject: InvalidParamType("classRef")
		}
		captureStdout()
		res, err := ce.Construct(args)
		finishCapture()
		return valAnswer(res, err, recv, true)
	case "call":
		fn, ok := recv.(*value.Function)
		if !ok {
			return "err rt 81 | " + canon(recv, 0) // execDirectFunction: InvalidFuncVariable
		}
		if isFileLib(f[0]) {
			dir, cleanup := fileSandbox()
			defer cleanup()
			if len(args) > 0 {
				if s, ok := args[0].(*value.String); ok {
					p := mapPath(dir, s.GetValue())
					args[0] = value.NewString(p)
					if strings.HasPrefix(filepath.Base(p), "x") {
						defer os.Remove(p) // whatever 写入文件 created
					}
				}
			}
		}
		captureStdout()
		res, err := fn.Exec(nil, args)
		finishCapture()
		if member == "rand" && err == nil { // 取随机数: only the shape of the result is canonical
			if _, ok := res.(*value.Number); ok {
				return "ok n:rand | fn"
			}
		}
		return valAnswer(res, err, recv, true)
	case "str":
		return "ok s:" + hexs(recv.String()) + " | " + canon(recv, 0)
	case "dup":
		return valAnswer(value.DuplicateValue(recv), nil, recv, true)
	case "cmp":
		if !need(1) {
			return "bad-case"
		}
		verb, _ := strconv.Atoi(member)
		b, err := value.CompareValues(recv, args[0], uint8(verb))
		return valAnswer(value.NewBool(b), err, recv, true)
	}
	return "bad-kind"
}
