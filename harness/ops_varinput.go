package main

// Input-variable entry points as COMPILERS of a text (C05): the text of the input variables is program text — it is
// compiled whole or rejected, never evaluated from the part of a tree that was built before a fault was found.
//
//   varinput <cps>            exec.ExecVarInputText(text)  and  exec.NewInterpreter(…).ExecuteVarInputText(text)
//        →  vi <outcome> | it <outcome>
//   exprin <cps> [<cps> [<cps>]]    exec.ExecExpressionInputText({"甲": t1, "乙": t2, "丙": t3})  (one expression per entry)
//        →  ei <outcome>
//   outcome:  ok {<name-hex>=<value>,…}   (names sorted)   |   err <class> <code>
//
// The compiler's own answer for the same text is the `compile` op (ops_parse.go); the check module puts the two side by side.

import (
	"github.com/DemoHn/Zn/pkg/exec"
	r "github.com/DemoHn/Zn/pkg/runtime"
)

func init() {
	register("varinput", opVarInput)
	register("exprin", opExprIn)
}

func inputOutcome(m r.ElementMap, err error) string {
	if err != nil {
		return valErr(err)
	}
	if m == nil {
		return "ok nil!"
	}
	return "ok " + canonMap(m)
}

func guarded(f func() (r.ElementMap, error)) (res string) {
	defer func() {
		if rec := recover(); rec != nil {
			restoreStdout()
			res = "panic"
		}
	}()
	captureStdout()
	m, err := f()
	finishCapture()
	return inputOutcome(m, err)
}

func opVarInput(f []string) string {
	text := string(parseCps(f[0]))
	a := guarded(func() (r.ElementMap, error) { return exec.ExecVarInputText(text) })
	b := guarded(func() (r.ElementMap, error) { return exec.NewInterpreter("verif").ExecuteVarInputText(text) })
	return "vi " + a + " | it " + b
}

var exprInNames = []string{"甲", "乙", "丙"}

func opExprIn(f []string) string {
	m := map[string]string{}
	for i, x := range f {
		if i >= len(exprInNames) {
			break
		}
		m[exprInNames[i]] = string(parseCps(x))
	}
	return "ei " + guarded(func() (r.ElementMap, error) { return exec.ExecExpressionInputText(m) })
}
