package main

// C14 — op `textfam`: a FAMILY of text values derived from each other, every member observed after every step.
//
//   textfam <parent-cps> <step>;<step>;…
//     j<k>:<cps>,<cps>…   new member = 以Mk（拼接：lit、…）          J<k>:<m>,<m>…   new member = 以Mk（拼接：Mm、…）
//     c<k>   new member = 令X=Mk           a<k>   new member = 令X=“”; X=Mk
//     s<k>:<i>:<j>        new member = 以Mk（取样：i、j）
//     p<k>:<sep>:<idx>    new member = piece idx (mod count) of 以Mk（分隔：sep）
//     r<k>:<pat>:<rep>    new member = 以Mk（替换：pat、rep）
//     n<k>                以Mk（转换数值） (rewrites Mk in place — the one exception; makes no member)
//   every step goes through the evaluator on the SAME Go values (the members live across the steps, as variables of one
//   program would).  Answer: one round per family state (before the first step, after each step), rounds joined by " | ",
//   members by " / ", a member is  L=<长度> T=<text> C=<字符组> S=<取样 i..j for every observed pair>.

import (
	"fmt"
	"strconv"
	"strings"
	"unicode/utf8"

	r "github.com/DemoHn/Zn/pkg/runtime"
	"github.com/DemoHn/Zn/pkg/value"
)

func init() {
	register("textfam", opTextFam)
}

func famErr(err error) string {
	return "ERR(" + strings.ReplaceAll(errField(err), " ", "_") + ")"
}

func famPiece(e r.Element) string {
	s, ok := e.(*value.String)
	if !ok {
		return fmt.Sprintf("?%T", e)
	}
	return pieceField(s.GetValue())
}

// one program per member: 输出【T之长度、T、T之字符组、以T（取样：1、1）、…】 — the pairs are those of the member's true
// character count (Go side, from the text itself), so a wrong 长度 shows in L= and does not change which pairs are asked.
// A failing 取样 fails the whole program: the member is then observed pair by pair.
func famObserve(t r.Element) string {
	n := 0
	if s, ok := t.(*value.String); ok {
		n = utf8.RuneCountInString(s.GetValue())
	}
	type pair struct{ i, j int }
	pairs := []pair{}
	var src strings.Builder
	src.WriteString("输入T\n输出【T之长度、T、T之字符组")
	for i := 1; i <= n; i++ {
		for j := i; j <= n; j++ {
			if j-i < 3 || i == 1 || j == n {
				pairs = append(pairs, pair{i, j})
				fmt.Fprintf(&src, "、以T（取样：%d、%d）", i, j)
			}
		}
	}
	src.WriteString("】")
	e, err := runProgram(src.String(), r.ElementMap{"T": t})
	items := []r.Element{}
	if err == nil {
		if arr, ok := e.(*value.Array); ok && len(arr.GetValue()) == 3+len(pairs) {
			items = arr.GetValue()
		} else {
			return fmt.Sprintf("?%T", e)
		}
	} else {
		// some observation failed: ask one by one
		for _, q := range []string{"输入T\n输出T之长度", "输入T\n输出T", "输入T\n输出T之字符组"} {
			e, err := runProgram(q, r.ElementMap{"T": t})
			if err != nil {
				e = value.NewException(famErr(err))
			}
			items = append(items, e)
		}
		for _, p := range pairs {
			e, err := runProgram(fmt.Sprintf("输入T\n输出以T（取样：%d、%d）", p.i, p.j), r.ElementMap{"T": t})
			if err != nil {
				e = value.NewException("ERR")
			}
			items = append(items, e)
		}
	}
	var sb strings.Builder
	if num, ok := items[0].(*value.Number); ok && num.GetValue() == float64(int(num.GetValue())) {
		sb.WriteString("L=" + strconv.Itoa(int(num.GetValue())))
	} else {
		sb.WriteString(fmt.Sprintf("L=?%T", items[0]))
	}
	sb.WriteString(" T=" + famPiece(items[1]))
	sb.WriteString(" C=")
	if arr, ok := items[2].(*value.Array); ok {
		for i, it := range arr.GetValue() {
			if i > 0 {
				sb.WriteByte(',')
			}
			sb.WriteString(famPiece(it))
		}
	} else {
		sb.WriteString(fmt.Sprintf("?%T", items[2]))
	}
	sb.WriteString(" S=")
	for i, it := range items[3:] {
		if i > 0 {
			sb.WriteByte(',')
		}
		if _, ok := it.(*value.String); ok {
			sb.WriteString(famPiece(it))
		} else {
			sb.WriteString("ERR")
		}
	}
	return sb.String()
}

func famRound(fam []r.Element) string {
	out := make([]string, len(fam))
	for i, t := range fam {
		out[i] = famObserve(t)
	}
	return strings.Join(out, " / ")
}

func opTextFam(f []string) string {
	fam := []r.Element{value.NewString(string(parseCps(f[0])))}
	rounds := []string{famRound(fam)}
	member := func(s string) r.Element {
		k, err := strconv.Atoi(s)
		if err != nil || k < 0 || k >= len(fam) {
			return nil
		}
		return fam[k]
	}
	for _, st := range strings.Split(f[1], ";") {
		if st == "" {
			return "bad-op"
		}
		a := strings.Split(st[1:], ":")
		t := member(a[0])
		if t == nil {
			rounds = append(rounds, "stuck")
			break
		}
		var e r.Element
		var err error
		switch {
		case (st[0] == 'j' || st[0] == 'J') && len(a) == 2:
			in := r.ElementMap{"T": t}
			names := []string{}
			stuck := false
			for i, it := range strings.Split(a[1], ",") {
				name := "A" + string(rune('A'+i))
				names = append(names, name)
				if st[0] == 'j' {
					in[name] = value.NewString(string(parseCps(it)))
				} else if m := member(it); m != nil {
					in[name] = m
				} else {
					stuck = true
				}
			}
			if stuck {
				err = fmt.Errorf("no such member")
				break
			}
			e, err = runProgram("输入T、"+strings.Join(names, "、")+"\n输出以T（拼接："+strings.Join(names, "、")+"）", in)
		case st[0] == 'c' && len(a) == 1:
			e, err = runProgram("输入T\n令X=T\n输出X", r.ElementMap{"T": t})
		case st[0] == 'a' && len(a) == 1:
			e, err = runProgram("输入T\n令X=“”\nX=T\n输出X", r.ElementMap{"T": t})
		case st[0] == 's' && len(a) == 3:
			i, e1 := strconv.Atoi(a[1])
			j, e2 := strconv.Atoi(a[2])
			if e1 != nil || e2 != nil {
				return "bad-op"
			}
			e, err = runProgram("输入T、I、J\n输出以T（取样：I、J）", r.ElementMap{"T": t, "I": value.NewNumber(float64(i)), "J": value.NewNumber(float64(j))})
		case st[0] == 'p' && len(a) == 3:
			idx, e1 := strconv.Atoi(a[2])
			if e1 != nil {
				return "bad-op"
			}
			e, err = runProgram("输入T、S\n输出以T（分隔：S）", r.ElementMap{"T": t, "S": value.NewString(string(parseCps(a[1])))})
			if err == nil {
				arr, ok := e.(*value.Array)
				if !ok || len(arr.GetValue()) == 0 {
					err = fmt.Errorf("no pieces")
				} else {
					e = arr.GetValue()[idx%len(arr.GetValue())]
				}
			}
		case st[0] == 'r' && len(a) == 3:
			if a[1] == "-" {
				err = fmt.Errorf("empty pattern")
				break
			}
			e, err = runProgram("输入T、P、Q\n输出以T（替换：P、Q）", r.ElementMap{"T": t,
				"P": value.NewString(string(parseCps(a[1]))), "Q": value.NewString(string(parseCps(a[2])))})
		case st[0] == 'n' && len(a) == 1:
			_, _ = runProgram("输入T\n输出以T（转换数值）", r.ElementMap{"T": t})
			rounds = append(rounds, famRound(fam))
			continue
		default:
			return "bad-op"
		}
		if err != nil {
			rounds = append(rounds, "stuck")
			break
		}
		if _, ok := e.(*value.String); !ok {
			rounds = append(rounds, fmt.Sprintf("stuck?%T", e))
			break
		}
		fam = append(fam, e)
		rounds = append(rounds, famRound(fam))
	}
	return strings.Join(rounds, " | ")
}
