package main

import (
	"bytes"
	"io"
	"os"
	"syscall"
)

func dupFd(fd int) int {
	n, err := syscall.Dup(fd)
	if err != nil {
		panic(err)
	}
	return n
}

var savedStdout *os.File
var capDone chan []byte
var capWriter *os.File

// captureStdout swaps os.Stdout for a pipe (显示 writes through the os.Stdout variable).
func captureStdout() {
	r, w, err := os.Pipe()
	if err != nil {
		panic(err)
	}
	savedStdout = os.Stdout
	os.Stdout = w
	capWriter = w
	capDone = make(chan []byte, 1)
	go func() {
		var buf bytes.Buffer
		io.Copy(&buf, r)
		r.Close()
		capDone <- buf.Bytes()
	}()
}

func finishCapture() []byte {
	if capWriter == nil {
		return nil
	}
	capWriter.Close()
	capWriter = nil
	os.Stdout = savedStdout
	return <-capDone
}

func restoreStdout() {
	if capWriter != nil {
		finishCapture()
	}
}
