package main

// C06: op sequences straight on the real runtime.Scope (`scope`) and through the real VM wrappers
// FindElement / FindElementWithModule / Declare*Element / SetElement / BeginScope / EndScope (`vmscope`).
//
//   scope <tok>*            one fresh runtime.NewScope() per line
//   vmscope F|N <tok>*      one fresh VM per line, globals {G:100, H:200}, modules main(0) m1 m2 m3;
//                           F = a script call frame of main is pushed (scope exists), N = none (nil scope)
//   tokens:  b  e  d:<name>:<int>  c:<name>:<int>  x:<name>:<int>:<module>  s:<name>:<int>  g:<name>  m:<name>
//   answer:  ok <res>*      res = ok | v<int> | v<int>@<module> | nil | e<code>
//            (a Go panic anywhere in the line answers `panic`, see runOp)

import (
	"fmt"
	"strconv"
	"strings"

	r "github.com/DemoHn/Zn/pkg/runtime"
	"github.com/DemoHn/Zn/pkg/value"
)

func init() {
	register("scope", opScope)
	register("vmscope", opVMScope)
}

func scopeErr(err error) string {
	if err == nil {
		return "ok"
	}
	f := strings.Fields(errField(err))
	return "e" + f[len(f)-1]
}

func scopeVal(e r.Element) string {
	if e == nil {
		return "nil"
	}
	if n, ok := e.(*value.Number); ok {
		return "v" + strconv.Itoa(int(n.GetValue()))
	}
	return "v?"
}

func scopeNum(s string) r.Element {
	n, err := strconv.Atoi(s)
	if err != nil {
		panic("bad int field")
	}
	return value.NewNumber(float64(n))
}

func opScope(f []string) string {
	sp := r.NewScope()
	var sb strings.Builder
	sb.WriteString("ok")
	for _, tok := range f {
		p := strings.Split(tok, ":")
		var res string
		switch p[0] {
		case "b":
			sp.BeginScope()
			res = "ok"
		case "e":
			sp.EndScope()
			res = "ok"
		case "d":
			res = scopeErr((sp.DeclareValue(p[1], scopeNum(p[2]))))
		case "c":
			res = scopeErr((sp.DeclareConstValue(p[1], scopeNum(p[2]))))
		case "x":
			mod, _ := strconv.Atoi(p[3])
			res = scopeErr((sp.DeclareExternalValue(p[1], scopeNum(p[2]), mod)))
		case "s":
			res = scopeErr((sp.SetValue(p[1], scopeNum(p[2]))))
		case "g":
			res = scopeVal(sp.GetValue(p[1]))
		case "m":
			e, mod := sp.GetValueWithModuleID(p[1])
			res = scopeVal(e)
			if e != nil {
				res += "@" + strconv.Itoa(mod)
			}
		default:
			return "bad-token"
		}
		sb.WriteByte(' ')
		sb.WriteString(res)
	}
	return sb.String()
}

func opVMScope(f []string) string {
	vm := r.InitVM(map[string]r.Element{"G": value.NewNumber(100), "H": value.NewNumber(200)})
	mods := []*r.Module{vm.AllocateModule("main", nil)}
	for i := 1; i <= 3; i++ {
		mods = append(mods, vm.AllocateModule(fmt.Sprintf("m%d", i), nil))
	}
	switch f[0] {
	case "F":
		vm.PushCallFrame(r.NewScriptCallFrame(mods[0]))
	case "N":
		// AllocateModule left csModuleID at the last module, for which no scope exists: getCurrentScope() == nil
	default:
		return "bad-token"
	}
	var sb strings.Builder
	sb.WriteString("ok")
	for _, tok := range f[1:] {
		p := strings.Split(tok, ":")
		var res string
		switch p[0] {
		case "b":
			vm.BeginScope()
			res = "ok"
		case "e":
			vm.EndScope()
			res = "ok"
		case "d":
			res = scopeErr((vm.DeclareElement(r.NewIDName(p[1]), scopeNum(p[2]))))
		case "c":
			res = scopeErr((vm.DeclareConstElement(r.NewIDName(p[1]), scopeNum(p[2]))))
		case "x":
			mod, _ := strconv.Atoi(p[3])
			res = scopeErr((vm.DeclareExternalElement(r.NewIDName(p[1]), scopeNum(p[2]), mods[mod])))
		case "s":
			res = scopeErr((vm.SetElement(r.NewIDName(p[1]), scopeNum(p[2]))))
		case "g":
			e, err := vm.FindElement(r.NewIDName(p[1]))
			if err != nil {
				res = scopeErr(err)
			} else {
				res = scopeVal(e)
			}
		case "m":
			e, mod, err := vm.FindElementWithModule(r.NewIDName(p[1]))
			if err != nil {
				res = scopeErr(err)
			} else if mod == nil {
				res = scopeVal(e) + "@nil"
			} else {
				res = scopeVal(e) + "@" + strconv.Itoa(mod.GetID())
			}
		default:
			return "bad-token"
		}
		sb.WriteByte(' ')
		sb.WriteString(res)
	}
	return sb.String()
}
