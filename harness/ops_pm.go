//go:build pmhooks

// (tools/build.sh adds the tag when $ZN_REPO/pkg/server has the verif hook files; see ops_pm_stub.go)

package main

// C20 correspondence: the REAL prefork master (server.StartMaster → maintainChildState, spawnProcess)
// is run in a process of its own; its workers are this binary re-executed as passive fake workers
// (`os.Args[0] --child-worker`, exactly the command line spawnProcess builds).  Worker state reports
// are injected on the real update channel through the verif hook, worker exits are produced by
// SIGKILL, and after every script token the live children (read from /proc), refCount and
// len(childs) (read through the verif hook) are reported.
//
//   pm <init> <max> <tok>[@<expect>] …   →  ok <obs> … [desync]
//     tok   u<i>:<i|b|s>   state report IDLE/BUSY/STOPPED for worker i (spawn order, 1-based; 0 = a pid the master never saw)
//           k<i>           SIGKILL worker i (crash)
//           t<i>           request time-out of worker i: report STOPPED, then exit (what StartWorker does)
//           s | s<n>       no action: wait for the sleeping refill start-ups (all, or the n oldest) to be registered
//           q              no action: wait until nothing has changed for 300 ms (quiet system)
//     obs   <alive worker indices, dot-separated or ->:<refCount>:<len(childs)>
//   With @<expect> the harness polls until the observation equals <expect> (budget 2 s); the first token
//   whose expectation is not met ends the script with `<seen> desync <observation once quiet>`.
//   Without @<expect> (free-running) every token is followed by a wait for stability.

import (
	"bufio"
	"fmt"
	"io"
	"log"
	"net"
	"net/http"
	"os"
	"os/exec"
	"sort"
	"strconv"
	"strings"
	"sync"
	"syscall"
	"time"

	"github.com/DemoHn/Zn/pkg/server"
)

func init() {
	register("pm", func(f []string) string { return opPM("--pm-master", f) })
	register("pmreal", func(f []string) string { return opPM("--pm-master-real", f) })
	// the master side of one case runs in its own process (own children, port, pipe directory)
	if len(os.Args) > 1 && os.Args[1] == "--pm-master" {
		pmMasterMain(os.Args[2:])
		os.Exit(0)
	}
	if len(os.Args) > 1 && os.Args[1] == "--pm-master-real" {
		pmRealMain(os.Args[2:])
		os.Exit(0)
	}
}

// ---- fake worker -------------------------------------------------------------------------------

// childWorkerMain: a passive worker.  It never accepts, never reports; it lives until it is killed,
// until its master goes away, or for two minutes at most.
func childWorkerMain() {
	if os.Getenv("ZNH_PM_REAL") == "1" {
		realWorkerMain()
		return
	}
	parent := os.Getppid()
	deadline := time.Now().Add(2 * time.Minute)
	for time.Now().Before(deadline) {
		time.Sleep(50 * time.Millisecond)
		if os.Getppid() != parent {
			break
		}
	}
	os.Exit(0)
}

// ---- op (runs in the protocol process) -----------------------------------------------------------

func opPM(mode string, f []string) string {
	self, err := os.Executable()
	if err != nil {
		return "err exe"
	}
	cmd := exec.Command(self, append([]string{mode}, f...)...)
	// everything the case creates on disk (the master's FIFO) lives under a private directory that is removed
	// here, whatever happens to the master; master and fake workers need no parallelism (fewer runtime threads
	// make their start-up cheaper)
	caseDir, err := os.MkdirTemp("", "znpm-")
	if err != nil {
		return "err tmpdir"
	}
	defer os.RemoveAll(caseDir)
	cmd.Env = append(os.Environ(), "GOMAXPROCS=2", "TMPDIR="+caseDir)
	cmd.SysProcAttr = &syscall.SysProcAttr{Setpgid: true}
	cmd.Stdin = nil
	if os.Getenv("ZNH_DEBUG") != "" {
		cmd.Stderr = os.Stderr
	}
	outp, err := cmd.StdoutPipe()
	if err != nil {
		return "err pipe"
	}
	if err := cmd.Start(); err != nil {
		return "err start"
	}
	lineCh := make(chan string, 1)
	go func() {
		ln, _ := bufio.NewReaderSize(outp, 1<<16).ReadString('\n')
		lineCh <- strings.TrimRight(ln, "\r\n")
	}()
	res := "timeout-master"
	wait := pmCaseBudget(len(f)) + 5*time.Second
	if mode == "--pm-master-real" {
		wait += time.Duration(len(f)) * 4 * time.Second // requests are waited for in wall-clock seconds
	}
	select {
	case res = <-lineCh:
	case <-time.After(wait):
	}
	// the master exits by itself after answering; whatever happened, the whole process group
	// (master + workers) is gone before we answer
	done := make(chan struct{})
	go func() { cmd.Wait(); close(done) }()
	select {
	case <-done:
	case <-time.After(2 * time.Second):
	}
	pgid := cmd.Process.Pid
	syscall.Kill(-pgid, syscall.SIGKILL)
	<-done
	// nothing of this case may survive it: wait until no running process is left in the group
	// (zombies waiting for init to reap them do not count)
	for i := 0; i < 200 && groupRunning(pgid); i++ {
		syscall.Kill(-pgid, syscall.SIGKILL)
		time.Sleep(5 * time.Millisecond)
	}
	if res == "" {
		res = "crash-master"
	}
	return res
}

func groupRunning(pgid int) bool {
	ents, err := os.ReadDir("/proc")
	if err != nil {
		return false
	}
	for _, e := range ents {
		name := e.Name()
		if name[0] < '0' || name[0] > '9' {
			continue
		}
		b, err := os.ReadFile("/proc/" + name + "/stat")
		if err != nil {
			continue
		}
		s := string(b)
		rp := strings.LastIndexByte(s, ')')
		if rp < 0 || rp+2 >= len(s) {
			continue
		}
		fs := strings.Fields(s[rp+2:])
		if len(fs) < 3 {
			continue
		}
		if pg, _ := strconv.Atoi(fs[2]); pg == pgid && fs[0] != "Z" && fs[0] != "X" && fs[0] != "x" {
			return true
		}
	}
	return false
}

func pmCaseBudget(ntok int) time.Duration {
	return 8*time.Second + time.Duration(ntok)*600*time.Millisecond
}

// ---- master process --------------------------------------------------------------------------------

type pmMaster struct {
	srv     *server.ZnPMServer
	self    int
	workers []int // pids in spawn order
	known   map[int]bool

	noChildrenFile bool
}

type procInfo struct {
	pid   int
	start uint64
}

// statOf: (ppid, state, starttime) of a process, from /proc/<pid>/stat
func statOf(pid string) (ppid int, state string, start uint64, ok bool) {
	b, err := os.ReadFile("/proc/" + pid + "/stat")
	if err != nil {
		return
	}
	s := string(b)
	rp := strings.LastIndexByte(s, ')')
	if rp < 0 || rp+2 >= len(s) {
		return
	}
	fs := strings.Fields(s[rp+2:])
	if len(fs) < 20 {
		return
	}
	ppid, _ = strconv.Atoi(fs[1])
	start, _ = strconv.ParseUint(fs[19], 10, 64)
	return ppid, fs[0], start, true
}

func running(state string) bool { return state != "Z" && state != "X" && state != "x" }

// scanChildren: every process whose parent is this process and which is neither a zombie nor dead (whole /proc).
func (m *pmMaster) scanChildren() []procInfo {
	var res []procInfo
	ents, err := os.ReadDir("/proc")
	if err != nil {
		return nil
	}
	for _, e := range ents {
		name := e.Name()
		if name[0] < '0' || name[0] > '9' {
			continue
		}
		pid, err := strconv.Atoi(name)
		if err != nil {
			continue
		}
		ppid, st, start, ok := statOf(name)
		if ok && ppid == m.self && running(st) {
			res = append(res, procInfo{pid, start})
		}
	}
	return res
}

// liveChildren: the same set, read from /proc/self/task/*/children when the kernel offers it (cheap enough to
// poll); that file may lag while a child is exiting, so quiet observations and the clean-up use scanChildren.
func (m *pmMaster) liveChildren() []procInfo {
	tasks, err := os.ReadDir("/proc/self/task")
	if err != nil || m.noChildrenFile {
		return m.scanChildren()
	}
	var res []procInfo
	for _, t := range tasks {
		b, err := os.ReadFile("/proc/self/task/" + t.Name() + "/children")
		if err != nil {
			if t.Name() == strconv.Itoa(m.self) {
				m.noChildrenFile = true
				return m.scanChildren()
			}
			continue
		}
		for _, f := range strings.Fields(string(b)) {
			pid, err := strconv.Atoi(f)
			if err != nil {
				continue
			}
			ppid, st, start, ok := statOf(f)
			if ok && ppid == m.self && running(st) {
				res = append(res, procInfo{pid, start})
			}
		}
	}
	return res
}

func (m *pmMaster) observe() string { return m.observeWith(m.liveChildren()) }

// observeFull: by a scan of the whole of /proc (nothing can be missed)
func (m *pmMaster) observeFull() string { return m.observeWith(m.scanChildren()) }

func (m *pmMaster) observeWith(lc []procInfo) string {
	var fresh []procInfo
	alive := map[int]bool{}
	for _, p := range lc {
		if !m.known[p.pid] {
			// a worker is a child that has exec'ed `<this binary> --child-worker`; anything else is the Go
			// runtime's own business (os/exec probes pidfd support with a short-lived clone) or a fork that has
			// not exec'ed yet and will be seen at the next look
			cl, err := os.ReadFile("/proc/" + strconv.Itoa(p.pid) + "/cmdline")
			if err != nil || !strings.Contains(string(cl), "--child-worker") {
				continue
			}
			fresh = append(fresh, p)
		}
		alive[p.pid] = true
	}
	sort.Slice(fresh, func(i, j int) bool {
		if fresh[i].start != fresh[j].start {
			return fresh[i].start < fresh[j].start
		}
		return fresh[i].pid < fresh[j].pid
	})
	for _, p := range fresh {
		m.known[p.pid] = true
		m.workers = append(m.workers, p.pid)
	}
	var idx []string
	for i, pid := range m.workers {
		if alive[pid] {
			idx = append(idx, strconv.Itoa(i+1))
		}
	}
	a := "-"
	if len(idx) > 0 {
		a = strings.Join(idx, ".")
	}
	ref, nch := m.srv.VerifCounters()
	return fmt.Sprintf("%s:%d:%d", a, ref, nch)
}

// waitFor polls until the observation is one of `wants` (alternatives separated by `|`: the sleeping refill
// start-ups may fire before or after the event) or the budget passes; returns the last observation.
func (m *pmMaster) waitFor(wants string, budget time.Duration) (string, bool) {
	set := map[string]bool{}
	for _, w := range strings.Split(wants, "|") {
		set[w] = true
	}
	start := time.Now()
	deadline := start.Add(budget)
	pause := 300 * time.Microsecond
	last := ""
	for {
		o := m.observe()
		if set[o] {
			// read once more: the counters are not synchronised with the loop
			if m.observe() == o {
				return o, true
			}
		}
		now := time.Now()
		if o != last {
			// things are still moving (start-ups on a busy machine can be slow): allow 1.5 s after the last
			// change, 6 s in all; a state that is wrong and stable still ends the wait after `budget`
			last = o
			if d := now.Add(1500 * time.Millisecond); d.After(deadline) {
				deadline = d
			}
			if hard := start.Add(6 * time.Second); deadline.After(hard) {
				deadline = hard
			}
		}
		if now.After(deadline) {
			return o, false
		}
		time.Sleep(pause)
		if pause < 1500*time.Microsecond {
			pause += 100 * time.Microsecond
		}
	}
}

// waitQuiet: until the observation has not changed for `still` (at least four identical samples in a row); the
// answer is confirmed by a scan of the whole of /proc.
func (m *pmMaster) waitQuiet(still, budget time.Duration) string {
	deadline := time.Now().Add(budget)
	last := m.observe()
	since := time.Now()
	same := 0
	for time.Now().Before(deadline) {
		time.Sleep(2 * time.Millisecond)
		o := m.observe()
		if o != last {
			last, since, same = o, time.Now(), 0
			continue
		}
		same++
		if same >= 4 && time.Since(since) >= still {
			if f := m.observeFull(); f != last {
				last, since, same = f, time.Now(), 0
				continue
			}
			break
		}
	}
	return last
}

func (m *pmMaster) pidOf(i int, budget time.Duration) (int, bool) {
	if i == 0 {
		return 0x3ffffff0, true // never a child of this master
	}
	deadline := time.Now().Add(budget)
	for {
		if i <= len(m.workers) {
			return m.workers[i-1], true
		}
		if time.Now().After(deadline) {
			return 0, false
		}
		time.Sleep(time.Millisecond)
		m.observe()
	}
}

// kill: SIGKILL and wait until the process has really stopped running (that is the event `exit`)
func (m *pmMaster) kill(pid int, budget time.Duration) {
	syscall.Kill(pid, syscall.SIGKILL)
	deadline := time.Now().Add(budget)
	for time.Now().Before(deadline) {
		ppid, st, _, ok := statOf(strconv.Itoa(pid))
		if !ok || ppid != m.self || !running(st) {
			return
		}
		time.Sleep(200 * time.Microsecond)
	}
}

func pmState(c string) uint8 {
	switch c {
	case "i":
		return server.WORKER_STATE_IDLE
	case "b":
		return server.WORKER_STATE_BUSY
	case "s":
		return server.WORKER_STATE_STOPPED
	}
	panic("bad state " + c)
}

// killAll: one SIGKILL to every child.  The real master answers each death by scheduling a replacement, so there
// is no point in waiting for "no children": this process exits right afterwards (its sleeping refill goroutines
// die with it) and the protocol process then kills the whole process group.
func (m *pmMaster) killAll() {
	for _, p := range m.scanChildren() {
		syscall.Kill(p.pid, syscall.SIGKILL)
	}
}

// doToken: one script token `tok[@e1|e2|…]`: perform the action, wait, report.  ok=false ends the script.
func (m *pmMaster) doToken(t string) (string, bool) {
	const budget = 2 * time.Second
	tok, want := t, ""
	if k := strings.IndexByte(t, '@'); k >= 0 {
		tok, want = t[:k], t[k+1:]
	}
	bad := len(tok) == 0
	if !bad {
		switch tok[0] {
		case 'u', 't', 'k':
			body := tok[1:]
			st := ""
			if k := strings.IndexByte(body, ':'); k >= 0 {
				body, st = body[:k], body[k+1:]
			}
			i, _ := strconv.Atoi(body)
			pid, found := m.pidOf(i, budget)
			if !found {
				bad = true
				break
			}
			switch tok[0] {
			case 'u':
				m.srv.VerifInjectUpdate(pid, pmState(st))
			case 't':
				m.srv.VerifInjectUpdate(pid, server.WORKER_STATE_STOPPED)
				m.kill(pid, budget)
			case 'k':
				m.kill(pid, budget)
			}
		case 's', 'q':
		default:
			bad = true
		}
	}
	if bad {
		return m.observe() + " desync " + m.waitQuiet(300*time.Millisecond, 4*time.Second), false
	}
	if tok[0] == 'q' {
		return m.waitQuiet(300*time.Millisecond, 4*time.Second), true
	}
	if want == "" {
		// free-running: no expectation, timing by stability (a refill start-up sleeps 100 ms)
		still := 40 * time.Millisecond
		if tok[0] == 's' {
			still = 200 * time.Millisecond
		}
		return m.waitQuiet(still, budget), true
	}
	o, ok := m.waitFor(want, budget)
	if !ok {
		// lost step: report what is there once nothing changes any more, so that the quiet state can be judged
		return o + " desync " + m.waitQuiet(300*time.Millisecond, 4*time.Second), false
	}
	return o, true
}

func pmMasterMain(args []string) {
	protocol := os.NewFile(uintptr(dupFd(1)), "protocol")
	var cleanup []func()
	// the answer is written only after the workers are gone and the private directory is removed
	answer := func(s string) {
		for i := len(cleanup) - 1; i >= 0; i-- {
			cleanup[i]()
		}
		protocol.WriteString(s + "\n")
	}
	if len(args) < 2 {
		answer("err args")
		return
	}
	initN, _ := strconv.Atoi(args[0])
	maxN, _ := strconv.Atoi(args[1])
	toks := args[2:]
	// `--pm-master <init> <max> -i`: tokens come one per line on stdin, each answered at once (the driving side
	// decides the next expectations from what was observed); end of input ends the case
	interactive := len(toks) == 1 && toks[0] == "-i"

	tmp, err := os.MkdirTemp("", "znpm-")
	if err != nil {
		answer("err tmpdir")
		return
	}
	cleanup = append(cleanup, func() { os.RemoveAll(tmp) })
	os.Setenv("TMPDIR", tmp) // the master's FIFO lives here (name_pipe_linux.go uses os.TempDir())
	debug := os.Getenv("ZNH_DEBUG") != ""
	if !debug {
		log.SetOutput(io.Discard)
		if dn, err := os.OpenFile(os.DevNull, os.O_RDWR, 0); err == nil {
			os.Stdout, os.Stderr = dn, dn // what spawnProcess hands to the workers
		}
	} else {
		os.Stdout = os.Stderr
	}

	cfg := server.ZnPMServerConfig{InitProcs: initN, MaxProcs: maxN, Timeout: 60}
	m := &pmMaster{srv: server.NewZnPMServer(cfg), self: os.Getpid(), known: map[int]bool{}}
	cleanup = append(cleanup, m.killAll)

	// orphan guard + hard deadline: never outlive the protocol process
	parent := os.Getppid()
	hard := time.Now().Add(pmCaseBudget(len(toks)))
	if interactive {
		hard = time.Now().Add(3 * time.Minute)
	}
	go func() {
		for {
			time.Sleep(50 * time.Millisecond)
			if os.Getppid() != parent || time.Now().After(hard) {
				m.killAll()
				os.RemoveAll(tmp)
				os.Exit(4)
			}
		}
	}()

	errCh := make(chan error, 1)
	go func() { errCh <- m.srv.StartMaster("tcp://127.0.0.1:0", cfg) }()

	// initial pool: InitProcs workers started and registered
	idx := make([]string, initN)
	for i := range idx {
		idx[i] = strconv.Itoa(i + 1)
	}
	a0 := "-"
	if initN > 0 {
		a0 = strings.Join(idx, ".")
	}
	want0 := fmt.Sprintf("%s:%d:%d", a0, initN, initN)
	var sb strings.Builder
	free := !interactive
	for _, t := range toks {
		if strings.IndexByte(t, '@') >= 0 {
			free = false
		}
	}
	var o string
	ok := true
	if free {
		// free-running: no expectations at all, not even about the start-up
		o = m.waitQuiet(300*time.Millisecond, 5*time.Second)
	} else {
		o, ok = m.waitFor(want0, 5*time.Second)
	}
	select {
	case e := <-errCh:
		answer(fmt.Sprintf("err master %v", e != nil))
		return
	default:
	}
	sb.WriteString("ok " + o)
	if !ok {
		sb.WriteString(" desync")
		answer(sb.String())
		return
	}
	if interactive {
		protocol.WriteString(sb.String() + "\n")
		in := bufio.NewReader(os.Stdin)
		for {
			line, err := in.ReadString('\n')
			line = strings.TrimSpace(line)
			if line != "" && line != "end" {
				o, _ := m.doToken(line)
				protocol.WriteString(o + "\n")
			}
			if err != nil || line == "end" {
				break
			}
		}
		answer("bye")
		return
	}

	for _, t := range toks {
		o, ok := m.doToken(t)
		sb.WriteString(" " + o)
		if !ok {
			break
		}
	}
	answer(sb.String())
}

// ---- end to end: real workers (server.StartWorker), real pipe, real HTTP requests -------------------------------
//
//   pmreal <init> <max> <timeout-seconds> <tok> …   →  ok <obs> … M1 R<id>=<worker>,<t0>,<t1> … R<id>=E
//     tok   r<id>:<ms>   send `GET /?ms=<ms>` (the handler sleeps <ms>) without waiting for the answer
//           w            wait until every request sent so far has been answered or has failed
//           k<i>         SIGKILL worker i
//           q            wait until nothing has changed for 300 ms
//           z<ms>        stay idle for <ms>
//     R<id>=<worker>,<t0>,<t1>   request <id> was answered by worker <worker>; it served it from t0 to t1 (µs, the
//                                worker's clock);  R<id>=E   the connection ended without an answer
//   If the master process dies (log.Fatalf) there is no answer line: the op answers `crash-master`.

// realWorkerMain: the real worker loop of pkg/server with a handler that sleeps as long as the request asks.
func realWorkerMain() {
	parent := os.Getppid()
	go func() {
		for {
			time.Sleep(50 * time.Millisecond)
			if os.Getppid() != parent {
				os.Exit(0)
			}
		}
	}()
	srv := server.NewZnPMServer(server.ZnPMServerConfig{})
	srv.SetHandler(http.HandlerFunc(func(w http.ResponseWriter, r *http.Request) {
		ms, _ := strconv.Atoi(r.URL.Query().Get("ms"))
		t0 := time.Now().UnixMicro()
		time.Sleep(time.Duration(ms) * time.Millisecond)
		t1 := time.Now().UnixMicro()
		w.Header().Add("Content-Type", "text/plain")
		w.WriteHeader(http.StatusOK)
		fmt.Fprintf(w, "%d %d %d\n", os.Getpid(), t0, t1)
	}))
	// `--child-worker` + ZINC_PREFORK_CHILD=OK (set by spawnProcess) make Start run StartWorker
	srv.Start("")
	os.Exit(0)
}

func pmRealMain(args []string) {
	protocol := os.NewFile(uintptr(dupFd(1)), "protocol")
	var cleanup []func()
	answer := func(s string) {
		for i := len(cleanup) - 1; i >= 0; i-- {
			cleanup[i]()
		}
		protocol.WriteString(s + "\n")
	}
	if len(args) < 3 {
		answer("err args")
		return
	}
	initN, _ := strconv.Atoi(args[0])
	maxN, _ := strconv.Atoi(args[1])
	timeoutS, _ := strconv.Atoi(args[2])
	toks := args[3:]
	tmp, err := os.MkdirTemp("", "znpm-")
	if err != nil {
		answer("err tmpdir")
		return
	}
	cleanup = append(cleanup, func() { os.RemoveAll(tmp) })
	os.Setenv("TMPDIR", tmp)
	os.Setenv("ZNH_PM_REAL", "1")
	// a master may itself be started from an environment that already carries these variables (a start script, another
	// zinc worker): what it hands to its workers is ITS configuration, whatever it inherited
	os.Setenv("ZINC_EXEC_TIMEOUT", "600")
	os.Setenv("ZINC_PIPE_ID", "inherited-from-elsewhere")
	if os.Getenv("ZNH_DEBUG") == "" {
		log.SetOutput(io.Discard)
		if dn, err := os.OpenFile(os.DevNull, os.O_RDWR, 0); err == nil {
			os.Stdout, os.Stderr = dn, dn
		}
	} else {
		os.Stdout = os.Stderr
	}
	cfg := server.ZnPMServerConfig{InitProcs: initN, MaxProcs: maxN, Timeout: timeoutS}
	m := &pmMaster{srv: server.NewZnPMServer(cfg), self: os.Getpid(), known: map[int]bool{}}
	cleanup = append(cleanup, m.killAll)
	parent := os.Getppid()
	hard := time.Now().Add(pmCaseBudget(len(toks)) + time.Duration(timeoutS+4)*time.Second*time.Duration(len(toks)))
	go func() {
		for {
			time.Sleep(50 * time.Millisecond)
			if os.Getppid() != parent || time.Now().After(hard) {
				m.killAll()
				os.RemoveAll(tmp)
				os.Exit(4)
			}
		}
	}()
	// a free port: ask the kernel for one, release it, hand it to StartMaster
	probe, err := net.Listen("tcp", "127.0.0.1:0")
	if err != nil {
		answer("err listen")
		return
	}
	addr := probe.Addr().String()
	probe.Close()
	// `K` as the first token: one of the initial workers dies while the master is still creating them (it is killed the moment
	// it exists); the answer is then `ok boot <live workers> <refCount> <len(childs)>` once nothing has changed for 1.5 s
	bootKill := len(toks) > 0 && toks[0] == "K"
	if bootKill {
		go func() {
			deadline := time.Now().Add(3 * time.Second)
			for time.Now().Before(deadline) {
				for _, p := range m.scanChildren() {
					cl, err := os.ReadFile("/proc/" + strconv.Itoa(p.pid) + "/cmdline")
					if err == nil && strings.Contains(string(cl), "--child-worker") {
						syscall.Kill(p.pid, syscall.SIGKILL)
						return
					}
				}
				time.Sleep(200 * time.Microsecond)
			}
		}()
	}
	errCh := make(chan error, 1)
	go func() { errCh <- m.srv.StartMaster("tcp://"+addr, cfg) }()
	if bootKill {
		time.Sleep(300 * time.Millisecond)
		m.waitQuiet(1500*time.Millisecond, 12*time.Second)
		live := 0
		for _, p := range m.scanChildren() {
			cl, err := os.ReadFile("/proc/" + strconv.Itoa(p.pid) + "/cmdline")
			if err == nil && strings.Contains(string(cl), "--child-worker") {
				live++
			}
		}
		ref, nch := m.srv.VerifCounters()
		select {
		case <-errCh:
			answer("err master")
		default:
			answer(fmt.Sprintf("ok boot %d %d %d", live, ref, nch))
		}
		return
	}

	idx := make([]string, initN)
	for i := range idx {
		idx[i] = strconv.Itoa(i + 1)
	}
	a0 := "-"
	if initN > 0 {
		a0 = strings.Join(idx, ".")
	}
	o, ok := m.waitFor(fmt.Sprintf("%s:%d:%d", a0, initN, initN), 5*time.Second)
	select {
	case <-errCh:
		answer("err master")
		return
	default:
	}
	var sb strings.Builder
	sb.WriteString("ok " + o)
	if !ok {
		answer(sb.String() + " desync")
		return
	}
	// give the workers the time to reach Accept (they open the pipe first)
	time.Sleep(150 * time.Millisecond)

	type result struct {
		id   string
		text string
	}
	var mu sync.Mutex
	var results []result
	var wg sync.WaitGroup
	client := &http.Client{Timeout: time.Duration(timeoutS+4) * time.Second,
		Transport: &http.Transport{DisableKeepAlives: true}}
	const budget = 2 * time.Second
	for _, tok := range toks {
		switch tok[0] {
		case 'r':
			body := tok[1:]
			k := strings.IndexByte(body, ':')
			id, ms := body[:k], body[k+1:]
			wg.Add(1)
			go func() {
				defer wg.Done()
				txt := "E"
				resp, err := client.Get("http://" + addr + "/?ms=" + ms + "&tok=" + id)
				if err == nil {
					b, _ := io.ReadAll(resp.Body)
					resp.Body.Close()
					var pid int
					var t0, t1 int64
					if n, _ := fmt.Sscanf(string(b), "%d %d %d", &pid, &t0, &t1); n == 3 && resp.StatusCode == 200 {
						txt = fmt.Sprintf("%d,%d,%d", pid, t0, t1)
					}
				}
				mu.Lock()
				results = append(results, result{id, txt})
				mu.Unlock()
			}()
			// let the connection reach a worker before the next token
			sb.WriteString(" " + m.waitQuiet(60*time.Millisecond, budget))
		case 'w':
			done := make(chan struct{})
			go func() { wg.Wait(); close(done) }()
			select {
			case <-done:
			case <-time.After(time.Duration(timeoutS+5) * time.Second):
			}
			sb.WriteString(" " + m.waitQuiet(250*time.Millisecond, 4*time.Second))
		case 'k':
			i, _ := strconv.Atoi(tok[1:])
			if pid, found := m.pidOf(i, budget); found {
				m.kill(pid, budget)
			}
			sb.WriteString(" " + m.waitQuiet(60*time.Millisecond, budget))
		case 'z':
			// nothing happens for <ms>: idle workers sit in Accept (an idle period is not a request and times nothing out)
			ms, _ := strconv.Atoi(tok[1:])
			time.Sleep(time.Duration(ms) * time.Millisecond)
			sb.WriteString(" " + m.waitQuiet(60*time.Millisecond, budget))
		case 'q':
			sb.WriteString(" " + m.waitQuiet(300*time.Millisecond, 4*time.Second))
		}
	}
	alive := "M1"
	select {
	case <-errCh:
		alive = "M0"
	default:
	}
	sb.WriteString(" " + alive)
	m.observe()
	mu.Lock()
	sort.Slice(results, func(i, j int) bool { return results[i].id < results[j].id })
	for _, r := range results {
		txt := r.text
		if txt != "E" {
			f := strings.SplitN(txt, ",", 2)
			pid, _ := strconv.Atoi(f[0])
			w := 0
			for i, p := range m.workers {
				if p == pid {
					w = i + 1
				}
			}
			txt = fmt.Sprintf("%d,%s", w, f[1])
		}
		sb.WriteString(" R" + r.id + "=" + txt)
	}
	mu.Unlock()
	answer(sb.String())
}
