//go:build znserver

package main

// C11 — `httpreq`: needs pkg/server, which links on Linux only when the verif-tagged pipe file
// (pkg/server/name_pipe_linux.go) is present in $ZN_REPO; tools/build.sh adds the tag `znserver` exactly then, so that a
// tree without the hook still builds the rest of the harness (the op then answers `bad-op`, which c11.py reports).

import (
	"bufio"
	"bytes"
	"fmt"
	"net/http"
	"net/http/httptest"
	"os"
	"path/filepath"
	"sort"
	"strconv"
	"strings"

	"github.com/DemoHn/Zn/pkg/exec"
	"github.com/DemoHn/Zn/pkg/server"
)

func init() {
	register("httpreq", opHTTPReq)
}

func opHTTPReq(f []string) string {
	n, _ := strconv.Atoi(f[0])
	method, target := unhex(f[1]), unhex(f[2])
	nh, _ := strconv.Atoi(f[3])
	var raw bytes.Buffer
	fmt.Fprintf(&raw, "%s %s HTTP/1.1\r\nHost: verif.invalid\r\n", method, target)
	for i := 0; i < nh; i++ {
		fmt.Fprintf(&raw, "%s: %s\r\n", unhex(f[4+2*i]), unhex(f[5+2*i]))
	}
	body := unhex(f[4+2*nh])
	fmt.Fprintf(&raw, "Content-Length: %d\r\n\r\n%s", len(body), body)
	src := parseCps(f[5+2*nh])

	dir, err := os.MkdirTemp("", "znh-http-")
	if err != nil {
		panic(err)
	}
	defer os.RemoveAll(dir)
	entry := filepath.Join(dir, "入口.zn")
	os.WriteFile(entry, []byte(string(src)), 0o644)

	interp := exec.NewInterpreter("verif").SetExternalLibs(stdLibs())
	handler := server.NewZnHttpHandler(interp, entry)
	set := newOutcomeSet()
	for i := 0; i < n; i++ {
		req, err := http.ReadRequest(bufio.NewReader(bytes.NewReader(raw.Bytes())))
		if err != nil {
			return "badreq " + hexs(err.Error())
		}
		rec := httptest.NewRecorder()
		captureStdout()
		handler.ServeHTTP(rec, req)
		tr := finishCapture()
		// response: status, headers (names sorted — the wire order of distinct names is net/http's; the order of the
		// values under one name is the handler's), body
		var names []string
		for k := range rec.Header() {
			names = append(names, k)
		}
		sort.Strings(names)
		var hs []string
		for _, k := range names {
			for _, v := range rec.Header()[k] {
				hs = append(hs, hexs(k)+"="+hexs(v))
			}
		}
		c := fmt.Sprintf("http %d [%s] %s | %s", rec.Code, strings.Join(hs, ","), hexs(strings.ReplaceAll(rec.Body.String(), dir, "<dir>")), traceField(tr))
		set.add(c, "")
	}
	return set.answer()
}
