package main

// json: drives the real JSON code of DemoHn/Zn (pkg/common/elem2json.go through stdlib/json's two
// registered functions, and through whole Zn programs).
//
//   json gen   <value>*            FN_generateJson(nil, values)            → ok <bytes-hex> | exc | err rt <code>
//   json elem  <value>             common.ElementToJSONString(value)       → ok <bytes-hex> | exc
//   json parse <reps> <value>*     FN_parseJson(nil, values), <reps> times in this process (Go re-randomises
//                                  every map range) → ok <canon> | nondet <canon> <canon> | exc | err rt <code>
//   json rt    <reps> <value>      generate, then parse the produced text  → as parse (`gen:` prefixed when generation fails)
//   json zn gen   <value>          the same two through a Zn program run by the real interpreter with a
//   json zn parse <reps> <value>   拦截异常 handler around the call: `exc` = the handler ran
//
// <value> is the canonical value form of `canon` (ops_run.go): null, b:0|1, n:<bits>|n:nan, s:<hex>,
// [v,…], {<key-hex>=v,…}, plus fn (a function value, something JSON cannot represent).
// Dictionaries are built by value.NewHashMap (so duplicate keys behave as in the real constructor).

import (
	"math"
	"strconv"
	"strings"

	"github.com/DemoHn/Zn/pkg/common"
	zerr "github.com/DemoHn/Zn/pkg/error"
	"github.com/DemoHn/Zn/pkg/exec"
	r "github.com/DemoHn/Zn/pkg/runtime"
	"github.com/DemoHn/Zn/pkg/value"
	zjson "github.com/DemoHn/Zn/stdlib/json"
)

func init() {
	register("json", opJSON)
}

// ---- nested value specs ---------------------------------------------------------------------------

type specReader struct {
	s   string
	pos int
}

func (p *specReader) peek() byte {
	if p.pos < len(p.s) {
		return p.s[p.pos]
	}
	return 0
}

func (p *specReader) until(stop string) string {
	st := p.pos
	for p.pos < len(p.s) && !strings.ContainsRune(stop, rune(p.s[p.pos])) {
		p.pos++
	}
	return p.s[st:p.pos]
}

func (p *specReader) value() r.Element {
	switch p.peek() {
	case '[':
		p.pos++
		items := []r.Element{}
		for p.peek() != ']' {
			if p.peek() == ',' {
				p.pos++
			}
			items = append(items, p.value())
		}
		p.pos++
		return value.NewArray(items)
	case '{':
		p.pos++
		pairs := []value.KVPair{}
		for p.peek() != '}' {
			if p.peek() == ',' {
				p.pos++
			}
			k := p.until("=")
			p.pos++
			v := p.value()
			pairs = append(pairs, value.KVPair{Key: unhex(k), Value: v})
		}
		p.pos++
		return value.NewHashMap(pairs)
	}
	tok := p.until(",]}")
	switch {
	case tok == "null":
		return value.NewNull()
	case tok == "fn":
		return value.NewFunction(func(recv r.Element, vs []r.Element) (r.Element, error) { return value.NewNull(), nil })
	case strings.HasPrefix(tok, "n:"):
		if tok[2:] == "nan" {
			return value.NewNumber(math.NaN())
		}
		u, err := strconv.ParseUint(tok[2:], 16, 64)
		if err != nil {
			panic("bad number spec " + tok)
		}
		return value.NewNumber(math.Float64frombits(u))
	case strings.HasPrefix(tok, "s:"):
		return value.NewString(unhex(tok[2:]))
	case strings.HasPrefix(tok, "b:"):
		return value.NewBool(tok[2:] == "1")
	}
	panic("bad value spec " + tok)
}

func parseNestedSpec(s string) r.Element {
	p := &specReader{s: s}
	v := p.value()
	if p.pos != len(s) {
		panic("trailing text in value spec " + s)
	}
	return v
}

func parseNestedSpecs(fs []string) []r.Element {
	vs := []r.Element{}
	for _, f := range fs {
		vs = append(vs, parseNestedSpec(f))
	}
	return vs
}

// ---- outcomes ---------------------------------------------------------------------------------------

func jsonErr(err error) string {
	switch e := err.(type) {
	case *zerr.Signal:
		if e.SigType == zerr.SigTypeException {
			if _, ok := e.Extra.(*value.Exception); ok {
				return "exc"
			}
		}
		return "err signal " + strconv.Itoa(int(e.SigType))
	case *zerr.RuntimeError:
		return "err rt " + strconv.Itoa(e.Code)
	}
	return "err other 0"
}

func genOutcome(v r.Element, err error) string {
	if err != nil {
		return jsonErr(err)
	}
	s, ok := v.(*value.String)
	if !ok {
		return "ok-not-text " + canon(v, 0)
	}
	return "ok " + hexs(s.GetValue())
}

func repeated(reps int, f func() string) string {
	first := f()
	for i := 1; i < reps; i++ {
		if again := f(); again != first {
			return "nondet " + strings.TrimPrefix(first, "ok ") + " " + strings.TrimPrefix(again, "ok ")
		}
	}
	return first
}

// scribble changes a parsed value in place at every level (as a program may do to a call result it never bound to a name)
func scribble(e r.Element, depth int) {
	if depth > 20 {
		return
	}
	switch v := e.(type) {
	case *value.HashMap:
		for _, k := range append([]string{}, v.GetKeyOrder()...) {
			scribble(v.GetValue()[k], depth+1)
		}
		v.ExecMethod("写入", []r.Element{value.NewString("涂"), value.NewNumber(99)})
		if ks := v.GetKeyOrder(); len(ks) > 1 {
			v.ExecMethod("移除", []r.Element{value.NewString(ks[0])})
		}
	case *value.Array:
		for _, it := range append([]r.Element{}, v.GetValue()...) {
			scribble(it, depth+1)
		}
		v.ExecMethod("后增", []r.Element{value.NewString("涂")})
	case *value.Number:
		v.ExecMethod("自增", []r.Element{value.NewNumber(7)})
	}
}

func parseOutcome(v r.Element, err error) string {
	if err != nil {
		return jsonErr(err)
	}
	return "ok " + canon(v, 0)
}

// ---- Zn programs --------------------------------------------------------------------------------------

const znGenProgram = "导入《@JSON》\n输入甲\n输出（生成JSON：甲）\n拦截异常：\n    输出真\n"
const znParseProgram = "导入《@JSON》\n输入甲\n输出（解析JSON：甲）\n拦截异常：\n    输出真\n"

// the handler yields 真, which neither call can produce (a text / a dictionary)
func runZn(src string, arg r.Element) string {
	interp := exec.NewInterpreter("verif").SetExternalLibs(stdLibs())
	captureStdout()
	res, err := interp.LoadScript([]rune(src)).Execute(r.ElementMap{"甲": arg})
	finishCapture()
	if err != nil {
		return canonErr(err)
	}
	if b, ok := res.(*value.Bool); ok && b.GetValue() {
		return "exc"
	}
	if s, ok := res.(*value.String); ok {
		return "ok " + hexs(s.GetValue())
	}
	return "ok " + canon(res, 0)
}

func opJSON(f []string) string {
	switch f[0] {
	case "gen":
		return genOutcome(zjson.FN_generateJson(nil, parseNestedSpecs(f[1:])))
	case "elem":
		return genOutcome(common.ElementToJSONString(parseNestedSpec(f[1])))
	case "parse":
		reps, _ := strconv.Atoi(f[1])
		args := parseNestedSpecs(f[2:])
		return repeated(reps, func() string {
			e, err := zjson.FN_parseJson(nil, args)
			out := parseOutcome(e, err)
			scribble(e, 0) // the caller owns what it got: what it does to it must not reach the next parse of the same text
			return out
		})
	case "rt":
		reps, _ := strconv.Atoi(f[1])
		text, err := zjson.FN_generateJson(nil, []r.Element{parseNestedSpec(f[2])})
		if err != nil {
			return "gen:" + jsonErr(err)
		}
		return repeated(reps, func() string { return parseOutcome(zjson.FN_parseJson(nil, []r.Element{text})) })
	case "zn":
		switch f[1] {
		case "gen":
			return runZn(znGenProgram, parseNestedSpec(f[2]))
		case "parse":
			reps, _ := strconv.Atoi(f[2])
			arg := parseNestedSpec(f[3])
			return repeated(reps, func() string { return runZn(znParseProgram, arg) })
		}
	}
	return "bad-op"
}
