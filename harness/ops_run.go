package main

import (
	"github.com/DemoHn/Zn/pkg/common"
	"fmt"
	"math"
	"os"
	"path/filepath"
	"reflect"
	"regexp"
	"strconv"
	"strings"

	"github.com/DemoHn/Zn/pkg/exec"
	r "github.com/DemoHn/Zn/pkg/runtime"
	"github.com/DemoHn/Zn/pkg/syntax"
	"github.com/DemoHn/Zn/pkg/syntax/zh"
	"github.com/DemoHn/Zn/pkg/value"
	"github.com/DemoHn/Zn/stdlib/file"
	"github.com/DemoHn/Zn/stdlib/json"
)

func init() {
	register("run", opRun)
	register("ast", opAst)
	register("runfiles", opRunFiles)
}

// httpLib: the two HTTP classes of pkg/common under a library name of the harness' own. Their home, stdlib/http, does
// not compile; without a library a program cannot construct the HTTP响应 object that sendHTTPResponse unpacks.
func httpLib() *r.Library {
	return r.NewLibrary("@验证HTTP").
		RegisterClass("HTTP请求", common.CLASS_HttpRequest).
		RegisterClass("HTTP响应", common.CLASS_HttpResponse)
}

func stdLibs() []*r.Library {
	return []*r.Library{json.Export(), file.Export(), httpLib()}
}

// ---- canonical values -------------------------------------------------------------------------

func canon(e r.Element, depth int) string {
	if e == nil || (reflect.ValueOf(e).Kind() == reflect.Ptr && reflect.ValueOf(e).IsNil()) {
		return "nil!"
	}
	if depth > 40 {
		return "deep!"
	}
	switch v := e.(type) {
	case *value.Number:
		return "n:" + numBits(v.GetValue())
	case *value.String:
		return "s:" + hexs(v.GetValue())
	case *value.Bool:
		if v.GetValue() {
			return "b:1"
		}
		return "b:0"
	case *value.Null:
		return "null"
	case *value.Array:
		var sb strings.Builder
		sb.WriteString("[")
		for i, it := range v.GetValue() {
			if i > 0 {
				sb.WriteString(",")
			}
			sb.WriteString(canon(it, depth+1))
		}
		sb.WriteString("]")
		return sb.String()
	case *value.HashMap:
		var sb strings.Builder
		sb.WriteString("{")
		m := v.GetValue()
		for i, k := range v.GetKeyOrder() {
			if i > 0 {
				sb.WriteString(",")
			}
			sb.WriteString(hexs(k))
			sb.WriteString("=")
			sb.WriteString(canon(m[k], depth+1))
		}
		sb.WriteString("}")
		if len(m) != len(v.GetKeyOrder()) {
			sb.WriteString("!len-mismatch")
		}
		return sb.String()
	case *value.Object:
		return "obj:" + hexs(v.GetObjectName())
	case *value.Function:
		return "fn"
	case *value.ClassModel:
		return "cls:" + hexs(v.GetName())
	case *value.Exception:
		return "exc:" + hexs(v.Message)
	case *value.GoValue:
		return "go:" + v.GetTag()
	}
	return "other:" + fmt.Sprintf("%T", e)
}

// ---- canonical errors: parsed from the text the user sees ----------------------------------------

var reCode = regexp.MustCompile(`(语法错误|运行异常|IO错误)(\[(\d+)\])?：`)
var reHead = regexp.MustCompile(`在主模块中，位于第 (\d+) 行发生异常：|在模块“([^”]*)”中，位于第 (\d+) 行发生异常：|在 <内置模块> 中发生异常：`)
var reBody = regexp.MustCompile(`来自主模块，第 (\d+) 行：|来自“([^”]*)”模块，第 (\d+) 行：|来自 <内置模块>：`)

// canonErr: `err <class> <code> <head-module>:<line> [chain…]` ; class ∈ syn rt io other
func canonErr(err error) string {
	text := exec.DisplayError(err)
	cls, code := "other", "0"
	if m := reCode.FindStringSubmatch(text); m != nil {
		switch m[1] {
		case "语法错误":
			cls = "syn"
		case "运行异常":
			cls = "rt"
		case "IO错误":
			cls = "io"
		}
		if m[3] != "" {
			code = m[3]
		}
	}
	var locs []string
	if m := reHead.FindStringSubmatch(text); m != nil {
		switch {
		case m[1] != "":
			locs = append(locs, "main:"+m[1])
		case m[3] != "":
			locs = append(locs, hexs(m[2])+":"+m[3])
		default:
			locs = append(locs, "native")
		}
	}
	for _, m := range reBody.FindAllStringSubmatch(text, -1) {
		switch {
		case m[1] != "":
			locs = append(locs, "main:"+m[1])
		case m[3] != "":
			locs = append(locs, hexs(m[2])+":"+m[3])
		default:
			locs = append(locs, "native")
		}
	}
	// caret column for syntax errors: number of spaces before ^ minus the 4 of the indent
	caret := ""
	if cls == "syn" {
		for _, ln := range strings.Split(text, "\n") {
			t := strings.TrimRight(ln, " ")
			if strings.HasSuffix(t, "^") && strings.TrimSpace(t) == "^" {
				caret = " caret=" + strconv.Itoa(len(t)-1-4)
			}
		}
	}
	if len(locs) == 0 {
		locs = []string{"noloc"}
	}
	return "err " + cls + " " + code + " " + strings.Join(locs, ">") + caret
}

// ---- inputs --------------------------------------------------------------------------------------

func parseValueSpec(s string) r.Element {
	switch {
	case s == "null":
		return value.NewNull()
	case strings.HasPrefix(s, "n:"):
		if s[2:] == "nan" {
			return value.NewNumber(math.NaN())
		}
		u, _ := strconv.ParseUint(s[2:], 16, 64)
		return value.NewNumber(math.Float64frombits(u))
	case strings.HasPrefix(s, "s:"):
		return value.NewString(unhex(s[2:]))
	case strings.HasPrefix(s, "b:"):
		return value.NewBool(s[2:] == "1")
	}
	panic("bad value spec " + s)
}

func parseInputs(fs []string) r.ElementMap {
	m := r.ElementMap{}
	for _, f := range fs {
		i := strings.Index(f, "=")
		m[unhex(f[:i])] = parseValueSpec(f[i+1:])
	}
	return m
}

func traceField(b []byte) string {
	// displayed lines, each hex-encoded, comma separated
	if len(b) == 0 {
		return "-"
	}
	lines := strings.Split(strings.TrimSuffix(string(b), "\n"), "\n")
	for i := range lines {
		lines[i] = hexs(lines[i])
		if lines[i] == "-" {
			lines[i] = "00"[:0] + "e"
		}
	}
	return strings.Join(lines, ",")
}

// run <src-cps> [name=valuespec…]  →  ok <value> | <trace>   or   err … | <trace>
func opRun(f []string) string {
	src := parseCps(f[0])
	inputs := parseInputs(f[1:])
	interp := exec.NewInterpreter("verif").SetExternalLibs(stdLibs())
	captureStdout()
	res, err := interp.LoadScript(src).Execute(inputs)
	tr := finishCapture()
	if err != nil {
		return canonErr(err) + " | " + traceField(tr)
	}
	return "ok " + canon(res, 0) + " | " + traceField(tr)
}

// runfiles <n> (<relpath-hex> <src-cps>)*n <main-relpath-hex> [inputs…]
func opRunFiles(f []string) string {
	n, _ := strconv.Atoi(f[0])
	dir, err := os.MkdirTemp("", "znh-mod-")
	if err != nil {
		panic(err)
	}
	defer os.RemoveAll(dir)
	for i := 0; i < n; i++ {
		rel := unhex(f[1+2*i])
		p := filepath.Join(dir, rel)
		os.MkdirAll(filepath.Dir(p), 0o755)
		os.WriteFile(p, []byte(string(parseCps(f[2+2*i]))), 0o644)
	}
	mainRel := unhex(f[1+2*n])
	inputs := parseInputs(f[2+2*n:])
	interp := exec.NewInterpreter("verif").SetExternalLibs(stdLibs())
	captureStdout()
	res, err := interp.LoadFile(filepath.Join(dir, mainRel)).Execute(inputs)
	tr := finishCapture()
	if err != nil {
		return canonErr(err) + " | " + traceField(tr)
	}
	return "ok " + canon(res, 0) + " | " + traceField(tr)
}

// ---- AST dump --------------------------------------------------------------------------------------

func opAst(f []string) string {
	src := parseCps(f[0])
	p := syntax.NewParser(src, zh.NewParserZH())
	prog, err := p.Parse()
	if err != nil {
		return errField(err)
	}
	return "ok " + dumpProgram(prog)
}

func isNil(x interface{}) bool {
	if x == nil {
		return true
	}
	v := reflect.ValueOf(x)
	return (v.Kind() == reflect.Ptr || v.Kind() == reflect.Interface || v.Kind() == reflect.Slice) && v.IsNil()
}

func dumpID(id *syntax.ID) string {
	if id == nil {
		return "nil"
	}
	return "(id " + strconv.Itoa(id.GetCurrentLine()) + " " + hexs(id.GetLiteral()) + ")"
}

func dumpIDs(ids []*syntax.ID) string {
	var sb strings.Builder
	sb.WriteString("(")
	for i, id := range ids {
		if i > 0 {
			sb.WriteString(" ")
		}
		sb.WriteString(dumpID(id))
	}
	sb.WriteString(")")
	return sb.String()
}

func dumpExprs(es []syntax.Expression) string {
	var sb strings.Builder
	sb.WriteString("(")
	for i, e := range es {
		if i > 0 {
			sb.WriteString(" ")
		}
		sb.WriteString(dumpExpr(e))
	}
	sb.WriteString(")")
	return sb.String()
}

func dumpProgram(p *syntax.Program) string {
	if p == nil {
		return "nil"
	}
	var sb strings.Builder
	sb.WriteString("(prog (")
	for i, im := range p.ImportBlock {
		if i > 0 {
			sb.WriteString(" ")
		}
		if im == nil {
			sb.WriteString("nil")
			continue
		}
		name := "nil"
		if im.ImportName != nil {
			name = hexs(im.ImportName.GetLiteral())
		}
		fmt.Fprintf(&sb, "(import %d %d %s %s)", im.GetCurrentLine(), im.ImportLibType, name, dumpIDs(im.ImportItems))
	}
	sb.WriteString(") ")
	sb.WriteString(dumpExec(p.ExecBlock))
	sb.WriteString(")")
	return sb.String()
}

func dumpExec(x *syntax.ExecBlock) string {
	if x == nil {
		return "nil"
	}
	var sb strings.Builder
	sb.WriteString("(exec ")
	sb.WriteString(dumpIDs(x.InputBlock))
	sb.WriteString(" ")
	sb.WriteString(dumpBlock(x.StmtBlock))
	sb.WriteString(" (")
	for i, c := range x.CatchBlock {
		if i > 0 {
			sb.WriteString(" ")
		}
		if c == nil {
			sb.WriteString("nil")
			continue
		}
		sb.WriteString("(catch " + dumpID(c.ExceptionClass) + " " + dumpBlock(c.StmtBlock) + ")")
	}
	sb.WriteString("))")
	return sb.String()
}

func dumpBlock(b *syntax.StmtBlock) string {
	if b == nil {
		return "nil"
	}
	var sb strings.Builder
	sb.WriteString("(block")
	for _, s := range b.Children {
		sb.WriteString(" ")
		sb.WriteString(dumpStmt(s))
	}
	sb.WriteString(")")
	return sb.String()
}

func dumpFunc(v *syntax.FunctionDeclareStmt) string {
	if v == nil {
		return "nil"
	}
	return fmt.Sprintf("(funcdecl %d %s %d %s)", v.GetCurrentLine(), dumpID(v.Name), v.DeclareType, dumpExec(v.ExecBlock))
}

func dumpStmt(s syntax.Statement) string {
	if isNil(s) {
		return "nil"
	}
	L := s.GetCurrentLine()
	switch v := s.(type) {
	case *syntax.VarDeclareStmt:
		var sb strings.Builder
		fmt.Fprintf(&sb, "(vardecl %d", L)
		for _, p := range v.AssignPair {
			fmt.Fprintf(&sb, " (pair %d %s %s)", p.Type, dumpIDs(p.Variables), dumpExpr(p.AssignExpr))
		}
		sb.WriteString(")")
		return sb.String()
	case *syntax.WhileLoopStmt:
		return fmt.Sprintf("(while %d %s %s)", L, dumpExpr(v.TrueExpr), dumpBlock(v.LoopBlock))
	case *syntax.BranchStmt:
		var sb strings.Builder
		fmt.Fprintf(&sb, "(branch %d %s %s (", L, dumpExpr(v.IfTrueExpr), dumpBlock(v.IfTrueBlock))
		for i := range v.OtherExprs {
			if i > 0 {
				sb.WriteString(" ")
			}
			blk := "missing"
			if i < len(v.OtherBlocks) {
				blk = dumpBlock(v.OtherBlocks[i])
			}
			sb.WriteString("(" + dumpExpr(v.OtherExprs[i]) + " " + blk + ")")
		}
		if len(v.OtherBlocks) != len(v.OtherExprs) {
			sb.WriteString(" mismatch")
		}
		he := 0
		if v.HasElse {
			he = 1
		}
		fmt.Fprintf(&sb, ") %d %s)", he, dumpBlock(v.IfFalseBlock))
		return sb.String()
	case *syntax.EmptyStmt:
		return fmt.Sprintf("(empty %d)", L)
	case *syntax.FunctionDeclareStmt:
		return dumpFunc(v)
	case *syntax.ClassDeclareStmt:
		var sb strings.Builder
		fmt.Fprintf(&sb, "(classdecl %d %s (", L, dumpID(v.ClassName))
		for i, p := range v.PropertyList {
			if i > 0 {
				sb.WriteString(" ")
			}
			if p == nil {
				sb.WriteString("nil")
				continue
			}
			sb.WriteString("(prop " + dumpID(p.PropertyID) + " " + dumpExpr(p.InitValue) + ")")
		}
		sb.WriteString(") (")
		for i, m := range v.MethodList {
			if i > 0 {
				sb.WriteString(" ")
			}
			sb.WriteString(dumpFunc(m))
		}
		sb.WriteString(") (")
		for i, m := range v.GetterList {
			if i > 0 {
				sb.WriteString(" ")
			}
			sb.WriteString(dumpFunc(m))
		}
		sb.WriteString("))")
		return sb.String()
	case *syntax.IterateStmt:
		return fmt.Sprintf("(iterate %d %s %s %s)", L, dumpExpr(v.IterateExpr), dumpIDs(v.IndexNames), dumpBlock(v.IterateBlock))
	case *syntax.FunctionReturnStmt:
		return fmt.Sprintf("(ret %d %s)", L, dumpExpr(v.ReturnExpr))
	case *syntax.ThrowExceptionStmt:
		return fmt.Sprintf("(throw %d %s %s)", L, dumpID(v.ExceptionClass), dumpExprs(v.Params))
	case *syntax.ContinueStmt:
		return fmt.Sprintf("(continue %d)", L)
	case *syntax.BreakStmt:
		return fmt.Sprintf("(break %d)", L)
	case *syntax.ImportStmt:
		return fmt.Sprintf("(importstmt %d)", L)
	case syntax.Expression:
		return dumpExpr(v)
	}
	return fmt.Sprintf("(unknown-stmt %T)", s)
}

func dumpExpr(e syntax.Expression) string {
	if isNil(e) {
		return "nil"
	}
	L := e.GetCurrentLine()
	switch v := e.(type) {
	case *syntax.ID:
		return dumpID(v)
	case *syntax.String:
		return fmt.Sprintf("(str %d %s)", L, hexs(v.GetLiteral()))
	case *syntax.ArrayExpr:
		return fmt.Sprintf("(arr %d %s)", L, dumpExprs(v.Items))
	case *syntax.HashMapExpr:
		var sb strings.Builder
		fmt.Fprintf(&sb, "(hm %d (", L)
		for i, kv := range v.KVPair {
			if i > 0 {
				sb.WriteString(" ")
			}
			sb.WriteString("(" + dumpExpr(kv.Key) + " " + dumpExpr(kv.Value) + ")")
		}
		sb.WriteString("))")
		return sb.String()
	case *syntax.VarAssignExpr:
		var t syntax.Expression = v.TargetVar
		return fmt.Sprintf("(assign %d %s %s)", L, dumpExpr(t), dumpExpr(v.AssignExpr))
	case *syntax.LogicExpr:
		return fmt.Sprintf("(logic %d %d %s %s)", L, v.Type, dumpExpr(v.LeftExpr), dumpExpr(v.RightExpr))
	case *syntax.ArithExpr:
		return fmt.Sprintf("(arith %d %d %s %s)", L, v.Type, dumpExpr(v.LeftExpr), dumpExpr(v.RightExpr))
	case *syntax.MemberExpr:
		return fmt.Sprintf("(member %d %d %s %d %s %s)", L, v.RootType, dumpExpr(v.Root), v.MemberType, dumpID(v.MemberID), dumpExpr(v.MemberIndex))
	case *syntax.FuncCallExpr:
		return fmt.Sprintf("(call %d %s %s %s)", L, dumpID(v.FuncName), dumpExprs(v.Params), dumpID(v.YieldResult))
	case *syntax.MemberMethodExpr:
		var sb strings.Builder
		fmt.Fprintf(&sb, "(mcall %d %s (", L, dumpExpr(v.Root))
		for i, c := range v.MethodChain {
			if i > 0 {
				sb.WriteString(" ")
			}
			if c == nil {
				sb.WriteString("nil")
				continue
			}
			sb.WriteString(dumpExpr(c))
		}
		sb.WriteString(") " + dumpID(v.YieldResult) + ")")
		return sb.String()
	case *syntax.ObjNewExpr:
		return fmt.Sprintf("(new %d %s %s)", L, dumpID(v.ClassName), dumpExprs(v.Params))
	}
	return fmt.Sprintf("(unknown-expr %T)", e)
}
