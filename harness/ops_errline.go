package main

import (
	"fmt"
	"strconv"
	"strings"

	zerr "github.com/DemoHn/Zn/pkg/error"
	"github.com/DemoHn/Zn/pkg/exec"
	"github.com/DemoHn/Zn/pkg/syntax"
	"github.com/DemoHn/Zn/pkg/syntax/zh"
)

func init() {
	register("errline", opErrLine)
}

// errline <cps> <cursor>  →  ok <lineNo> <quoted-line cps> <caret col> | panic | bad-format
//
// Runs the real syntax-error display (exec.DisplayError on a wrapped SyntaxError whose Cursor is
// <cursor>) over a parser that has parsed <cps> (parsing only fills the Lines table; its outcome is
// ignored), and parses the printed text back:
//
//	在主模块中，位于第 <lineNo> 行发生异常：\n
//	␠␠␠␠<quoted line>\n
//	␠␠␠␠<caret col spaces>^\n
//	\n语法错误[20]：x\n
//
// The quoted line is taken between the fixed head and the LAST newline before the caret line, so a
// quoted "line" that (wrongly) contains CR/LF/NUL is reported as it was printed.
func opErrLine(f []string) string {
	src := parseCps(f[0])
	cursor, err := strconv.Atoi(f[1])
	if err != nil {
		return "bad-args"
	}
	// an exact-capacity copy: the printer appends a sentinel to GetSource()
	own := make([]rune, len(src))
	copy(own, src)
	parser := syntax.NewParser(own, zh.NewParserZH())
	func() {
		defer func() { _ = recover() }()
		_, _ = parser.Parse()
	}()
	const msg = "x"
	text := exec.DisplayError(exec.WrapSyntaxError(parser, "主模块", &zerr.SyntaxError{Code: 20, Message: msg, Cursor: cursor}))

	const headPre = "在主模块中，位于第 "
	const headPost = " 行发生异常：\n    "
	tail := "\n\n语法错误[20]：" + msg + "\n"
	if !strings.HasPrefix(text, headPre) || !strings.HasSuffix(text, tail) {
		return "bad-format head/tail"
	}
	rest := text[len(headPre):]
	k := strings.Index(rest, headPost)
	if k < 0 {
		return "bad-format head"
	}
	lineNo, err := strconv.Atoi(rest[:k])
	if err != nil {
		return "bad-format lineNo"
	}
	body := rest[k+len(headPost) : len(rest)-len(tail)]
	// body = <quoted line> "\n    " <spaces> "^"
	j := strings.LastIndex(body, "\n")
	if j < 0 {
		return "bad-format body"
	}
	quoted, caretLine := body[:j], body[j+1:]
	if !strings.HasPrefix(caretLine, "    ") || !strings.HasSuffix(caretLine, "^") {
		return "bad-format caret"
	}
	pad := caretLine[4 : len(caretLine)-1]
	if strings.Trim(pad, " ") != "" {
		return "bad-format caret-pad"
	}
	return fmt.Sprintf("ok %d %s %d", lineNo, cpField([]rune(quoted)), len(pad))
}
