// C10: the value classes of pkg/common (http_request.go, http_resp.go): Construct with any argument list, then every property of
// the object that came back.
//
//   httpval req|resp <arg-spec>*        common.CLASS_HttpRequest / CLASS_HttpResponse .Construct(args)
//
//   answers:  ok {<hex property>=<canonical value>,…} | <canonical arguments afterwards, comma separated, - for none>
//             err <class> <code> | <arguments afterwards>
//
// Value specs as in ops_value.go.  The model side is lean/ZnVerif/Ops/HttpValues.lean (Model/HttpValues.lean).
package main

import (
	"sort"
	"strings"

	"github.com/DemoHn/Zn/pkg/common"
	r "github.com/DemoHn/Zn/pkg/runtime"
	"github.com/DemoHn/Zn/pkg/value"
)

func init() {
	register("httpval", opHTTPVal)
}

func opHTTPVal(f []string) string {
	if len(f) < 1 {
		return "bad-case"
	}
	var cls *value.ClassModel
	switch f[0] {
	case "req":
		cls = common.CLASS_HttpRequest
	case "resp":
		cls = common.CLASS_HttpResponse
	default:
		return "bad-case"
	}
	args := []r.Element{}
	for _, a := range f[1:] {
		args = append(args, parseSpec(a))
	}
	after := func() string {
		if len(args) == 0 {
			return "-"
		}
		cs := make([]string, len(args))
		for i, a := range args {
			cs[i] = canon(a, 0)
		}
		return strings.Join(cs, ",")
	}
	res, err := cls.Construct(args)
	if err != nil {
		return valErr(err) + " | " + after()
	}
	if res == nil {
		return "ok nil! | " + after()
	}
	obj, ok := res.(*value.Object)
	if !ok {
		return "ok " + canon(res, 0) + " | " + after()
	}
	names := make([]string, 0)
	for k := range cls.GetPropList() {
		names = append(names, k)
	}
	sort.Strings(names)
	var sb strings.Builder
	sb.WriteString("{")
	for i, k := range names {
		if i > 0 {
			sb.WriteString(",")
		}
		v, gerr := obj.GetProperty(k)
		if gerr != nil {
			sb.WriteString(hexs(k) + "=" + valErr(gerr))
			continue
		}
		sb.WriteString(hexs(k) + "=" + canon(v, 0))
	}
	sb.WriteString("}")
	// the object has to stay displayable and copyable
	_ = obj.String()
	_ = value.DuplicateValue(obj)
	return "ok " + sb.String() + " | " + after()
}
