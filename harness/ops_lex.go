package main

import (
	"fmt"
	"math"
	"strconv"
	"strings"

	zerr "github.com/DemoHn/Zn/pkg/error"
	"github.com/DemoHn/Zn/pkg/exec"
	r "github.com/DemoHn/Zn/pkg/runtime"
	"github.com/DemoHn/Zn/pkg/syntax"
	"github.com/DemoHn/Zn/pkg/syntax/zh"
)

func init() {
	register("idrange", opIdRange)
	register("numfmt", opNumFmt)
	register("lex", opLex)
	register("idrangedesc", opIdRangeDesc)
	register("idseq", opIdSeq)
	register("lex2", opLex2)
	register("numname", opNumName)
}

// idrangedesc <lo> <hi>  →  ok <string of 0/1 for lo..hi-1>, the code points looked up from hi-1 DOWN to lo
func opIdRangeDesc(f []string) string {
	lo, _ := strconv.Atoi(f[0])
	hi, _ := strconv.Atoi(f[1])
	buf := make([]byte, hi-lo)
	for c := hi - 1; c >= lo; c-- {
		if syntax.IdInRange(rune(c)) {
			buf[c-lo] = '1'
		} else {
			buf[c-lo] = '0'
		}
	}
	return "ok " + string(buf)
}

// idseq <cps>  →  ok <0/1 per code point>, looked up one after the other in the given order
func opIdSeq(f []string) string {
	var sb strings.Builder
	sb.WriteString("ok ")
	for _, c := range parseCps(f[0]) {
		if syntax.IdInRange(c) {
			sb.WriteByte('1')
		} else {
			sb.WriteByte('0')
		}
	}
	return sb.String()
}

// lex2 <cps1> <cps2>  →  <answer of lex cps1> ;; <answer of lex cps2>   (two texts, one after the other, one process)
func opLex2(f []string) string {
	a := opLex(f[:1])
	b := opLex(f[1:2])
	return a + " ;; " + b
}

// numname <cps>  →  name | err <class> <code>     (exec.MatchIDName: the spelling where only a NAME is allowed)
func opNumName(f []string) string {
	id := &syntax.ID{}
	id.SetLiteral(parseCps(f[0]))
	t, err := exec.MatchIDName(id)
	if err != nil {
		return errField(err)
	}
	if t == nil || t.GetLiteral() != string(parseCps(f[0])) {
		return "unknown"
	}
	return "name"
}

// idrange <lo> <hi>  →  ok <string of 0/1 for lo..hi-1>
func opIdRange(f []string) string {
	lo, _ := strconv.Atoi(f[0])
	hi, _ := strconv.Atoi(f[1])
	var sb strings.Builder
	sb.WriteString("ok ")
	for c := lo; c < hi; c++ {
		if syntax.IdInRange(rune(c)) {
			sb.WriteByte('1')
		} else {
			sb.WriteByte('0')
		}
	}
	return sb.String()
}

func numBits(x float64) string {
	if math.IsNaN(x) {
		return "nan"
	}
	return fmt.Sprintf("%016x", math.Float64bits(x))
}

// runes <-> protocol: code points as dot-separated hex ("-" for empty)
func cpField(rs []rune) string {
	if len(rs) == 0 {
		return "-"
	}
	var sb strings.Builder
	for i, c := range rs {
		if i > 0 {
			sb.WriteByte('.')
		}
		sb.WriteString(strconv.FormatInt(int64(c), 16))
	}
	return sb.String()
}

func parseCps(s string) []rune {
	if s == "-" || s == "" {
		return []rune{}
	}
	parts := strings.Split(s, ".")
	out := make([]rune, 0, len(parts))
	for _, p := range parts {
		v, err := strconv.ParseInt(p, 16, 64)
		if err != nil {
			panic("bad cp field")
		}
		out = append(out, rune(v))
	}
	return out
}

// numfmt <cps>  →  name | num <bits> | err <code>
func opNumFmt(f []string) string {
	id := &syntax.ID{}
	id.SetLiteral(parseCps(f[0]))
	t, err := exec.MatchIDType(id)
	if err != nil {
		return errField(err)
	}
	switch v := t.(type) {
	case *r.IDNumber:
		return "num " + numBits(v.GetValue())
	case *r.IDName:
		return "name"
	}
	return "unknown"
}

func errField(err error) string {
	switch e := err.(type) {
	case *zerr.SyntaxError:
		return fmt.Sprintf("err syn %d %d", e.Code, e.Cursor)
	case *zerr.SemanticError:
		return fmt.Sprintf("err sem %d", e.Code)
	case *zerr.RuntimeError:
		return fmt.Sprintf("err rt %d", e.Code)
	case *zerr.IOError:
		return fmt.Sprintf("err io %d", e.Code)
	case *zerr.Signal:
		return fmt.Sprintf("err sig %d", e.SigType)
	}
	return "err other 0"
}

// lex <cps>  →  ok (<type>:<start>:<end>:<literal>)* | <tokens so far> err syn <code> <cursor>
// lex <cps>: the text is lexed TWICE from the same rune slice (a loaded program is compiled again at every execution):
// lexing must leave the text as it was, and the second pass must give what the first gave
func opLex(f []string) string {
	src := parseCps(f[0])
	a := lexOnce(src)
	orig := parseCps(f[0])
	for i := range orig {
		if i >= len(src) || src[i] != orig[i] {
			return a + " SRC-CHANGED"
		}
	}
	if b := lexOnce(src); b != a {
		return a + " RELEX-DIFFERS"
	}
	return a
}

func lexOnce(src []rune) string {
	l := syntax.NewLexer(src)
	var sb strings.Builder
	n := 0
	// the tokens are kept (not copied) and printed only after the whole text has been lexed, the way the parser
	// holds a token while it reads ahead: a literal that aliases a buffer reused by a later token shows up here
	var held []syntax.Token
	flush := func() {
		for _, tk := range held {
			fmt.Fprintf(&sb, " %d:%d:%d:%s", tk.Type, tk.StartIdx, tk.EndIdx, cpField(tk.Literal))
		}
	}
	for {
		tk, err := zh.NextToken(l)
		if err != nil {
			flush()
			return "ok" + sb.String() + " " + errField(err)
		}
		held = append(held, tk)
		if tk.Type == zh.TypeEOF {
			break
		}
		n++
		if n > 4*len(src)+16 {
			flush()
			return "ok" + sb.String() + " nonterminating"
		}
	}
	flush()
	// the Lines table
	sb.WriteString(" |")
	for _, ln := range l.Lines {
		fmt.Fprintf(&sb, " %d:%d:%s", ln.Indents, ln.StartIdx, cpField(ln.LineText))
	}
	return "ok" + sb.String()
}

