package main

// Text methods of pkg/value/string.go beyond C14's four (C10 / C14 correspondence with Model/TextMethods.lean):
//
//   tm    <method> <t> <arg>*    the method called on value.NewString(t) directly (String.ExecMethod)
//   tmrun <method> <t> <arg>*    the same through a one-line program `输入T、A1、…  ⏎  输出以T（方法：A1、…）`
//       method: replace match prefix suffix trim lower upper join format tonum slice split
//       arg:    s<cps> text | n<16 hex bits> number | b0/b1 | z null      (scalarArg of ops_fmt.go)
//       answer: ok <cps> | okbytes <hex>       a text
//               ok 0 | ok 1                     a truth value
//               ok <n> <piece>*                 a list of texts
//               ok n:<bits> | <text after>      转换数值: the number, and what the receiver holds afterwards
//               err <class> <code>              (转换数值: `err … | <text after>`)
//   unitab caseless <lo> <hi>    ok when no code point of lo..hi (hex) has a case mapping in Go's unicode tables
//   unitab spaces                ok <cps>: every code point with unicode.IsSpace

import (
	"fmt"
	"strconv"
	"strings"
	"unicode"

	r "github.com/DemoHn/Zn/pkg/runtime"
	"github.com/DemoHn/Zn/pkg/value"
)

func init() {
	register("tm", opTextMethod)
	register("tmrun", opTextMethodRun)
	register("unitab", opUniTab)
}

var tmNames = map[string]string{
	"replace": "替换", "match": "匹配", "prefix": "匹配开头", "suffix": "匹配结尾", "trim": "去除空格",
	"lower": "转小写-英文", "upper": "转大写-英文", "join": "拼接", "format": "格式化", "tonum": "转换数值",
	"slice": "取样", "split": "分隔",
}

func tmResult(which string, t *value.String, e r.Element, err error) string {
	tail := ""
	if which == "tonum" {
		tail = " | " + strings.TrimPrefix(strings.TrimPrefix(textField(t.GetValue()), "ok "), "okbytes ")
	}
	if err != nil {
		return errField(err) + tail
	}
	switch v := e.(type) {
	case *value.String:
		return textField(v.GetValue()) + tail
	case *value.Bool:
		if v.GetValue() {
			return "ok 1" + tail
		}
		return "ok 0" + tail
	case *value.Number:
		return "ok n:" + numBits(v.GetValue()) + tail
	case *value.Array:
		return listField(e) + tail
	case nil:
		return "nil!"
	}
	return fmt.Sprintf("ok? %T", e)
}

func opTextMethod(f []string) string {
	name, ok := tmNames[f[0]]
	if !ok {
		return "bad-op"
	}
	t := value.NewString(string(parseCps(f[1])))
	args := []r.Element{}
	for _, a := range f[2:] {
		args = append(args, scalarArg(a))
	}
	e, err := t.ExecMethod(name, args)
	return tmResult(f[0], t, e, err)
}

func opTextMethodRun(f []string) string {
	name, ok := tmNames[f[0]]
	if !ok {
		return "bad-op"
	}
	t := value.NewString(string(parseCps(f[1])))
	inputs := r.ElementMap{"T": t}
	names := []string{}
	for i, a := range f[2:] {
		n := "A" + strconv.Itoa(i+1)
		names = append(names, n)
		inputs[n] = scalarArg(a)
	}
	src := "输入T"
	for _, n := range names {
		src += "、" + n
	}
	src += "\n输出以T（" + name
	if len(names) > 0 {
		src += "：" + strings.Join(names, "、")
	}
	src += "）"
	e, err := runProgram(src, inputs)
	return tmResult(f[0], t, e, err)
}

func opUniTab(f []string) string {
	switch f[0] {
	case "caseless":
		lo, err1 := strconv.ParseInt(f[1], 16, 32)
		hi, err2 := strconv.ParseInt(f[2], 16, 32)
		if err1 != nil || err2 != nil || lo > hi {
			return "bad-op"
		}
		for c := rune(lo); c <= rune(hi); c++ {
			if unicode.ToUpper(c) != c || unicode.ToLower(c) != c {
				return fmt.Sprintf("cased %x", c)
			}
		}
		return "ok"
	case "spaces":
		rs := []rune{}
		for c := rune(0); c <= unicode.MaxRune; c++ {
			if unicode.IsSpace(c) {
				rs = append(rs, c)
			}
		}
		return "ok " + cpField(rs)
	}
	return "bad-op"
}
