package main

import (
	"bytes"
	"fmt"
	"os"
	"os/exec"
	"strconv"
	"strings"
	"sync"

	zexec "github.com/DemoHn/Zn/pkg/exec"
)

func init() {
	register("seq", opSeq)
	register("freshrun", opFreshRun)
	register("race", opRace)
	register("reexec", opReexec)
}

// seq <shared 0|1> <n> <src-cps>*n  →  canonical outcome of the LAST program, after the others ran in this process
// shared=1: one Interpreter object for all of them (LoadScript(src).Execute as the servers do)
func opSeq(f []string) string {
	shared := f[0] == "1"
	n, _ := strconv.Atoi(f[1])
	var interp *zexec.Interpreter
	if shared {
		interp = zexec.NewInterpreter("verif").SetExternalLibs(stdLibs())
	}
	last := ""
	for i := 0; i < n; i++ {
		src := parseCps(f[2+i])
		it := interp
		if !shared {
			it = zexec.NewInterpreter("verif").SetExternalLibs(stdLibs())
		}
		func() {
			defer func() {
				if r := recover(); r != nil {
					restoreStdout()
					last = "panic"
				}
			}()
			captureStdout()
			res, err := it.LoadScript(src).Execute(nil)
			tr := finishCapture()
			if err != nil {
				last = canonErr(err) + " | " + traceField(tr)
			} else {
				last = "ok " + canon(res, 0) + " | " + traceField(tr)
			}
		}()
	}
	return last
}

// freshrun <src-cps>  →  the outcome of `run <src>` in a brand-new process
func opFreshRun(f []string) string {
	cmd := exec.Command(os.Args[0])
	cmd.Stdin = strings.NewReader("run " + f[0] + "\n")
	var out bytes.Buffer
	cmd.Stdout = &out
	if err := cmd.Run(); err != nil {
		return "fresh-failed " + err.Error()
	}
	return strings.TrimRight(out.String(), "\n")
}

// race <goroutines> <reps> <src-cps>+ : one shared Interpreter, goroutine g runs program g%len repeatedly; every result
// must equal the result of that program run alone first.  Programs must not display (os.Stdout is process-wide).
func opRace(f []string) string {
	g, _ := strconv.Atoi(f[0])
	reps, _ := strconv.Atoi(f[1])
	srcs := f[2:]
	want := make([]string, len(srcs))
	for i, s := range srcs {
		res, err := zexec.NewInterpreter("verif").SetExternalLibs(stdLibs()).LoadScript(parseCps(s)).Execute(nil)
		if err != nil {
			want[i] = canonErr(err)
		} else {
			want[i] = "ok " + canon(res, 0)
		}
	}
	shared := zexec.NewInterpreter("verif").SetExternalLibs(stdLibs())
	var wg sync.WaitGroup
	var mu sync.Mutex
	bad := ""
	for k := 0; k < g; k++ {
		wg.Add(1)
		go func(k int) {
			defer wg.Done()
			i := k % len(srcs)
			src := parseCps(srcs[i])
			for r := 0; r < reps; r++ {
				got := ""
				func() {
					defer func() {
						if rec := recover(); rec != nil {
							got = "panic"
						}
					}()
					res, err := shared.LoadScript(src).Execute(nil)
					if err != nil {
						got = canonErr(err)
					} else {
						got = "ok " + canon(res, 0)
					}
				}()
				if got != want[i] {
					mu.Lock()
					if bad == "" {
						bad = fmt.Sprintf("mismatch prog=%d got=%s want=%s", i, strings.ReplaceAll(got, " ", "_"), strings.ReplaceAll(want[i], " ", "_"))
					}
					mu.Unlock()
					return
				}
			}
		}(k)
	}
	wg.Wait()
	if bad != "" {
		return bad
	}
	return "ok"
}

// reexec <n> <src-cps>  →  the outcomes of n executions of ONE loaded program (`l := it.LoadScript(src)`, then l.Execute n times),
// joined by " ;; " — every execution is a run of its own: all must equal the program's outcome in a fresh process
func opReexec(f []string) string {
	n, _ := strconv.Atoi(f[0])
	loaded := zexec.NewInterpreter("verif").SetExternalLibs(stdLibs()).LoadScript(parseCps(f[1]))
	outs := []string{}
	for i := 0; i < n; i++ {
		func() {
			defer func() {
				if r := recover(); r != nil {
					restoreStdout()
					outs = append(outs, "panic")
				}
			}()
			captureStdout()
			res, err := loaded.Execute(nil)
			tr := finishCapture()
			if err != nil {
				outs = append(outs, canonErr(err)+" | "+traceField(tr))
			} else {
				outs = append(outs, "ok "+canon(res, 0)+" | "+traceField(tr))
			}
		}()
	}
	return strings.Join(outs, " ;; ")
}
