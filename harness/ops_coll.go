// C12: operation histories on one REAL value.Array / value.HashMap.
//
//   coll L <elems|-> <op>*          coll D <k=v,…|-> <op>*          coll R <extra cap> <keys|-> <key>
//
// Every operation goes through the public entry points the interpreter uses: ExecMethod / GetProperty /
// SetProperty and value.NewArrayIV / NewHashMapIV … ReduceRHS / ReduceLHS.  After every operation the line
// carries the operation's result and the observation of the collection: displayed form (String(), hex),
// 长度, and for dictionaries 所有索引 / 所有值.  Protocol: see lean/ZnVerif/Ops/C12.lean.
package main

import (
	"encoding/hex"
	"fmt"
	"math"
	"reflect"
	"strconv"
	"strings"
	"unsafe"

	zerr "github.com/DemoHn/Zn/pkg/error"
	r "github.com/DemoHn/Zn/pkg/runtime"
	"github.com/DemoHn/Zn/pkg/value"
)

func init() {
	register("coll", opColl)
}

var collListProps = map[string]string{"first": "首项", "last": "末项", "len": "长度", "num": "数目", "rev": "逆序", "text": "文本", "bad": "没有此项"}
var collDictProps = map[string]string{"len": "长度", "num": "数目", "keys": "所有索引", "vals": "所有值", "bad": "没有此项", "first": "首项", "last": "末项"}
var collListMethods = map[string]string{"ins": "新增", "add": "添加", "pre": "前增", "app": "后增", "shl": "左移", "shr": "右移",
	"join": "拼接", "mrg": "合并", "has": "包含", "find": "寻找", "swp": "交换", "bad": "没有此法"}
var collDictMethods = map[string]string{"get": "读取", "set": "写入", "del": "移除", "bad": "没有此法"}

func collParseElem(s string) r.Element {
	if s == "" {
		panic("bad elem token")
	}
	switch s[0] {
	case 'n':
		v, err := strconv.Atoi(s[1:])
		if err != nil {
			panic("bad elem token " + s)
		}
		return value.NewNumber(float64(v))
	case 'q':
		v, err := strconv.Atoi(s[1:])
		if err != nil {
			panic("bad elem token " + s)
		}
		return value.NewNumber(float64(v) / 4)
	case 't':
		b, err := hex.DecodeString(s[1:])
		if err != nil {
			panic("bad elem token " + s)
		}
		return value.NewString(string(b))
	case 'z':
		return value.NewNull()
	}
	panic("bad elem token " + s)
}

func collParseElems(s string) []r.Element {
	res := []r.Element{}
	if s == "-" || s == "" {
		return res
	}
	for _, p := range strings.Split(s, ",") {
		res = append(res, collParseElem(p))
	}
	return res
}

func collParseArg(s string) r.Element {
	if strings.HasPrefix(s, "a") {
		return value.NewArray(collParseElems(s[1:]))
	}
	return collParseElem(s)
}

func collKey(s string) string {
	if !strings.HasPrefix(s, "k") {
		panic("bad key token " + s)
	}
	b, err := hex.DecodeString(s[1:])
	if err != nil {
		panic("bad key token " + s)
	}
	return string(b)
}

// canonical token of an element; recv = the collection under test (pointer identity → "self")
func collTok(e r.Element, recv r.Element) string {
	if e == nil {
		return "nil"
	}
	if e == recv {
		return "self"
	}
	switch v := e.(type) {
	case *value.Number:
		x := v.GetValue()
		if x == math.Trunc(x) && math.Abs(x) < 1e15 {
			return fmt.Sprintf("n%d", int64(x))
		}
		if y := x * 4; y == math.Trunc(y) && math.Abs(y) < 1e15 {
			return fmt.Sprintf("q%d", int64(y))
		}
		return "f" + numBits(x)
	case *value.String:
		return "t" + hex.EncodeToString([]byte(v.GetValue()))
	case *value.Null:
		return "null"
	case *value.Bool:
		if v.GetValue() {
			return "b1"
		}
		return "b0"
	case *value.Array:
		items := []string{}
		for _, it := range v.GetValue() {
			items = append(items, collTok(it, recv))
		}
		return "[" + strings.Join(items, ",") + "]"
	case *value.HashMap:
		items := []string{}
		for _, k := range v.GetKeyOrder() {
			items = append(items, "k"+hex.EncodeToString([]byte(k))+"="+collTok(v.GetValue()[k], recv))
		}
		return "{" + strings.Join(items, ",") + "}"
	}
	return fmt.Sprintf("other:%T", e)
}

func collErr(err error) string {
	if e, ok := err.(*zerr.RuntimeError); ok {
		return fmt.Sprintf("err:%d", e.Code)
	}
	return "err:other:" + errField(err)
}

func collResult(e r.Element, err error, recv r.Element) string {
	if err != nil {
		return collErr(err)
	}
	return collTok(e, recv)
}

// list field "a,b,c" of tokens out of an Array element ("-" when empty)
func collField(e r.Element, err error, key bool) string {
	if err != nil {
		return collErr(err)
	}
	arr, ok := e.(*value.Array)
	if !ok {
		return "notarray"
	}
	if len(arr.GetValue()) == 0 {
		return "-"
	}
	items := []string{}
	for _, it := range arr.GetValue() {
		if key {
			s, ok := it.(*value.String)
			if !ok {
				items = append(items, "notstring")
			} else {
				items = append(items, "k"+hex.EncodeToString([]byte(s.GetValue())))
			}
		} else {
			items = append(items, collTok(it, nil))
		}
	}
	return strings.Join(items, ",")
}

func collDisplay(e r.Element) (s string) {
	defer func() {
		if rec := recover(); rec != nil {
			s = "PANIC"
		}
	}()
	return hex.EncodeToString([]byte(e.String()))
}

func collLen(e r.Element) string {
	v, err := e.GetProperty("长度")
	if err != nil {
		return collErr(err)
	}
	n, ok := v.(*value.Number)
	if !ok {
		return "notnumber"
	}
	return strconv.FormatFloat(n.GetValue(), 'f', -1, 64)
}

func collObs(e r.Element, dict bool) string {
	s := collDisplay(e) + ";" + collLen(e)
	if dict {
		ks, err := e.GetProperty("所有索引")
		s += ";" + collField(ks, err, true)
		vs, err2 := e.GetProperty("所有值")
		s += ";" + collField(vs, err2, false)
	}
	return s
}

// IV key / index out of a number or text element, as getMemberExprIV derives it
func collIV(root r.Element, member r.Element) *value.IV {
	switch root.(type) {
	case *value.Array:
		n := member.(*value.Number)
		return value.NewArrayIV(root, int(n.GetValue()))
	case *value.HashMap:
		var s string
		switch x := member.(type) {
		case *value.Number:
			s = x.String()
		case *value.String:
			s = x.String()
		}
		return value.NewHashMapIV(root, s)
	}
	panic("bad IV root")
}

func collStep(recv r.Element, dict bool, tok string) (res string) {
	defer func() {
		if rec := recover(); rec != nil {
			if s, ok := rec.(string); ok && strings.HasPrefix(s, "bad ") {
				res = "badtoken"
				return
			}
			res = "panic"
		}
	}()
	parts := strings.Split(tok, ":")
	props, methods := collListProps, collListMethods
	if dict {
		props, methods = collDictProps, collDictMethods
	}
	switch parts[0] {
	case "g":
		name, ok := props[parts[1]]
		if !ok {
			name = props["bad"]
		}
		v, err := recv.GetProperty(name)
		return collResult(v, err, recv)
	case "s":
		name, ok := props[parts[1]]
		if !ok {
			name = props["bad"]
		}
		err := recv.SetProperty(name, collParseElem(parts[2]))
		if err != nil {
			return collErr(err)
		}
		return "unit"
	case "m":
		name, ok := methods[parts[1]]
		if !ok {
			name = methods["bad"]
		}
		args := []r.Element{}
		for _, a := range parts[2:] {
			args = append(args, collParseArg(a))
		}
		v, err := recv.ExecMethod(name, args)
		return collResult(v, err, recv)
	case "r":
		iv := collIV(recv, collParseElem(parts[1]))
		v, err := iv.ReduceRHS()
		return collResult(v, err, recv)
	case "w":
		iv := collIV(recv, collParseElem(parts[1]))
		err := iv.ReduceLHS(collParseElem(parts[2]))
		if err != nil {
			return collErr(err)
		}
		return "unit"
	}
	return "badtoken"
}

// plants a keyOrder slice (possibly with duplicate keys, with spare capacity) into a real HashMap
func collPlantKeyOrder(hm *value.HashMap, keys []string, extra int) {
	f := reflect.ValueOf(hm).Elem().FieldByName("keyOrder")
	if !f.IsValid() {
		panic("HashMap has no field keyOrder")
	}
	s := make([]string, len(keys), len(keys)+extra)
	copy(s, keys)
	reflect.NewAt(f.Type(), unsafe.Pointer(f.UnsafeAddr())).Elem().Set(reflect.ValueOf(s))
}

func opColl(f []string) string {
	if len(f) < 2 {
		return "badline"
	}
	var sb strings.Builder
	switch f[0] {
	case "L", "D":
		dict := f[0] == "D"
		var recv r.Element
		if dict {
			pairs := []value.KVPair{}
			if f[1] != "-" {
				for _, p := range strings.Split(f[1], ",") {
					kv := strings.SplitN(p, "=", 2)
					pairs = append(pairs, value.KVPair{Key: collKey(kv[0]), Value: collParseElem(kv[1])})
				}
			}
			recv = value.NewHashMap(pairs)
		} else {
			recv = value.NewArray(collParseElems(f[1]))
		}
		sb.WriteString("ok " + collObs(recv, dict))
		for _, tok := range f[2:] {
			res := collStep(recv, dict, tok)
			if res == "panic" {
				sb.WriteString(" panic")
				break
			}
			sb.WriteString(" " + res + "|" + collObs(recv, dict))
		}
		return sb.String()
	case "R":
		extra, _ := strconv.Atoi(f[1])
		keys := []string{}
		if f[2] != "-" {
			for _, k := range strings.Split(f[2], ",") {
				keys = append(keys, collKey(k))
			}
		}
		pairs := []value.KVPair{}
		seen := map[string]bool{}
		for i, k := range keys {
			if !seen[k] {
				seen[k] = true
				pairs = append(pairs, value.KVPair{Key: k, Value: value.NewNumber(float64(i))})
			}
		}
		hm := value.NewHashMap(pairs)
		collPlantKeyOrder(hm, keys, extra)
		v, err := hm.ExecMethod("移除", []r.Element{value.NewString(collKey(f[3]))})
		ko := []string{}
		for _, k := range hm.GetKeyOrder() {
			ko = append(ko, "k"+hex.EncodeToString([]byte(k)))
		}
		kf := "-"
		if len(ko) > 0 {
			kf = strings.Join(ko, ",")
		}
		return "ok " + collResult(v, err, hm) + "|" + kf + ";" + strconv.Itoa(len(hm.GetValue()))
	}
	return "badline"
}
