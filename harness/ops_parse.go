package main

// Parser-level ops (C03, C05):
//   tokens <cps>    every call of zh.NextToken until EOF / error, with the size of the Lines table right after the call,
//                   then the final Lines table — the script the driver op `parse-tokens` replays as its lexer
//   compile <cps>   Parser.Compile, and for an error what exec.DisplayError(exec.WrapSyntaxError(parser, "主模块", err)) prints

import (
	"fmt"
	"strings"

	zerr "github.com/DemoHn/Zn/pkg/error"
	"github.com/DemoHn/Zn/pkg/exec"
	"github.com/DemoHn/Zn/pkg/syntax"
	"github.com/DemoHn/Zn/pkg/syntax/zh"
)

func init() {
	register("tokens", opTokens)
	register("compile", opCompile)
	register("runafter", opRunAfter)
}

// tokens <cps>  →  ok (T:<type>:<start>:<end>:<literal>:<nlines> | E:<code>:<cursor>)* | (L:<indents>:<start>)*
func opTokens(f []string) string {
	src := parseCps(f[0])
	l := syntax.NewLexer(src)
	var sb strings.Builder
	n := 0
	for {
		tk, err := zh.NextToken(l)
		if err != nil {
			if se, ok := err.(*zerr.SyntaxError); ok {
				fmt.Fprintf(&sb, " E:%d:%d", se.Code, se.Cursor)
			} else {
				sb.WriteString(" E:0:0")
			}
			break
		}
		fmt.Fprintf(&sb, " T:%d:%d:%d:%s:%d", tk.Type, tk.StartIdx, tk.EndIdx, cpField(tk.Literal), len(l.Lines))
		if tk.Type == zh.TypeEOF {
			break
		}
		n++
		if n > 4*len(src)+16 {
			return "nonterminating"
		}
	}
	sb.WriteString(" |")
	for _, ln := range l.Lines {
		fmt.Fprintf(&sb, " L:%d:%d", ln.Indents, ln.StartIdx)
	}
	return "ok" + sb.String()
}

// displayInfo: `disp ok <lineNo> <quoted line cps> <caret col>` | `disp ok - - -` (no source line shown) | `disp panic`
func displayInfo(p *syntax.Parser, err error) (res string) {
	defer func() {
		if r := recover(); r != nil {
			res = "disp panic"
		}
	}()
	text := exec.DisplayError(exec.WrapSyntaxError(p, "主模块", err))
	lines := strings.Split(text, "\n")
	m := reHead.FindStringSubmatch(lines[0])
	if m == nil || m[1] == "" || len(lines) < 3 {
		return "disp ok - - -"
	}
	if !strings.HasPrefix(lines[1], "    ") || !strings.HasPrefix(lines[2], "    ") || !strings.HasSuffix(lines[2], "^") {
		return "disp malformed"
	}
	quoted := []rune(lines[1][4:])
	caret := len(lines[2]) - 4 - 1
	if strings.Trim(lines[2], " ") != "^" {
		return "disp malformed"
	}
	return fmt.Sprintf("disp ok %s %s %d", m[1], cpField(quoted), caret)
}

// compile <cps>  →  ok <tree>  |  err syn <code> <cursor> | <display info>  |  err other 0 | <display info>
func opCompile(f []string) string {
	src := parseCps(f[0])
	p := syntax.NewParser(src, zh.NewParserZH())
	prog, err := p.Compile()
	if err != nil {
		return errField(err) + " | " + displayInfo(p, err)
	}
	return "ok " + dumpProgram(prog)
}

// runafter <a-cps> <b-cps>  →  the outcome of program b run on an Interpreter object that has run program a before
// (whatever a was: valid, rejected, longer, shorter) — compiling b is a function of b's text alone
func opRunAfter(f []string) string {
	it := exec.NewInterpreter("verif").SetExternalLibs(stdLibs())
	func() {
		defer func() {
			if r := recover(); r != nil {
				restoreStdout()
			}
		}()
		captureStdout()
		it.LoadScript(parseCps(f[0])).Execute(nil)
		finishCapture()
	}()
	captureStdout()
	res, err := it.LoadScript(parseCps(f[1])).Execute(nil)
	tr := finishCapture()
	if err != nil {
		return canonErr(err) + " | " + traceField(tr)
	}
	return "ok " + canon(res, 0) + " | " + traceField(tr)
}
