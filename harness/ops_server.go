//go:build znserver

package main

// C16 / C11 — the real request handlers and the real server type of pkg/server (needs the verif-tagged Linux pipe file, like
// `httpreq`; without it the ops answer `bad-op`, which the check modules report as "unavailable").
//
// A *step* is one HTTP request for one handler:      <kind>:<entry-hex|->:<descriptor-hex>
//     kind   pg     server.NewZnPlaygroundHandler(shared)                 (entry is `-`)
//            pgT    the same, but the declared Content-Length exceeds the body that arrives (io.ReadAll fails)
//            http   server.NewZnHttpHandler(shared, <dir>/入口.zn) — the entry file holds the program `entry` (UTF-8, hex)
//            httpT  the same with a body that ends early;   httpN  the same with req.Body == nil (a handler called directly)
//     descriptor   "METHOD target\nName: value\n…\n\nbody"  (UTF-8, hex) — turned into wire format, read back by
//                  http.ReadRequest and answered into a response recorder, the way a connection of net/http would
// Every handler of one op line shares ONE *exec.Interpreter, as cmd/zinc-server and cmd/zinc-playground do.
//
//   hseq <n> <step>*n                → <resp₁> ;; … ;; <respₙ>        the steps one after the other in this process
//   hrep <N> <step>                  → rep <distinct> <resp> [## <resp₂>]   the same step N times (C11)
//   srv  <tcp|unix> <clients> <reps> <n> (<step> <want-hex>)*n
//        starts server.NewZnThreadServer() through Interpreter.SetMainServer(…).Listen(url) exactly as cmd/zinc-server does
//        (tcp: a loopback port the OS has just handed out; unix: a socket in a private directory), then <clients> goroutines
//        send <reps> requests each over real connections, each request with its OWN expected answer
//        → ok <requests> nohandler=<err|ok> badscheme=<err|ok> badurl=<err|ok> inuse=<err|ok>  (Start's four refusals)   |   mismatch req=<i> got=<…> want=<…> (<k> of <total>)
//   hfresh <n> <step>*n              → <resp₁> ;; … ;; <respₙ>        every step alone in a brand-new process (the oracle of hseq)
//   hsolo  <n> <step>*n              → <resp₁> ;; … ;; <respₙ>        every step on a new interpreter + new handlers, in this process
//   resp:  <status> [<name-hex>=<value-hex>,…] <body-hex> | <displayed lines>      (srv: `<status> <content-type-hex> <body-hex>`)

import (
	"bufio"
	"bytes"
	"context"
	"fmt"
	"io"
	"log"
	"net"
	"net/http"
	"net/http/httptest"
	"os"
	osexec "os/exec"
	"path/filepath"
	"sort"
	"strconv"
	"strings"
	"sync"
	"time"

	"github.com/DemoHn/Zn/pkg/exec"
	"github.com/DemoHn/Zn/pkg/server"
)

func init() {
	register("hseq", opHSeq)
	register("hrep", opHRep)
	register("srv", opSrv)
	register("hfresh", opHFresh)
	register("hsolo", opHSolo)
}

// hsolo <n> <step>*n  →  <resp₁> ;; … : every step as the first request of a NEW interpreter + NEW handlers, all in this process
func opHSolo(f []string) string {
	n, _ := strconv.Atoi(f[0])
	outs := make([]string, 0, n)
	for i := 0; i < n; i++ {
		hs := newHandlerSet()
		outs = append(outs, hs.serveStep(parseStep(f[1+i])))
		hs.close()
	}
	return strings.Join(outs, " ;; ")
}

// hfresh <n> <step>*n  →  <resp₁> ;; … : every step as the ONLY request of a brand-new process of this binary (`hseq 1 <step>`)
func opHFresh(f []string) string {
	n, _ := strconv.Atoi(f[0])
	outs := make([]string, n)
	var wg sync.WaitGroup
	sem := make(chan struct{}, 6)
	for i := 0; i < n; i++ {
		wg.Add(1)
		go func(i int) {
			defer wg.Done()
			sem <- struct{}{}
			defer func() { <-sem }()
			cmd := osexec.Command(os.Args[0])
			cmd.Stdin = strings.NewReader("hseq 1 " + f[1+i] + "\n")
			var out bytes.Buffer
			cmd.Stdout = &out
			if err := cmd.Run(); err != nil {
				outs[i] = "fresh-failed"
				return
			}
			outs[i] = strings.TrimRight(out.String(), "\n")
		}(i)
	}
	wg.Wait()
	return strings.Join(outs, " ;; ")
}

type step struct {
	kind    string
	entry   string
	method  string
	target  string
	headers [][2]string
	body    string
}

func parseStep(s string) step {
	p := strings.SplitN(s, ":", 3)
	if len(p) != 3 {
		panic("bad step")
	}
	st := step{kind: p[0], entry: unhex(p[1])}
	desc := unhex(p[2])
	head, body, _ := strings.Cut(desc, "\n\n")
	st.body = body
	lines := strings.Split(head, "\n")
	st.method, st.target, _ = strings.Cut(lines[0], " ")
	for _, l := range lines[1:] {
		k, v, _ := strings.Cut(l, ": ")
		st.headers = append(st.headers, [2]string{k, v})
	}
	return st
}

// handlerSet: one shared interpreter, the playground handler, and one ZnHttpHandler (its entry file is rewritten before a
// step whose program differs: LoadFile reads the file when the request executes)
type handlerSet struct {
	interp *exec.Interpreter
	pg     http.Handler
	web    http.Handler
	dir    string
	entry  string
	cur    string
	hasCur bool
}

func newHandlerSet() *handlerSet {
	hs := &handlerSet{dir: "<no-dir>"}
	hs.interp = exec.NewInterpreter("verif").SetExternalLibs(stdLibs())
	hs.pg = server.NewZnPlaygroundHandler(hs.interp)
	return hs
}

// needDir: the private directory (entry file, unix socket) is made when first needed
func (hs *handlerSet) needDir() {
	if hs.web != nil {
		return
	}
	dir, err := os.MkdirTemp("", "znh-srv-")
	if err != nil {
		panic(err)
	}
	hs.dir, hs.entry = dir, filepath.Join(dir, "入口.zn")
	hs.web = server.NewZnHttpHandler(hs.interp, hs.entry)
}

func (hs *handlerSet) close() {
	if hs.web != nil {
		os.RemoveAll(hs.dir)
	}
}

func (hs *handlerSet) handlerFor(st step) http.Handler {
	if strings.HasPrefix(st.kind, "pg") {
		return hs.pg
	}
	hs.needDir()
	if !hs.hasCur || hs.cur != st.entry {
		if err := os.WriteFile(hs.entry, []byte(st.entry), 0o644); err != nil {
			panic(err)
		}
		hs.cur, hs.hasCur = st.entry, true
	}
	return hs.web
}

func (st step) request() *http.Request {
	var raw bytes.Buffer
	fmt.Fprintf(&raw, "%s %s HTTP/1.1\r\nHost: verif.invalid\r\n", st.method, st.target)
	for _, h := range st.headers {
		fmt.Fprintf(&raw, "%s: %s\r\n", h[0], h[1])
	}
	n := len(st.body)
	if strings.HasSuffix(st.kind, "T") {
		n += 7
	}
	fmt.Fprintf(&raw, "Content-Length: %d\r\n\r\n%s", n, st.body)
	req, err := http.ReadRequest(bufio.NewReader(bytes.NewReader(raw.Bytes())))
	if err != nil {
		panic("badreq " + err.Error())
	}
	if strings.HasSuffix(st.kind, "N") {
		req.Body = nil
	}
	return req
}

func canonHeaders(h http.Header) string {
	var names []string
	for k := range h {
		names = append(names, k)
	}
	sort.Strings(names)
	var hs []string
	for _, k := range names {
		for _, v := range h[k] {
			hs = append(hs, hexs(k)+"="+hexs(v))
		}
	}
	return "[" + strings.Join(hs, ",") + "]"
}

// serveStep: one request through its handler; a panic of the handler is the answer `panic` for this request only (net/http
// recovers a handler's panic per connection; what a panic means for C10 is not this op's business)
func (hs *handlerSet) serveStep(st step) (res string) {
	defer func() {
		if r := recover(); r != nil {
			restoreStdout()
			res = "panic"
			if os.Getenv("ZNH_DEBUG") != "" {
				res = fmt.Sprintf("panic %v", r)
			}
		}
	}()
	h := hs.handlerFor(st)
	req := st.request()
	rec := httptest.NewRecorder()
	captureStdout()
	h.ServeHTTP(rec, req)
	tr := finishCapture()
	body := strings.ReplaceAll(rec.Body.String(), hs.dir, "<dir>")
	return fmt.Sprintf("%d %s %s | %s", rec.Code, canonHeaders(rec.Header()), hexs(body), traceField(tr))
}

func opHSeq(f []string) string {
	n, _ := strconv.Atoi(f[0])
	hs := newHandlerSet()
	defer hs.close()
	outs := make([]string, 0, n)
	for i := 0; i < n; i++ {
		outs = append(outs, hs.serveStep(parseStep(f[1+i])))
	}
	return strings.Join(outs, " ;; ")
}

func opHRep(f []string) string {
	n, _ := strconv.Atoi(f[0])
	st := parseStep(f[1])
	hs := newHandlerSet()
	defer hs.close()
	set := newOutcomeSet()
	for i := 0; i < n; i++ {
		set.add(hs.serveStep(st), "")
	}
	return set.answer()
}

// ---- the real server type, real connections ----------------------------------------------------------------------

func freeLoopbackPort() int {
	l, err := net.Listen("tcp", "127.0.0.1:0")
	if err != nil {
		panic(err)
	}
	defer l.Close()
	return l.Addr().(*net.TCPAddr).Port
}

func errWord(err error) string {
	if err != nil {
		return "err"
	}
	return "ok"
}

func opSrv(f []string) string {
	transport := f[0]
	clients, _ := strconv.Atoi(f[1])
	reps, _ := strconv.Atoi(f[2])
	n, _ := strconv.Atoi(f[3])
	steps := make([]step, n)
	wants := make([]string, n)
	for i := 0; i < n; i++ {
		steps[i] = parseStep(f[4+2*i])
		wants[i] = unhex(f[5+2*i])
	}
	log.SetOutput(io.Discard) // Start announces its address through the log package
	hs := newHandlerSet()
	defer hs.close()
	hs.needDir()
	handler := hs.handlerFor(steps[0])

	// the two refusals of Start
	noHandler := server.NewZnThreadServer().Start("tcp://127.0.0.1:0")
	probe := server.NewZnThreadServer()
	probe.SetHandler(handler)
	badScheme := probe.Start("ftp://127.0.0.1:0")
	badURL := probe.Start("tcp://127.0.0.1:%zz")
	taken, err := net.Listen("tcp", "127.0.0.1:0")
	if err != nil {
		panic(err)
	}
	inUse := probe.Start("tcp://" + taken.Addr().String())
	taken.Close()

	// start the server the way cmd/zinc-server does; a port that was taken in the meantime → another one
	var network, address string
	started := false
	for attempt := 0; attempt < 6 && !started; attempt++ {
		var url string
		if transport == "unix" {
			network, address = "unix", filepath.Join(hs.dir, fmt.Sprintf("s%d.sock", attempt))
			url = "unix://" + address
		} else {
			network, address = "tcp", fmt.Sprintf("127.0.0.1:%d", freeLoopbackPort())
			url = "tcp://" + address
		}
		failed := make(chan error, 1)
		hs.interp.SetMainServer(server.NewZnThreadServer(), handler)
		go func() { failed <- hs.interp.Listen(url) }()
		deadline := time.Now().Add(5 * time.Second)
		for time.Now().Before(deadline) && !started {
			select {
			case <-failed:
				deadline = time.Now() // Listen returned: it could not serve on this address
			default:
				c, err := net.DialTimeout(network, address, 200*time.Millisecond)
				if err == nil {
					c.Close()
					started = true
				} else {
					time.Sleep(5 * time.Millisecond)
				}
			}
		}
	}
	if !started {
		return "server-did-not-start"
	}

	var wg sync.WaitGroup
	var mu sync.Mutex
	bad, nbad, total := "", 0, 0
	for c := 0; c < clients; c++ {
		wg.Add(1)
		go func(c int) {
			defer wg.Done()
			tr := &http.Transport{
				DialContext: func(ctx context.Context, _, _ string) (net.Conn, error) {
					return (&net.Dialer{Timeout: 5 * time.Second}).DialContext(ctx, network, address)
				},
				DisableKeepAlives: c%3 == 2, // every third client opens a connection per request
			}
			defer tr.CloseIdleConnections()
			client := &http.Client{Transport: tr, Timeout: 30 * time.Second}
			for r := 0; r < reps; r++ {
				i := (c*7 + r*(2*c+1)) % n // every client walks the requests with a stride of its own
				st := steps[i]
				got := ""
				req, err := http.NewRequest(st.method, "http://verif.invalid"+st.target, strings.NewReader(st.body))
				if err != nil {
					got = "badreq"
				} else {
					for _, h := range st.headers {
						req.Header.Add(h[0], h[1])
					}
					resp, err := client.Do(req)
					if err != nil {
						got = "transport-error"
						if os.Getenv("ZNH_DEBUG") != "" {
							got += " " + err.Error()
						}
					} else {
						b, _ := io.ReadAll(resp.Body)
						resp.Body.Close()
						body := strings.ReplaceAll(string(b), hs.dir, "<dir>")
						got = fmt.Sprintf("%d %s %s", resp.StatusCode, hexs(resp.Header.Get("Content-Type")), hexs(body))
					}
				}
				mu.Lock()
				total++
				if got != wants[i] {
					nbad++
					if bad == "" {
						bad = fmt.Sprintf("mismatch req=%d got=%s want=%s", i, strings.ReplaceAll(got, " ", "_"), strings.ReplaceAll(wants[i], " ", "_"))
					}
				}
				mu.Unlock()
			}
		}(c)
	}
	wg.Wait()
	if bad != "" {
		return fmt.Sprintf("%s (%d of %d)", bad, nbad, total)
	}
	return fmt.Sprintf("ok %d nohandler=%s badscheme=%s badurl=%s inuse=%s", total, errWord(noHandler), errWord(badScheme), errWord(badURL), errWord(inUse))
}
