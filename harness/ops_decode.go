package main

// decode — C17: the real pkg/io decoders and the real LoadFile path on byte strings.
//
//   decode blocksize                       → ok <defaultReadBlock>
//   decode bs <hex>                        → NewByteStream(bytes).ReadAll()
//   decode bsn <n> <hex>                   → NewByteStream(bytes).Read(n) until the bytes are used up, plus one call at EOF
//   decode fs <eofWithLast 0|1> <hex|->*   → FileStream.ReadAll over a scripted reader: one Read call per field
//                                            (a field longer than the buffer is handed out in pieces); with 1 the
//                                            last field is returned together with io.EOF
//   decode fsb <n> <hex>                   → FileStream.ReadAll over a reader that returns at most n bytes per call
//   decode file <hex>                      → NewFileStream(temp file).ReadAll()
//   decode e2e <hex>                       → NewInterpreter.LoadFile(temp file).Execute(nil), 显示 captured
//   decode runsrc <cps>                    → NewInterpreter.LoadScript(runes).Execute(nil), 显示 captured
//
// answers: ok <cps> | err io <code>            (decoders)
//          ok|err <class> <code> '|' <hex of what was displayed>     (e2e, runsrc)

import (
	"encoding/hex"
	"fmt"
	"io"
	"os"
	"path/filepath"
	"regexp"
	"strconv"
	"time"

	zerr "github.com/DemoHn/Zn/pkg/error"
	"github.com/DemoHn/Zn/pkg/exec"
	zio "github.com/DemoHn/Zn/pkg/io"
)

func init() {
	register("decode", opDecode)
}

// scriptedReader returns one scripted chunk per Read call (never more than len(p) bytes of it)
type scriptedReader struct {
	chunks      [][]byte
	eofWithLast bool
	maxPerRead  int // 0 = unlimited
}

func (s *scriptedReader) Read(p []byte) (int, error) {
	if len(s.chunks) == 0 {
		return 0, io.EOF
	}
	c := s.chunks[0]
	lim := len(p)
	if s.maxPerRead > 0 && s.maxPerRead < lim {
		lim = s.maxPerRead
	}
	if len(c) > lim {
		n := copy(p, c[:lim])
		s.chunks[0] = c[n:]
		return n, nil
	}
	n := copy(p, c)
	s.chunks = s.chunks[1:]
	if len(s.chunks) == 0 && s.eofWithLast {
		return n, io.EOF
	}
	return n, nil
}

func decBytes(s string) []byte {
	if s == "-" {
		return []byte{}
	}
	b, err := hex.DecodeString(s)
	if err != nil {
		panic("bad hex field")
	}
	return b
}

func decResult(rs []rune, err error) string {
	if err != nil {
		return errField(err)
	}
	return "ok " + cpField(rs)
}

var decCodeRe = regexp.MustCompile(`\[(\d+)\]：`)

func decErrClass(err error) string {
	code := "0"
	if m := decCodeRe.FindStringSubmatch(err.Error()); m != nil {
		code = m[1]
	}
	switch e := err.(type) {
	case *zerr.IOError:
		return fmt.Sprintf("err io %d", e.Code)
	case *exec.SyntaxErrorWrapper:
		return "err syntax " + code
	case *exec.RuntimeErrorWrapper:
		return "err runtime " + code
	}
	return "err other " + code
}

func decExecute(z *exec.Interpreter) string {
	captureStdout()
	_, err := z.Execute(nil)
	shown := finishCapture()
	res := "ok"
	if err != nil {
		res = decErrClass(err)
	}
	return res + " | " + hexs(string(shown))
}

// withTempFile writes data to a file in a private temp dir, runs f, removes the dir.
// If f does not come back (a program that never terminates) the dir is removed all the same and the op
// blocks, so that the harness watchdog answers `timeout` and the process is replaced.
func withTempFile(data []byte, f func(path string) string) string {
	dir, err := os.MkdirTemp("", "znverif-c17-")
	if err != nil {
		panic(err)
	}
	defer os.RemoveAll(dir)
	path := filepath.Join(dir, "main.zn")
	if err := os.WriteFile(path, data, 0600); err != nil {
		panic(err)
	}
	type result struct {
		s string
		p interface{}
	}
	done := make(chan result, 1)
	go func() {
		defer func() {
			if r := recover(); r != nil {
				done <- result{p: r}
			}
		}()
		done <- result{s: f(path)}
	}()
	limit := 3 * time.Second
	if v := os.Getenv("ZNH_TIMEOUT_MS"); v != "" {
		if ms, err := strconv.Atoi(v); err == nil && ms > 1000 {
			limit = time.Duration(ms-500) * time.Millisecond
		}
	}
	select {
	case r := <-done:
		if r.p != nil {
			panic(r.p)
		}
		return r.s
	case <-time.After(limit):
		os.RemoveAll(dir)
		select {}
	}
}

func opDecode(f []string) string {
	switch f[0] {
	case "blocksize":
		return "ok " + strconv.Itoa(zio.DefaultReadBlock)
	case "bs":
		return decResult(zio.NewByteStream(decBytes(f[1])).ReadAll())
	case "bsn":
		n, _ := strconv.Atoi(f[1])
		b := decBytes(f[2])
		s := zio.NewByteStream(b)
		all := []rune{}
		calls := 1
		if n > 0 {
			calls = (len(b)+n-1)/n + 1
		}
		for i := 0; i < calls; i++ {
			rs, err := s.Read(n)
			if err != nil {
				return errField(err)
			}
			all = append(all, rs...)
		}
		return "ok " + cpField(all)
	case "fs":
		sr := &scriptedReader{eofWithLast: f[1] == "1"}
		for _, c := range f[2:] {
			sr.chunks = append(sr.chunks, decBytes(c))
		}
		return decResult(zio.NewFileStreamFromReader(sr).ReadAll())
	case "fsb":
		n, _ := strconv.Atoi(f[1])
		sr := &scriptedReader{chunks: [][]byte{decBytes(f[2])}, maxPerRead: n}
		return decResult(zio.NewFileStreamFromReader(sr).ReadAll())
	case "file":
		return withTempFile(decBytes(f[1]), func(path string) string {
			s, err := zio.NewFileStream(path)
			if err != nil {
				return errField(err)
			}
			return decResult(s.ReadAll())
		})
	case "e2e":
		return withTempFile(decBytes(f[1]), func(path string) string {
			// the file is loaded and run twice in this process (a server does so for every request): what the bytes decode to
			// is the same the second time
			first := decExecute(exec.NewInterpreter("v").LoadFile(path))
			if again := decExecute(exec.NewInterpreter("v").LoadFile(path)); again != first {
				return first + " SECOND-LOAD-DIFFERS " + again
			}
			return first
		})
	case "runsrc":
		return decExecute(exec.NewInterpreter("v").LoadScript(parseCps(f[1])))
	}
	return "bad-op"
}
