// C05 / C10: the two input-variable entry points of pkg/exec/exec_varinput.go, with the display trace.
//
//   vitext vi <hex of the text's BYTES>              exec.ExecVarInputText(text)              (any bytes: also invalid UTF-8)
//   vitext ei (<name-hex> <text-hex>)*               exec.ExecExpressionInputText(map): one VM for all entries, sorted key order
//
//   answers:  ok {<hex name>=<canonical value>,…} | <trace>        err <class> <code> | <trace>
//
// (`value - vi …` / `value - ei …` of ops_value.go answer the same without the trace; `varinput` / `exprin` of ops_varinput.go take code
// points and answer without trace.  The model side is lean/ZnVerif/Ops/VarInputText.lean.)
package main

import (
	"github.com/DemoHn/Zn/pkg/exec"
	r "github.com/DemoHn/Zn/pkg/runtime"
)

func init() {
	register("vitext", opViText)
}

func opViText(f []string) string {
	if len(f) < 1 {
		return "bad-case"
	}
	var m r.ElementMap
	var err error
	switch f[0] {
	case "vi":
		if len(f) != 2 {
			return "bad-case"
		}
		text := unhex(f[1])
		captureStdout()
		m, err = exec.ExecVarInputText(text)
	case "ei":
		if len(f)%2 != 1 {
			return "bad-case"
		}
		in := map[string]string{}
		for j := 1; j+1 < len(f); j += 2 {
			in[unhex(f[j])] = unhex(f[j+1])
		}
		captureStdout()
		m, err = exec.ExecExpressionInputText(in)
	default:
		return "bad-case"
	}
	tr := finishCapture()
	if err != nil {
		return valErr(err) + " | " + traceField(tr)
	}
	return "ok " + canonMap(m) + " | " + traceField(tr)
}
