package main

// C14 — ops `fmt` (template % list through the real evaluator) and `text` (text getters/methods).
//
//   fmt <template-cps> <arg>*          → ok <cps> | okbytes <hex> | err <class> <code>
//       arg:  s<cps> text | n<16 hex bits> number | b0/b1 | z null | x value without display form
//             a<item>,<item>… list of scalar items | h<keycps>=<item>,… dictionary
//       The template and the list are passed as the inputs T and L of the program `输入T、L ⏎ 输出T % L`,
//       evaluated by exec.EvalMainModule (what Interpreter.Execute calls) so that the error comes back unwrapped.
//   mod <l> <r>                        → the `%` dispatch on two arbitrary operands (same fields as fmt's args)
//   text len   <t>                     → ok <n>
//   text chars <t>                     → ok <n> <piece>*
//   text slice <t> <i4> <j4>           → ok <cps> | okbytes <hex> | err …      (indices are the doubles i4/4, j4/4)
//   text split <t> <sep>               → ok <n> <piece>*
//   textrun <which> <t> <i4> <j4>      → same observables through a program (member/method dispatch of the evaluator)

import (
	"fmt"
	"math"
	"strconv"
	"strings"
	"unicode/utf8"

	zerr "github.com/DemoHn/Zn/pkg/error"
	"github.com/DemoHn/Zn/pkg/exec"
	r "github.com/DemoHn/Zn/pkg/runtime"
	"github.com/DemoHn/Zn/pkg/syntax"
	"github.com/DemoHn/Zn/pkg/syntax/zh"
	"github.com/DemoHn/Zn/pkg/value"
)

func init() {
	register("fmt", opFmt)
	register("mod", opMod)
	register("text", opText)
	register("textrun", opTextRun)
	register("texthist", opTextHist)
}

func textField(s string) string {
	if !utf8.ValidString(s) {
		return "okbytes " + hexs(s)
	}
	return "ok " + cpField([]rune(s))
}

func pieceField(s string) string {
	if !utf8.ValidString(s) {
		return "bytes:" + hexs(s)
	}
	return cpField([]rune(s))
}

func scalarArg(a string) r.Element {
	switch a[0] {
	case 's':
		return value.NewString(string(parseCps(a[1:])))
	case 'n':
		if a[1:] == "nan" {
			return value.NewNumber(math.NaN())
		}
		u, err := strconv.ParseUint(a[1:], 16, 64)
		if err != nil {
			panic("bad number field")
		}
		return value.NewNumber(math.Float64frombits(u))
	case 'b':
		return value.NewBool(a[1:] == "1")
	case 'z':
		return value.NewNull()
	case 'x':
		return value.NewException("x")
	}
	panic("bad arg field " + a)
}

func fmtArg(a string) r.Element {
	switch a[0] {
	case 'a':
		items := []r.Element{}
		if len(a) > 1 {
			for _, it := range strings.Split(a[1:], ",") {
				items = append(items, scalarArg(it))
			}
		}
		return value.NewArray(items)
	case 'h':
		kv := []value.KVPair{}
		if len(a) > 1 {
			for _, it := range strings.Split(a[1:], ",") {
				p := strings.SplitN(it, "=", 2)
				kv = append(kv, value.KVPair{Key: string(parseCps(p[0])), Value: scalarArg(p[1])})
			}
		}
		return value.NewHashMap(kv)
	}
	return scalarArg(a)
}

func runProgram(src string, inputs r.ElementMap) (r.Element, error) {
	p := syntax.NewParser([]rune(src), zh.NewParserZH())
	program, err := p.Compile()
	if err != nil {
		return nil, err
	}
	vm := r.InitVM(exec.GlobalValues)
	return exec.EvalMainModule(vm, program, inputs)
}

func opFmt(f []string) string {
	tpl := value.NewString(string(parseCps(f[0])))
	items := []r.Element{}
	for _, a := range f[1:] {
		items = append(items, fmtArg(a))
	}
	res, err := runProgram("输入T、L\n输出T % L", r.ElementMap{"T": tpl, "L": value.NewArray(items)})
	if err != nil {
		return errField(err)
	}
	s, ok := res.(*value.String)
	if !ok {
		return fmt.Sprintf("ok? %T", res)
	}
	return textField(s.GetValue())
}

// mod <l> <r>  →  arith (number % number, whatever its value or zero-divisor error) | result of text % list | err …
func opMod(f []string) string {
	res, err := runProgram("输入A、B\n输出A % B", r.ElementMap{"A": fmtArg(f[0]), "B": fmtArg(f[1])})
	if f[0][0] == 'n' && f[1][0] == 'n' {
		if err != nil {
			if e, ok := err.(*zerr.RuntimeError); ok && e.Code == zerr.ErrArithDivZero {
				return "arith"
			}
			return errField(err)
		}
		if _, ok := res.(*value.Number); ok {
			return "arith"
		}
		return fmt.Sprintf("ok? %T", res)
	}
	if err != nil {
		return errField(err)
	}
	s, ok := res.(*value.String)
	if !ok {
		return fmt.Sprintf("ok? %T", res)
	}
	return textField(s.GetValue())
}

func listField(e r.Element) string {
	arr, ok := e.(*value.Array)
	if !ok {
		return fmt.Sprintf("ok? %T", e)
	}
	var sb strings.Builder
	fmt.Fprintf(&sb, "ok %d", len(arr.GetValue()))
	for _, it := range arr.GetValue() {
		s, ok := it.(*value.String)
		if !ok {
			sb.WriteString(" ?")
			continue
		}
		sb.WriteByte(' ')
		sb.WriteString(pieceField(s.GetValue()))
	}
	return sb.String()
}

func numField(e r.Element) string {
	n, ok := e.(*value.Number)
	if !ok {
		return fmt.Sprintf("ok? %T", e)
	}
	v := n.GetValue()
	if v == math.Trunc(v) && math.Abs(v) < 1e15 {
		return fmt.Sprintf("ok %d", int64(v))
	}
	return "ok " + numBits(v)
}

func quarter(s string) float64 {
	q, err := strconv.ParseInt(s, 10, 64)
	if err != nil {
		panic("bad index field")
	}
	return float64(q) / 4
}

func strField(e r.Element) string {
	s, ok := e.(*value.String)
	if !ok {
		return fmt.Sprintf("ok? %T", e)
	}
	return textField(s.GetValue())
}

func opText(f []string) string {
	t := value.NewString(string(parseCps(f[1])))
	switch f[0] {
	case "len":
		e, err := t.GetProperty("长度")
		if err != nil {
			return errField(err)
		}
		return numField(e)
	case "chars":
		e, err := t.GetProperty("字符组")
		if err != nil {
			return errField(err)
		}
		return listField(e)
	case "slice":
		e, err := t.ExecMethod("取样", []r.Element{value.NewNumber(quarter(f[2])), value.NewNumber(quarter(f[3]))})
		if err != nil {
			return errField(err)
		}
		return strField(e)
	case "split":
		e, err := t.ExecMethod("分隔", []r.Element{value.NewString(string(parseCps(f[2])))})
		if err != nil {
			return errField(err)
		}
		return listField(e)
	}
	return "bad-op"
}

// the same observables through one-line programs: 输出T之长度 / 输出T之字符组 / 输出以T（取样：I、J） / 输出以T（分隔：S）
func opTextRun(f []string) string {
	t := value.NewString(string(parseCps(f[1])))
	switch f[0] {
	case "len":
		e, err := runProgram("输入T\n输出T之长度", r.ElementMap{"T": t})
		if err != nil {
			return errField(err)
		}
		return numField(e)
	case "chars":
		e, err := runProgram("输入T\n输出T之字符组", r.ElementMap{"T": t})
		if err != nil {
			return errField(err)
		}
		return listField(e)
	case "slice":
		e, err := runProgram("输入T、I、J\n输出以T（取样：I、J）", r.ElementMap{"T": t,
			"I": value.NewNumber(quarter(f[2])), "J": value.NewNumber(quarter(f[3]))})
		if err != nil {
			return errField(err)
		}
		return strField(e)
	case "split":
		e, err := runProgram("输入T、S\n输出以T（分隔：S）", r.ElementMap{"T": t, "S": value.NewString(string(parseCps(f[2])))})
		if err != nil {
			return errField(err)
		}
		return listField(e)
	}
	return "bad-op"
}

// texthist <t> <i4> <j4> <steps>   one text VALUE observed over a history: steps is a word over
//   l (长度)  c (字符组)  s (取样 i j)  v (the text itself)  n (转换数值 — which rewrites *^ / *10^ in the receiver)
// every step goes through the evaluator on the SAME value; fields are joined by " | ".
func opTextHist(f []string) string {
	t := value.NewString(string(parseCps(f[0])))
	out := []string{}
	for _, st := range f[3] {
		switch st {
		case 'l':
			e, err := runProgram("输入T\n输出T之长度", r.ElementMap{"T": t})
			if err != nil {
				out = append(out, errField(err))
			} else {
				out = append(out, numField(e))
			}
		case 'c':
			e, err := runProgram("输入T\n输出T之字符组", r.ElementMap{"T": t})
			if err != nil {
				out = append(out, errField(err))
			} else {
				out = append(out, listField(e))
			}
		case 's':
			e, err := runProgram("输入T、I、J\n输出以T（取样：I、J）", r.ElementMap{"T": t,
				"I": value.NewNumber(quarter(f[1])), "J": value.NewNumber(quarter(f[2]))})
			if err != nil {
				out = append(out, errField(err))
			} else {
				out = append(out, strField(e))
			}
		case 'v':
			e, err := runProgram("输入T\n输出T", r.ElementMap{"T": t})
			if err != nil {
				out = append(out, errField(err))
			} else {
				out = append(out, strField(e))
			}
		case 'n':
			// whether the text is a number is not this stream's business (strconv.ParseFloat is not modelled)
			_, _ = runProgram("输入T\n输出以T（转换数值）", r.ElementMap{"T": t})
			out = append(out, "n")
		default:
			return "bad-op"
		}
	}
	return strings.Join(out, " | ")
}
