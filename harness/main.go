// znharness: runs the real DemoHn/Zn code in-process, one operation per input line, one canonical
// answer line per operation (flushed per line).  Built with -tags verif against $ZN_REPO.
//
//   outcome classes: ok … | err … | panic | timeout
//
// A Go panic inside an op is recovered and answered `panic`; an op that exceeds the watchdog is
// answered `timeout` and the process exits with status 3 (the orchestrator restarts it at the next
// line); a fatal runtime error (stack overflow) kills the process, which the orchestrator sees as a
// missing answer for that line.
package main

import (
	"bufio"
	"encoding/hex"
	"fmt"
	"os"
	"strings"
	"time"
)

type opFunc func(fields []string) string

var ops = map[string]opFunc{}

func register(name string, f opFunc) { ops[name] = f }

var out *bufio.Writer

func unhex(s string) string {
	if s == "-" {
		return ""
	}
	b, err := hex.DecodeString(s)
	if err != nil {
		panic("bad hex field: " + s)
	}
	return string(b)
}

func hexs(s string) string {
	if s == "" {
		return "-"
	}
	return hex.EncodeToString([]byte(s))
}

func runOp(line string) (res string) {
	defer func() {
		if r := recover(); r != nil {
			restoreStdout()
			res = "panic"
			if os.Getenv("ZNH_DEBUG") != "" {
				res = fmt.Sprintf("panic %v", r)
			}
		}
	}()
	fields := strings.Fields(line)
	if len(fields) == 0 {
		return "skip"
	}
	f, ok := ops[fields[0]]
	if !ok {
		return "bad-op"
	}
	return f(fields[1:])
}

func main() {
	// keep the protocol channel on the original stdout; ops may swap os.Stdout to capture 显示
	protocol := os.NewFile(uintptr(dupFd(1)), "protocol")
	out = bufio.NewWriterSize(protocol, 1<<16)
	in := bufio.NewReaderSize(os.Stdin, 1<<20)
	timeout := 4 * time.Second
	if v := os.Getenv("ZNH_TIMEOUT_MS"); v != "" {
		var ms int
		fmt.Sscanf(v, "%d", &ms)
		timeout = time.Duration(ms) * time.Millisecond
	}
	if len(os.Args) > 1 && os.Args[1] == "--child-worker" {
		childWorkerMain()
		return
	}
	for {
		line, err := in.ReadString('\n')
		if len(line) > 0 {
			line = strings.TrimRight(line, "\r\n")
			done := make(chan string, 1)
			go func() { done <- runOp(line) }()
			select {
			case r := <-done:
				out.WriteString(r)
				out.WriteByte('\n')
				out.Flush()
			case <-time.After(timeout):
				out.WriteString("timeout\n")
				out.Flush()
				os.Exit(3)
			}
		}
		if err != nil {
			break
		}
	}
	out.Flush()
}
