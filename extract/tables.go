package main

import (
	"fmt"
	"go/ast"
	"go/token"
	"sort"
	"strconv"
	"strings"
)

// ---------------------------------------------------------------------------------------------
// constants

type constTab map[string]int64

func litValue(e ast.Expr) (int64, bool) {
	switch v := e.(type) {
	case *ast.BasicLit:
		switch v.Kind {
		case token.INT:
			n, err := strconv.ParseInt(v.Value, 0, 64)
			return n, err == nil
		case token.CHAR:
			s, err := strconv.Unquote(v.Value)
			if err != nil {
				return 0, false
			}
			r := []rune(s)
			if len(r) != 1 {
				return 0, false
			}
			return int64(r[0]), true
		}
	case *ast.ParenExpr:
		return litValue(v.X)
	}
	return 0, false
}

// collectConsts reads every `const ( Name T = lit )` of the files (also function-local const blocks).
func collectConsts(files ...*ast.File) constTab {
	t := constTab{}
	for _, f := range files {
		if f == nil {
			continue
		}
		ast.Inspect(f, func(n ast.Node) bool {
			gd, ok := n.(*ast.GenDecl)
			if !ok || gd.Tok != token.CONST {
				return true
			}
			for _, s := range gd.Specs {
				vs := s.(*ast.ValueSpec)
				for i, nm := range vs.Names {
					if i < len(vs.Values) {
						if v, ok := litValue(vs.Values[i]); ok {
							t[nm.Name] = v
						}
					}
				}
			}
			return true
		})
	}
	return t
}

func (t constTab) eval(table string, e ast.Expr) (int64, bool) {
	if v, ok := litValue(e); ok {
		return v, true
	}
	switch v := e.(type) {
	case *ast.Ident:
		if x, ok := t[v.Name]; ok {
			return x, true
		}
	case *ast.SelectorExpr: // syntax.RuneEOF etc.
		if x, ok := t[v.Sel.Name]; ok {
			return x, true
		}
	}
	fail(table, "cannot evaluate constant expression at %s", fset.Position(e.Pos()))
	return 0, false
}

func (t constTab) evalList(table string, e ast.Expr) []int64 {
	cl, ok := e.(*ast.CompositeLit)
	if !ok {
		fail(table, "expected composite literal at %s", fset.Position(e.Pos()))
		return nil
	}
	var out []int64
	for _, el := range cl.Elts {
		if v, ok := t.eval(table, el); ok {
			out = append(out, v)
		}
	}
	return out
}

func leanNatList(xs []int64) string {
	var sb strings.Builder
	sb.WriteString("[")
	for i, x := range xs {
		if i > 0 {
			sb.WriteString(", ")
		}
		fmt.Fprintf(&sb, "0x%X", x)
	}
	sb.WriteString("]")
	return sb.String()
}

// ---------------------------------------------------------------------------------------------
// idRange

func genIdRange() {
	const T = "IdRange"
	f := parseFile("pkg/syntax/id_range.go")
	if f == nil {
		return
	}
	consts := collectConsts(f)
	v := findVar(f, "idRange")
	cl, ok := v.(*ast.CompositeLit)
	if !ok {
		fail(T, "var idRange is not a composite literal")
		return
	}
	var sb strings.Builder
	sb.WriteString(header(T, "pkg/syntax/id_range.go"))
	sb.WriteString("def idRange : List (Nat × Nat) := [\n")
	for i, el := range cl.Elts {
		pair, ok := el.(*ast.CompositeLit)
		if !ok || len(pair.Elts) != 2 {
			fail(T, "entry %d is not a pair", i)
			return
		}
		lo, ok1 := consts.eval(T, pair.Elts[0])
		hi, ok2 := consts.eval(T, pair.Elts[1])
		if !ok1 || !ok2 {
			return
		}
		sep := ","
		if i == len(cl.Elts)-1 {
			sep = ""
		}
		fmt.Fprintf(&sb, "  (0x%X, 0x%X)%s\n", lo, hi, sep)
	}
	sb.WriteString("]\n\n")
	idc := findVar(f, "IDContinue")
	if idc == nil {
		fail(T, "var IDContinue not found")
		return
	}
	fmt.Fprintf(&sb, "def idContinue : List Nat := %s\n", leanNatList(consts.evalList(T, idc)))
	// the guard of IdInRange: `if num > 0xffff || num < 0 { return false }`
	fn := findFunc(f, "IdInRange")
	guard := int64(-1)
	if fn != nil && len(fn.Body.List) > 0 {
		if is, ok := fn.Body.List[0].(*ast.IfStmt); ok {
			if be, ok := is.Cond.(*ast.BinaryExpr); ok && be.Op == token.LOR {
				if l, ok := be.X.(*ast.BinaryExpr); ok && l.Op == token.GTR {
					if g, ok := litValue(l.Y); ok {
						guard = g
					}
				}
			}
		}
	}
	if guard < 0 {
		fail(T, "IdInRange guard `num > K || num < 0` not recognised")
		return
	}
	fmt.Fprintf(&sb, "def idMax : Nat := 0x%X\n", guard)
	sb.WriteString(footer(T))
	writeIfChanged(*outDir+"/IdRange.lean", sb.String())
}

// ---------------------------------------------------------------------------------------------
// tokens, punctuation, operators, quotes, whitespace, keywords

func genTokens() {
	const T = "Tokens"
	ft := parseFile("pkg/syntax/zh/tokens.go")
	fk := parseFile("pkg/syntax/zh/keyword.go")
	fl := parseFile("pkg/syntax/lexer.go")
	if ft == nil || fk == nil || fl == nil {
		return
	}
	consts := collectConsts(ft, fk, fl)
	var sb strings.Builder
	sb.WriteString(header(T, "pkg/syntax/zh/tokens.go", "pkg/syntax/zh/keyword.go", "pkg/syntax/lexer.go"))

	// every named constant, sorted for stable output
	names := make([]string, 0, len(consts))
	for n := range consts {
		names = append(names, n)
	}
	sort.Strings(names)
	for _, n := range names {
		fmt.Fprintf(&sb, "def c%s : Nat := 0x%X\n", n, consts[n])
	}
	sb.WriteString("\n")

	for _, lst := range []struct {
		file *ast.File
		name string
	}{{ft, "markPunctuations"}, {ft, "markOperators"}, {ft, "markQuotes"}, {fl, "whiteSpaces"}} {
		v := findVar(lst.file, lst.name)
		if v == nil {
			fail(T, "var %s not found", lst.name)
			continue
		}
		fmt.Fprintf(&sb, "def %s : List Nat := %s\n", lst.name, leanNatList(consts.evalList(T, v)))
	}

	// quoteMatchMap
	if v, ok := findVar(ft, "quoteMatchMap").(*ast.CompositeLit); ok {
		sb.WriteString("def quoteMatchMap : List (Nat × Nat) := [")
		for i, el := range v.Elts {
			kv := el.(*ast.KeyValueExpr)
			k, _ := consts.eval(T, kv.Key)
			x, _ := consts.eval(T, kv.Value)
			if i > 0 {
				sb.WriteString(", ")
			}
			fmt.Fprintf(&sb, "(0x%X, 0x%X)", k, x)
		}
		sb.WriteString("]\n")
	} else {
		fail(T, "quoteMatchMap not found")
	}

	// punctuationTypeMap (local var of parsePunctuations)
	found := false
	if fn := findFunc(ft, "parsePunctuations"); fn != nil {
		ast.Inspect(fn, func(n ast.Node) bool {
			as, ok := n.(*ast.AssignStmt)
			if !ok || len(as.Lhs) != 1 {
				return true
			}
			id, ok := as.Lhs[0].(*ast.Ident)
			if !ok || id.Name != "punctuationTypeMap" {
				return true
			}
			cl, ok := as.Rhs[0].(*ast.CompositeLit)
			if !ok {
				return true
			}
			found = true
			sb.WriteString("def punctuationTypeMap : List (Nat × Nat) := [")
			for i, el := range cl.Elts {
				kv := el.(*ast.KeyValueExpr)
				k, _ := consts.eval(T, kv.Key)
				x, _ := consts.eval(T, kv.Value)
				if i > 0 {
					sb.WriteString(", ")
				}
				fmt.Fprintf(&sb, "(0x%X, %d)", k, x)
			}
			sb.WriteString("]\n")
			return false
		})
	}
	if !found {
		fail(T, "punctuationTypeMap not found in parsePunctuations")
	}

	// terminateMarkers of parseIdentifier: append([]rune{...}, markPunctuations...)
	found = false
	if fn := findFunc(ft, "parseIdentifier"); fn != nil {
		ast.Inspect(fn, func(n ast.Node) bool {
			as, ok := n.(*ast.AssignStmt)
			if !ok || len(as.Lhs) != 1 {
				return true
			}
			id, ok := as.Lhs[0].(*ast.Ident)
			if !ok || id.Name != "terminateMarkers" {
				return true
			}
			call, ok := as.Rhs[0].(*ast.CallExpr)
			if !ok || len(call.Args) != 2 {
				return true
			}
			if a1, ok := call.Args[1].(*ast.Ident); !ok || a1.Name != "markPunctuations" {
				return true
			}
			found = true
			fmt.Fprintf(&sb, "def identTerminatorsHead : List Nat := %s\n", leanNatList(consts.evalList(T, call.Args[0])))
			return false
		})
	}
	if !found {
		fail(T, "terminateMarkers not recognised in parseIdentifier")
	}

	before := len(failures)
	genKeywordTable(&sb, fk, consts)
	if len(failures) > before {
		// keep the previous file: the driver must still build so that the failing-input search can run
		return
	}

	sb.WriteString(footer(T))
	writeIfChanged(*outDir+"/Tokens.lean", sb.String())
}

// parseKeyword: switch ch { case Glyph: [if cond {wordLen = n; tk.Type = T} else if ... else {return false}] | tk.Type = T }
// emitted as  keywordTable : List (Nat × List (List Nat × Nat × Nat))   glyph ↦ ordered alternatives (lookahead, wordLen, type)
func genKeywordTable(sb *strings.Builder, fk *ast.File, consts constTab) {
	const T = "Tokens.keywordTable"
	fn := findFunc(fk, "parseKeyword")
	if fn == nil {
		fail(T, "parseKeyword not found")
		return
	}
	var sw *ast.SwitchStmt
	for _, st := range fn.Body.List {
		if s, ok := st.(*ast.SwitchStmt); ok {
			sw = s
		}
	}
	if sw == nil {
		fail(T, "switch not found")
		return
	}
	if id, ok := sw.Tag.(*ast.Ident); !ok || id.Name != "ch" {
		fail(T, "switch tag is not ch")
		return
	}
	type alt struct {
		look     []int64
		wlen, ty int64
	}
	// parse `wordLen = n; tk.Type = T` in a block
	parseBody := func(stmts []ast.Stmt) (wlen, ty int64, ok bool) {
		wlen = 1
		ty = -1
		for _, st := range stmts {
			as, isAs := st.(*ast.AssignStmt)
			if !isAs || len(as.Lhs) != 1 || len(as.Rhs) != 1 {
				return 0, 0, false
			}
			switch l := as.Lhs[0].(type) {
			case *ast.Ident:
				if l.Name != "wordLen" {
					return 0, 0, false
				}
				v, ok := consts.eval(T, as.Rhs[0])
				if !ok {
					return 0, 0, false
				}
				wlen = v
			case *ast.SelectorExpr:
				if l.Sel.Name != "Type" {
					return 0, 0, false
				}
				v, ok := consts.eval(T, as.Rhs[0])
				if !ok {
					return 0, 0, false
				}
				ty = v
			default:
				return 0, 0, false
			}
		}
		return wlen, ty, ty >= 0
	}
	// parse cond: l.Peek() == A && l.Peek2() == B && l.Peek3() == C
	var parseCond func(e ast.Expr, look map[int]int64) bool
	parseCond = func(e ast.Expr, look map[int]int64) bool {
		be, ok := e.(*ast.BinaryExpr)
		if !ok {
			return false
		}
		if be.Op == token.LAND {
			return parseCond(be.X, look) && parseCond(be.Y, look)
		}
		if be.Op != token.EQL {
			return false
		}
		call, ok := be.X.(*ast.CallExpr)
		if !ok {
			return false
		}
		sel, ok := call.Fun.(*ast.SelectorExpr)
		if !ok {
			return false
		}
		idx := map[string]int{"Peek": 1, "Peek2": 2, "Peek3": 3}[sel.Sel.Name]
		if idx == 0 {
			return false
		}
		v, ok := consts.eval(T, be.Y)
		if !ok {
			return false
		}
		look[idx] = v
		return true
	}
	isReturnFalse := func(stmts []ast.Stmt) bool {
		if len(stmts) != 1 {
			return false
		}
		rs, ok := stmts[0].(*ast.ReturnStmt)
		if !ok || len(rs.Results) != 3 {
			return false
		}
		id, ok := rs.Results[0].(*ast.Ident)
		return ok && id.Name == "false"
	}

	sb.WriteString("\n-- glyph ↦ ordered alternatives (lookahead glyphs after the first, word length, token type)\n")
	sb.WriteString("def keywordTable : List (Nat × List (List Nat × Nat × Nat)) := [\n")
	first := true
	for _, c := range sw.Body.List {
		cc := c.(*ast.CaseClause)
		if len(cc.List) != 1 {
			fail(T, "case with %d labels at %s", len(cc.List), fset.Position(cc.Pos()))
			return
		}
		glyph, ok := consts.eval(T, cc.List[0])
		if !ok {
			return
		}
		var alts []alt
		if len(cc.Body) == 1 {
			if ifs, ok := cc.Body[0].(*ast.IfStmt); ok {
				cur := ifs
				for {
					look := map[int]int64{}
					if !parseCond(cur.Cond, look) {
						fail(T, "unrecognised condition at %s", fset.Position(cur.Cond.Pos()))
						return
					}
					var ls []int64
					for i := 1; i <= len(look); i++ {
						v, ok := look[i]
						if !ok {
							fail(T, "lookahead gap at %s", fset.Position(cur.Cond.Pos()))
							return
						}
						ls = append(ls, v)
					}
					wl, ty, ok := parseBody(cur.Body.List)
					if !ok {
						fail(T, "unrecognised body at %s", fset.Position(cur.Body.Pos()))
						return
					}
					if int(wl) != len(ls)+1 {
						fail(T, "wordLen %d does not match lookahead %d at %s", wl, len(ls), fset.Position(cur.Body.Pos()))
						return
					}
					alts = append(alts, alt{ls, wl, ty})
					switch e := cur.Else.(type) {
					case *ast.IfStmt:
						cur = e
						continue
					case *ast.BlockStmt:
						if !isReturnFalse(e.List) {
							fail(T, "else branch is not `return false` at %s", fset.Position(e.Pos()))
							return
						}
					default:
						fail(T, "if-chain without final else at %s", fset.Position(cur.Pos()))
						return
					}
					break
				}
			} else {
				wl, ty, ok := parseBody(cc.Body)
				if !ok || wl != 1 {
					fail(T, "unrecognised case body at %s", fset.Position(cc.Pos()))
					return
				}
				alts = append(alts, alt{nil, 1, ty})
			}
		} else {
			fail(T, "case body with %d statements at %s", len(cc.Body), fset.Position(cc.Pos()))
			return
		}
		if !first {
			sb.WriteString(",\n")
		}
		first = false
		fmt.Fprintf(sb, "  (0x%X, [", glyph)
		for i, a := range alts {
			if i > 0 {
				sb.WriteString(", ")
			}
			fmt.Fprintf(sb, "(%s, %d, %d)", leanNatList(a.look), a.wlen, a.ty)
		}
		sb.WriteString("])")
	}
	sb.WriteString("\n]\n")
}

// ---------------------------------------------------------------------------------------------
// tryParseNumber: for _, ch := range charArr { switch ch { case chars: switch state { case from...: state = to; default: goto end } ... default: goto end } }

func genNumberDFA() {
	const T = "NumberDFA"
	f := parseFile("pkg/exec/id_match.go")
	if f == nil {
		return
	}
	fn := findFunc(f, "tryParseNumber")
	if fn == nil {
		fail(T, "tryParseNumber not found")
		return
	}
	consts := collectConsts(f)
	var sb strings.Builder
	sb.WriteString(header(T, "pkg/exec/id_match.go"))

	var outer *ast.SwitchStmt
	ast.Inspect(fn, func(n ast.Node) bool {
		if rs, ok := n.(*ast.RangeStmt); ok {
			for _, st := range rs.Body.List {
				if s, ok := st.(*ast.SwitchStmt); ok && outer == nil {
					outer = s
				}
			}
			return false
		}
		return true
	})
	if outer == nil {
		fail(T, "range/switch not found")
		return
	}
	if id, ok := outer.Tag.(*ast.Ident); !ok || id.Name != "ch" {
		fail(T, "outer switch tag is not ch")
		return
	}
	isGotoEnd := func(stmts []ast.Stmt) bool {
		if len(stmts) != 1 {
			return false
		}
		b, ok := stmts[0].(*ast.BranchStmt)
		return ok && b.Tok == token.GOTO && b.Label.Name == "end"
	}
	sb.WriteString("-- (characters, [(from-states, to-state)]); anything not listed stops the scan (`goto end`)\n")
	sb.WriteString("def transitions : List (List Nat × List (List Nat × Nat)) := [\n")
	first := true
	sawDefault := false
	for _, c := range outer.Body.List {
		cc := c.(*ast.CaseClause)
		if cc.List == nil {
			if !isGotoEnd(cc.Body) {
				fail(T, "outer default is not goto end")
				return
			}
			sawDefault = true
			continue
		}
		var chars []int64
		for _, e := range cc.List {
			v, ok := consts.eval(T, e)
			if !ok {
				return
			}
			chars = append(chars, v)
		}
		if len(cc.Body) != 1 {
			fail(T, "case body has %d statements at %s", len(cc.Body), fset.Position(cc.Pos()))
			return
		}
		inner, ok := cc.Body[0].(*ast.SwitchStmt)
		if !ok {
			fail(T, "case body is not a switch at %s", fset.Position(cc.Pos()))
			return
		}
		if id, ok := inner.Tag.(*ast.Ident); !ok || id.Name != "state" {
			fail(T, "inner switch tag is not state")
			return
		}
		type tr struct {
			from []int64
			to   int64
		}
		var trs []tr
		innerDefault := false
		for _, ic := range inner.Body.List {
			icc := ic.(*ast.CaseClause)
			if icc.List == nil {
				if !isGotoEnd(icc.Body) {
					fail(T, "inner default is not goto end at %s", fset.Position(icc.Pos()))
					return
				}
				innerDefault = true
				continue
			}
			var from []int64
			for _, e := range icc.List {
				v, ok := consts.eval(T, e)
				if !ok {
					return
				}
				from = append(from, v)
			}
			if len(icc.Body) != 1 {
				fail(T, "transition body at %s", fset.Position(icc.Pos()))
				return
			}
			as, ok := icc.Body[0].(*ast.AssignStmt)
			if !ok || len(as.Lhs) != 1 {
				fail(T, "transition is not an assignment at %s", fset.Position(icc.Pos()))
				return
			}
			if id, ok := as.Lhs[0].(*ast.Ident); !ok || id.Name != "state" {
				fail(T, "transition does not assign state at %s", fset.Position(icc.Pos()))
				return
			}
			to, ok := consts.eval(T, as.Rhs[0])
			if !ok {
				return
			}
			trs = append(trs, tr{from, to})
		}
		if !innerDefault {
			fail(T, "inner switch without default at %s", fset.Position(inner.Pos()))
			return
		}
		if !first {
			sb.WriteString(",\n")
		}
		first = false
		fmt.Fprintf(&sb, "  (%s, [", leanNatList(chars))
		for i, t := range trs {
			if i > 0 {
				sb.WriteString(", ")
			}
			fmt.Fprintf(&sb, "(%s, %d)", decList(t.from), t.to)
		}
		sb.WriteString("])")
	}
	sb.WriteString("\n]\n")
	if !sawDefault {
		fail(T, "outer switch without default")
		return
	}
	// var state = sBegin ; var endStates = []int{...}
	var beginState int64 = -1
	var endStates []int64
	ast.Inspect(fn, func(n ast.Node) bool {
		gd, ok := n.(*ast.GenDecl)
		if !ok || gd.Tok != token.VAR {
			return true
		}
		for _, s := range gd.Specs {
			vs := s.(*ast.ValueSpec)
			if len(vs.Names) == 1 && len(vs.Values) == 1 {
				switch vs.Names[0].Name {
				case "state":
					if v, ok := consts.eval(T, vs.Values[0]); ok {
						beginState = v
					}
				case "endStates":
					endStates = consts.evalList(T, vs.Values[0])
				}
			}
		}
		return true
	})
	if beginState < 0 || endStates == nil {
		fail(T, "begin state / endStates not found")
		return
	}
	fmt.Fprintf(&sb, "def beginState : Nat := %d\n", beginState)
	fmt.Fprintf(&sb, "def endStates : List Nat := %s\n", decList(endStates))
	if v, ok := consts["sIntPMFlag"]; ok {
		fmt.Fprintf(&sb, "def signOnlyState : Nat := %d\n", v)
	} else {
		fail(T, "sIntPMFlag not found")
	}
	sb.WriteString(footer(T))
	writeIfChanged(*outDir+"/NumberDFA.lean", sb.String())
}

func decList(xs []int64) string {
	var sb strings.Builder
	sb.WriteString("[")
	for i, x := range xs {
		if i > 0 {
			sb.WriteString(", ")
		}
		fmt.Fprintf(&sb, "%d", x)
	}
	sb.WriteString("]")
	return sb.String()
}
