package main

// Tables consulted by the recursive-descent parser (pkg/syntax/zh/zh_parser.go, zh_ast.go) and the node-type
// constants of pkg/syntax/ast.go  →  Generated/ParserTables.lean

import (
	"fmt"
	"go/ast"
	"go/token"
	"sort"
	"strings"
)

// localComposite finds, inside fn, `name := <composite>` or `var name = <composite>`.
func localComposite(fn *ast.FuncDecl, name string) *ast.CompositeLit {
	var out *ast.CompositeLit
	ast.Inspect(fn, func(n ast.Node) bool {
		if out != nil {
			return false
		}
		switch v := n.(type) {
		case *ast.AssignStmt:
			if len(v.Lhs) == 1 && len(v.Rhs) == 1 {
				if id, ok := v.Lhs[0].(*ast.Ident); ok && id.Name == name {
					if cl, ok := v.Rhs[0].(*ast.CompositeLit); ok {
						out = cl
					}
				}
			}
		case *ast.ValueSpec:
			for i, nm := range v.Names {
				if nm.Name == name && i < len(v.Values) {
					if cl, ok := v.Values[i].(*ast.CompositeLit); ok {
						out = cl
					}
				}
			}
		}
		return true
	})
	return out
}

// tryConsumeArgs returns the argument lists of every `p.tryConsume(A, B, …)` / `p.consume(…)` call of fn whose
// arguments are plain constants (calls with a spread `xs...` are skipped).
func consumeArgs(fn *ast.FuncDecl, method string, consts constTab, table string) [][]int64 {
	var out [][]int64
	ast.Inspect(fn, func(n ast.Node) bool {
		call, ok := n.(*ast.CallExpr)
		if !ok || call.Ellipsis != token.NoPos {
			return true
		}
		sel, ok := call.Fun.(*ast.SelectorExpr)
		if !ok || sel.Sel.Name != method {
			return true
		}
		var xs []int64
		for _, a := range call.Args {
			if v, ok := consts.eval(table, a); ok {
				xs = append(xs, v)
			}
		}
		out = append(out, xs)
		return true
	})
	return out
}

func leanPairList(kv [][2]int64) string {
	var sb strings.Builder
	sb.WriteString("[")
	for i, p := range kv {
		if i > 0 {
			sb.WriteString(", ")
		}
		fmt.Fprintf(&sb, "(0x%X, %d)", p[0], p[1])
	}
	sb.WriteString("]")
	return sb.String()
}

func genParserTables() {
	const T = "ParserTables"
	fp := parseFile("pkg/syntax/zh/zh_parser.go")
	fa := parseFile("pkg/syntax/zh/zh_ast.go")
	fn := parseFile("pkg/syntax/ast.go")
	ft := parseFile("pkg/syntax/zh/tokens.go")
	fk := parseFile("pkg/syntax/zh/keyword.go")
	if fp == nil || fa == nil || fn == nil || ft == nil || fk == nil {
		return
	}
	consts := collectConsts(ft, fk, fn)
	var sb strings.Builder
	sb.WriteString(header(T, "pkg/syntax/zh/zh_parser.go", "pkg/syntax/zh/zh_ast.go", "pkg/syntax/ast.go"))

	// node-type constants of ast.go
	nodeConsts := collectConsts(fn)
	names := make([]string, 0, len(nodeConsts))
	for n := range nodeConsts {
		names = append(names, n)
	}
	sort.Strings(names)
	for _, n := range names {
		fmt.Fprintf(&sb, "def c%s : Nat := %d\n", n, nodeConsts[n])
	}
	sb.WriteString("\n")

	list := func(file *ast.File, fnName, varName, leanName string) {
		f := findFunc(file, fnName)
		if f == nil {
			fail(T, "func %s not found", fnName)
			return
		}
		cl := localComposite(f, varName)
		if cl == nil {
			fail(T, "%s: local list %s not found", fnName, varName)
			return
		}
		fmt.Fprintf(&sb, "def %s : List Nat := %s\n", leanName, leanNatList(consts.evalList(T, cl)))
	}
	// meetStmtLineBreak exception lists
	list(fp, "meetStmtLineBreak", "exceptCurrentTokenTypes", "exceptCurrentTokenTypes")
	list(fp, "meetStmtLineBreak", "exceptFollowingTokenTypes", "exceptFollowingTokenTypes")
	// statement / basic-expression start tokens
	list(fa, "ParseStatement", "validTypes", "stmtValidTypes")
	list(fa, "ParseBasicExpr", "validTypes", "basicValidTypes")
	list(fa, "parseExpressionLv3", "validTypes", "lv3ValidTypes")
	list(fa, "parseExpressionLv4", "validTypes", "lv4ValidTypes")
	list(fa, "parseVDAssignPair", "validKeywords", "vdAssignKeywords")
	list(fa, "tryParseEmptyMapList", "emptyTrialTypes", "emptyTrialTypes")
	list(fa, "ParseBranchStmt", "condKeywords", "condKeywords")
	list(fa, "ParseClassDeclareStmt", "validChildTypes", "classChildTypes")

	// lv4: `if cfg.AsVarAssign { validTypes = append(validTypes, X) }`
	if f := findFunc(fa, "parseExpressionLv4"); f != nil {
		var extra []int64
		ast.Inspect(f, func(n ast.Node) bool {
			ifs, ok := n.(*ast.IfStmt)
			if !ok {
				return true
			}
			sel, ok := ifs.Cond.(*ast.SelectorExpr)
			if !ok || sel.Sel.Name != "AsVarAssign" {
				return true
			}
			ast.Inspect(ifs.Body, func(m ast.Node) bool {
				call, ok := m.(*ast.CallExpr)
				if !ok {
					return true
				}
				if id, ok := call.Fun.(*ast.Ident); ok && id.Name == "append" && len(call.Args) >= 2 {
					for _, a := range call.Args[1:] {
						if v, ok := consts.eval(T, a); ok {
							extra = append(extra, v)
						}
					}
				}
				return true
			})
			return false
		})
		if len(extra) == 0 {
			fail(T, "parseExpressionLv4: `if cfg.AsVarAssign { validTypes = append(…) }` not recognised")
		}
		fmt.Fprintf(&sb, "def lv4VarAssignExtra : List Nat := %s\n", leanNatList(extra))
	}

	// logicTypeMap (sorted by key: Go map literal order is irrelevant)
	if f := findFunc(fa, "parseExpressionLv3"); f != nil {
		cl := localComposite(f, "logicTypeMap")
		if cl == nil {
			fail(T, "parseExpressionLv3: logicTypeMap not found")
		} else {
			var kv [][2]int64
			for _, el := range cl.Elts {
				p, ok := el.(*ast.KeyValueExpr)
				if !ok {
					fail(T, "logicTypeMap: element is not key:value")
					continue
				}
				k, ok1 := consts.eval(T, p.Key)
				v, ok2 := consts.eval(T, p.Value)
				if ok1 && ok2 {
					kv = append(kv, [2]int64{k, v})
				}
			}
			sort.Slice(kv, func(i, j int) bool { return kv[i][0] < kv[j][0] })
			for i := 1; i < len(kv); i++ {
				if kv[i][0] == kv[i-1][0] {
					fail(T, "logicTypeMap: duplicate key %d", kv[i][0])
				}
			}
			fmt.Fprintf(&sb, "def logicTypeMap : List (Nat × Nat) := %s\n", leanPairList(kv))
		}
	}

	// ParseArithExpr: tryConsume(TypePlus, TypeMinus); t := ArithAdd; if tk.Type == TypeMinus { t = ArithSub }
	if f := findFunc(fa, "ParseArithExpr"); f != nil {
		args := consumeArgs(f, "tryConsume", consts, T)
		if len(args) != 1 {
			fail(T, "ParseArithExpr: expected exactly one tryConsume call, got %d", len(args))
		} else {
			fmt.Fprintf(&sb, "def addSubTypes : List Nat := %s\n", leanNatList(args[0]))
		}
		def, found := int64(-1), false
		var over [][2]int64
		ast.Inspect(f, func(n ast.Node) bool {
			switch v := n.(type) {
			case *ast.AssignStmt:
				if len(v.Lhs) == 1 && v.Tok == token.DEFINE {
					if id, ok := v.Lhs[0].(*ast.Ident); ok && id.Name == "t" {
						if x, ok := consts.eval(T, v.Rhs[0]); ok {
							def, found = x, true
						}
					}
				}
			case *ast.IfStmt:
				be, ok := v.Cond.(*ast.BinaryExpr)
				if !ok || be.Op != token.EQL {
					return true
				}
				sel, ok := be.X.(*ast.SelectorExpr)
				if !ok || sel.Sel.Name != "Type" {
					return true
				}
				if len(v.Body.List) == 1 && v.Else == nil {
					if as, ok := v.Body.List[0].(*ast.AssignStmt); ok && as.Tok == token.ASSIGN {
						if id, ok := as.Lhs[0].(*ast.Ident); ok && id.Name == "t" {
							k, ok1 := consts.eval(T, be.Y)
							x, ok2 := consts.eval(T, as.Rhs[0])
							if ok1 && ok2 {
								over = append(over, [2]int64{k, x})
							}
						}
					}
				}
			}
			return true
		})
		if !found || len(over) != 1 {
			fail(T, "ParseArithExpr: `t := …; if tk.Type == … { t = … }` not recognised")
		}
		fmt.Fprintf(&sb, "def addSubDefault : Nat := %d\ndef addSubOverride : List (Nat × Nat) := %s\n", def, leanPairList(over))
	}

	// parseArithMulDivExpr: tryConsume(…4 types…); switch tk.Type { case X: t = Y … } (no default: t stays 0)
	if f := findFunc(fa, "parseArithMulDivExpr"); f != nil {
		args := consumeArgs(f, "tryConsume", consts, T)
		if len(args) != 1 {
			fail(T, "parseArithMulDivExpr: expected exactly one tryConsume call, got %d", len(args))
		} else {
			fmt.Fprintf(&sb, "def mulDivTypes : List Nat := %s\n", leanNatList(args[0]))
		}
		var kv [][2]int64
		nsw := 0
		ast.Inspect(f, func(n ast.Node) bool {
			sw, ok := n.(*ast.SwitchStmt)
			if !ok {
				return true
			}
			nsw++
			for _, c := range sw.Body.List {
				cc := c.(*ast.CaseClause)
				if cc.List == nil {
					fail(T, "parseArithMulDivExpr: unexpected default clause")
					continue
				}
				if len(cc.Body) != 1 {
					fail(T, "parseArithMulDivExpr: case body is not a single assignment")
					continue
				}
				as, ok := cc.Body[0].(*ast.AssignStmt)
				if !ok || len(as.Lhs) != 1 {
					fail(T, "parseArithMulDivExpr: case body is not a single assignment")
					continue
				}
				x, ok2 := consts.eval(T, as.Rhs[0])
				for _, k := range cc.List {
					if kk, ok1 := consts.eval(T, k); ok1 && ok2 {
						kv = append(kv, [2]int64{kk, x})
					}
				}
			}
			return false
		})
		if nsw != 1 {
			fail(T, "parseArithMulDivExpr: switch not found")
		}
		fmt.Fprintf(&sb, "def mulDivTypeMap : List (Nat × Nat) := %s\n", leanPairList(kv))
	}

	sb.WriteString(footer(T))
	writeIfChanged(*outDir+"/ParserTables.lean", sb.String())
}
