package main

// Site inventories of the evaluator (pkg/exec, pkg/runtime, pkg/value), regenerated with go/types on every scan of
// genFacts (same stamp: the scan is skipped while neither the sources nor the generated files changed):
//
//   Generated/FrameSites.lean        every call of the call-frame / scope discipline: (*VM).PushCallFrame PopCallFrame
//                                    BeginScope EndScope BeginBoundScope SetCurrentLine SetReturnValue GetReturnValue
//                                    GetCallStack, (*Scope).BeginScope EndScope, (*CallFrame).SetCurrentLine HasStarted, any
//                                    method of those types called Unwind…; every call of a local bound to the result of one of
//                                    them (`endScope := vm.BeginBoundScope(); defer endScope()`); every use as a method value
//   Generated/CopySites.lean         every call of value.DuplicateValue
//   Generated/OperatorDispatch.lean  every `return` and every plain assignment of the operator functions of eval.go
//                                    (evalExpression evalArithExpr evalArithTypeModuloExpr evalLogicComparator
//                                    evalLogicCombiner compareLogicEQ/GT/GTE/LT/LTE) under its guards
//
// A record never holds a line number, a file name or the name of a local variable / parameter / import alias:
//   func    package.Function, `·funcN` for the N-th function literal inside it (Go's own numbering), marked
//           ` (deferred)` / ` (go)` when the literal is called by a defer / go statement on the spot
//   ord     ordinal among the recorded sites of that function, in source order
//   form    the smallest statement (or statement head) holding the site, the site itself written □
//   guard   the enclosing constructs inside the function, outermost first, joined by " ▸ "
//   exits   number of `return` statements in the statements that precede the site in its enclosing blocks (the ways
//           of leaving the function before the site is reached: a frame pushed earlier stays on the stack on those)
// Locals are written by their type `‹T›`, parameters `‹T#i›` (i-th parameter; `#fi` of a function literal), the receiver
// `‹T#recv›`, packages by their declared name. In the operator functions the operands are written l and r (the values
// obtained from evalExpression(_, x.LeftExpr / x.RightExpr), through type assertions and GetValue()), and a local that
// is defined once by `:=` from an expression over them is replaced by that expression.
//
// A harmless edit (comment, rename of a local, reordering functions, moving a function to another file of the package)
// leaves the tables unchanged; a site added, removed, moved under another guard, behind another early return, or whose
// argument changes, changes them — and the Lean expectation (`frame_sites_all_modelled`, `copy_sites_all_modelled`,
// `operator_dispatch_as_modelled`) stops checking.

import (
	"bytes"
	"fmt"
	"go/ast"
	"go/printer"
	"go/token"
	"go/types"
	"path/filepath"
	"sort"
	"strings"
)

var sitePkgs = []string{"pkg/exec", "pkg/runtime", "pkg/value"}

var frameMethodNames = map[string]bool{"PushCallFrame": true, "PopCallFrame": true, "BeginScope": true, "EndScope": true,
	"BeginBoundScope": true, "SetCurrentLine": true, "SetReturnValue": true, "GetReturnValue": true, "GetCallStack": true,
	"HasStarted": true}

var frameRecvTypes = map[string]bool{"VM": true, "Scope": true, "CallFrame": true}

// operator functions of pkg/exec (their operands come from evalExpression). The helpers they apply to (l, r) — functions
// of pkg/exec of type func(runtime.Element, runtime.Element), not recursive — are found by the scan and expanded one
// level (operands = parameters 1, 2)
var dispatchFuncs = map[string]bool{"evalExpression": true, "evalArithExpr": true, "evalArithTypeModuloExpr": true,
	"evalLogicComparator": true, "evalLogicCombiner": true}

// bodies recorded statement by statement in framePrimitives: the tracked methods themselves and the three private
// helpers they read the current frame / scope through
var primitiveHelpers = map[string]bool{"getCurrentCallFrame": true, "getCurrentScope": true, "initValueStack": true}

type frameSite struct {
	Func   string `json:"func"`
	Callee string `json:"callee"`
	Ord    int    `json:"ord"`
	Form   string `json:"form"`
	Guard  string `json:"guard"`
	Exits  int    `json:"exits"`
	File   string `json:"file"` // informative only; never part of the Lean record
	Line   int    `json:"line"` // informative only; never part of the Lean record
}

type copySite struct {
	Func  string `json:"func"`
	Ord   int    `json:"ord"`
	Arg   string `json:"arg"`
	Form  string `json:"form"`
	Guard string `json:"guard"`
	File  string `json:"file"`
	Line  int    `json:"line"`
}

type dispatchEntry struct {
	Func  string `json:"func"`
	Ord   int    `json:"ord"`
	Guard string `json:"guard"`
	Stmt  string `json:"stmt"`
	File  string `json:"file"`
	Line  int    `json:"line"`
}

func qualifier(p *types.Package) string { return p.Name() }

// ---- normalised printing -------------------------------------------------------------------------------------------

type inlined struct {
	text   string
	atomic bool
}

type norm struct {
	info   *types.Info
	pkg    *types.Package
	role   map[types.Object]string  // parameters and receiver: "#1", "#f2", "#recv"
	inline map[types.Object]inlined // operator functions only
	hole   ast.Node                 // printed as □
}

func (n *norm) obj(id *ast.Ident) types.Object {
	if o := n.info.Uses[id]; o != nil {
		return o
	}
	return n.info.Defs[id]
}

func (n *norm) typeStr(t types.Type) string {
	if t == nil {
		return "?"
	}
	return types.TypeString(t, qualifier)
}

func (n *norm) ident(id *ast.Ident) (string, bool) {
	switch o := n.obj(id).(type) {
	case *types.PkgName:
		return o.Imported().Name(), true
	case *types.Var:
		if o.IsField() || o.Parent() == nil || (o.Pkg() != nil && o.Parent() == o.Pkg().Scope()) {
			return id.Name, true
		}
		if in, ok := n.inline[o]; ok {
			return in.text, in.atomic
		}
		if n.role[o] == "#recv" {
			return "recv", true
		}
		return "‹" + n.typeStr(o.Type()) + n.role[o] + "›", true
	}
	return id.Name, true
}

func (n *norm) paren(e ast.Expr) string {
	if id, ok := e.(*ast.Ident); ok {
		s, atomic := n.ident(id)
		if !atomic {
			return "(" + s + ")"
		}
		return s
	}
	return n.expr(e)
}

func (n *norm) exprs(es []ast.Expr) string {
	out := make([]string, len(es))
	for i, e := range es {
		out[i] = n.expr(e)
	}
	return strings.Join(out, ", ")
}

func (n *norm) expr(e ast.Expr) string {
	if e == nil {
		return ""
	}
	if ast.Node(e) == n.hole {
		return "□"
	}
	if _, isIdent := e.(*ast.Ident); !isIdent {
		if tv, ok := n.info.Types[e]; ok && tv.IsType() {
			return n.typeStr(tv.Type)
		}
	}
	switch v := e.(type) {
	case *ast.Ident:
		if tv, ok := n.info.Types[e]; ok && tv.IsType() {
			return n.typeStr(tv.Type)
		}
		s, _ := n.ident(v)
		return s
	case *ast.BasicLit:
		return v.Value
	case *ast.ParenExpr:
		return "(" + n.expr(v.X) + ")"
	case *ast.SelectorExpr:
		return n.paren(v.X) + "." + v.Sel.Name
	case *ast.StarExpr:
		return "*" + n.paren(v.X)
	case *ast.UnaryExpr:
		return v.Op.String() + n.paren(v.X)
	case *ast.BinaryExpr:
		return n.paren(v.X) + " " + v.Op.String() + " " + n.paren(v.Y)
	case *ast.CallExpr:
		if ast.Node(v.Fun) == n.hole {
			return "□(" + n.exprs(v.Args) + ")"
		}
		// operand.GetValue() is the operand
		if sel, ok := v.Fun.(*ast.SelectorExpr); ok && sel.Sel.Name == "GetValue" && len(v.Args) == 0 {
			if id, ok := sel.X.(*ast.Ident); ok {
				if o, ok := n.obj(id).(*types.Var); ok {
					if in, ok := n.inline[o]; ok && (in.text == "l" || in.text == "r") {
						return in.text
					}
				}
			}
		}
		s := n.expr(v.Fun) + "(" + n.exprs(v.Args)
		if v.Ellipsis != token.NoPos {
			s += "..."
		}
		return s + ")"
	case *ast.IndexExpr:
		return n.paren(v.X) + "[" + n.expr(v.Index) + "]"
	case *ast.SliceExpr:
		s := n.paren(v.X) + "[" + n.expr(v.Low) + ":" + n.expr(v.High)
		if v.Slice3 {
			s += ":" + n.expr(v.Max)
		}
		return s + "]"
	case *ast.TypeAssertExpr:
		if v.Type == nil {
			return n.paren(v.X) + ".(type)"
		}
		return n.paren(v.X) + ".(" + n.expr(v.Type) + ")"
	case *ast.CompositeLit:
		return n.expr(v.Type) + "{" + n.exprs(v.Elts) + "}"
	case *ast.KeyValueExpr:
		return n.expr(v.Key) + ": " + n.expr(v.Value)
	case *ast.FuncLit:
		return "func{…}"
	}
	return exprText(e)
}

// commaOk recognises `if v, ok := X.(T); ok` (the test of a dynamic type) and writes it `X is T`
func (n *norm) commaOk(s *ast.IfStmt) (string, bool) {
	as, ok := s.Init.(*ast.AssignStmt)
	if !ok || as.Tok != token.DEFINE || len(as.Lhs) != 2 || len(as.Rhs) != 1 {
		return "", false
	}
	ta, ok := as.Rhs[0].(*ast.TypeAssertExpr)
	if !ok || ta.Type == nil {
		return "", false
	}
	okv, ok1 := as.Lhs[1].(*ast.Ident)
	cond, ok2 := s.Cond.(*ast.Ident)
	if !ok1 || !ok2 || n.obj(okv) == nil || n.obj(okv) != n.obj(cond) {
		return "", false
	}
	return n.paren(ta.X) + " is " + n.expr(ta.Type), true
}

func (n *norm) simple(s ast.Stmt) string {
	switch v := s.(type) {
	case nil:
		return ""
	case *ast.ExprStmt:
		return n.expr(v.X)
	case *ast.AssignStmt:
		return n.exprs(v.Lhs) + " " + v.Tok.String() + " " + n.exprs(v.Rhs)
	case *ast.IncDecStmt:
		return n.expr(v.X) + v.Tok.String()
	case *ast.ReturnStmt:
		if len(v.Results) == 0 {
			return "return"
		}
		return "return " + n.exprs(v.Results)
	case *ast.DeferStmt:
		return "defer " + n.expr(v.Call)
	case *ast.GoStmt:
		return "go " + n.expr(v.Call)
	case *ast.BranchStmt:
		return v.Tok.String()
	}
	return strings.Join(strings.Fields(nodeText(s)), " ")
}

func nodeText(nd ast.Node) string {
	var b bytes.Buffer
	printer.Fprint(&b, fset, nd)
	return b.String()
}

func hasWord(s, w string) bool {
	for i := 0; i+len(w) <= len(s); i++ {
		if s[i:i+len(w)] != w {
			continue
		}
		before := i == 0 || !isWordByte(s[i-1])
		after := i+len(w) == len(s) || !isWordByte(s[i+len(w)])
		if before && after {
			return true
		}
	}
	return false
}

func isWordByte(c byte) bool {
	return c == '_' || c >= 0x80 || (c >= '0' && c <= '9') || (c >= 'a' && c <= 'z') || (c >= 'A' && c <= 'Z')
}

// head: the text of a compound statement without its body
func (n *norm) head(s ast.Stmt) string {
	switch v := s.(type) {
	case *ast.IfStmt:
		if t, ok := n.commaOk(v); ok {
			return "if " + t
		}
		if v.Init != nil {
			return "if " + n.simple(v.Init) + "; " + n.expr(v.Cond)
		}
		return "if " + n.expr(v.Cond)
	case *ast.ForStmt:
		if v.Init == nil && v.Post == nil {
			if v.Cond == nil {
				return "for"
			}
			return "for " + n.expr(v.Cond)
		}
		return "for " + n.simple(v.Init) + "; " + n.expr(v.Cond) + "; " + n.simple(v.Post)
	case *ast.RangeStmt:
		return "range " + n.expr(v.X)
	case *ast.SwitchStmt:
		s := "switch"
		if v.Init != nil {
			s += " " + n.simple(v.Init) + ";"
		}
		if v.Tag != nil {
			s += " " + n.expr(v.Tag)
		}
		return s
	case *ast.TypeSwitchStmt:
		var x ast.Expr
		switch a := v.Assign.(type) {
		case *ast.AssignStmt:
			x = a.Rhs[0]
		case *ast.ExprStmt:
			x = a.X
		}
		if ta, ok := x.(*ast.TypeAssertExpr); ok {
			x = ta.X
		}
		return "typeswitch " + n.expr(x)
	case *ast.SelectStmt:
		return "select"
	}
	return n.simple(s)
}

func (n *norm) caseText(c *ast.CaseClause) string {
	if c.List == nil {
		return "default"
	}
	return "case " + n.exprs(c.List)
}

// ---- walking a function with the chain of ancestors ----------------------------------------------------------------

type funcCtx struct {
	name string // package.Function[·funcN]
	n    *norm
}

// isCompound: statements whose head, not whose whole text, is the `form` of a site in their head
func isCompound(s ast.Stmt) bool {
	switch s.(type) {
	case *ast.IfStmt, *ast.ForStmt, *ast.RangeStmt, *ast.SwitchStmt, *ast.TypeSwitchStmt, *ast.SelectStmt:
		return true
	}
	return false
}

func countReturns(s ast.Stmt) int {
	c := 0
	ast.Inspect(s, func(x ast.Node) bool {
		switch x.(type) {
		case *ast.FuncLit:
			return false
		case *ast.ReturnStmt:
			c++
		}
		return true
	})
	return c
}

// context of the node at the end of `stack` (stack[0] is the *ast.FuncDecl): the function it belongs to (index of the
// innermost function boundary), its guard chain, the number of earlier exits, and its form
func siteContext(n *norm, stack []ast.Node) (boundary int, form, guard string, exits int) {
	boundary = 0
	for i := len(stack) - 1; i > 0; i-- {
		if _, ok := stack[i].(*ast.FuncLit); ok {
			boundary = i
			break
		}
	}
	var guards []string
	var pendingSwitch string
	for i := boundary; i+1 < len(stack); i++ {
		a, c := stack[i], stack[i+1]
		switch v := a.(type) {
		case *ast.IfStmt:
			if c == ast.Node(v.Body) {
				guards = append(guards, n.head(v))
			} else if v.Else != nil && c == ast.Node(v.Else) {
				guards = append(guards, "else("+strings.TrimPrefix(n.head(v), "if ")+")")
			}
		case *ast.ForStmt:
			if c == ast.Node(v.Body) {
				guards = append(guards, n.head(v))
			}
		case *ast.RangeStmt:
			if c == ast.Node(v.Body) {
				guards = append(guards, n.head(v))
			}
		case *ast.SwitchStmt:
			if c == ast.Node(v.Body) {
				pendingSwitch = n.head(v)
			}
		case *ast.TypeSwitchStmt:
			if c == ast.Node(v.Body) {
				pendingSwitch = n.head(v)
			}
		case *ast.SelectStmt:
			if c == ast.Node(v.Body) {
				pendingSwitch = "select"
			}
		case *ast.CaseClause:
			inBody := false
			for _, s := range v.Body {
				if ast.Node(s) == c {
					inBody = true
				}
			}
			if inBody {
				guards = append(guards, pendingSwitch+" "+n.caseText(v))
			}
		case *ast.CommClause:
			guards = append(guards, "select case")
		}
		// earlier exits: returns in the statements that precede the path in this statement list
		var list []ast.Stmt
		switch v := a.(type) {
		case *ast.BlockStmt:
			list = v.List
			if i > 0 {
				// the clauses of a switch are alternatives, not earlier statements
				switch stack[i-1].(type) {
				case *ast.SwitchStmt, *ast.TypeSwitchStmt, *ast.SelectStmt:
					list = nil
				}
			}
		case *ast.CaseClause:
			list = v.Body
		case *ast.CommClause:
			list = v.Body
		}
		for _, s := range list {
			if ast.Node(s) == c {
				break
			}
			exits += countReturns(s)
		}
	}
	// form: the innermost statement holding the site
	for i := len(stack) - 1; i > boundary; i-- {
		s, ok := stack[i].(ast.Stmt)
		if !ok {
			continue
		}
		if _, isBlock := s.(*ast.BlockStmt); isBlock {
			continue
		}
		if isCompound(s) {
			form = n.head(s)
		} else {
			form = n.simple(s)
		}
		break
	}
	return boundary, form, strings.Join(guards, " ▸ "), exits
}

// frameCallee: the tracked method an identifier resolves to ("" if none), written (*runtime.VM).PushCallFrame
func frameCallee(info *types.Info, sel *ast.Ident) string {
	fn, ok := info.Uses[sel].(*types.Func)
	if !ok || fn.Pkg() == nil || fn.Pkg().Path() != znModule+"pkg/runtime" {
		return ""
	}
	sig, ok := fn.Type().(*types.Signature)
	if !ok || sig.Recv() == nil {
		return ""
	}
	rt := sig.Recv().Type()
	ptr := ""
	if p, ok := rt.(*types.Pointer); ok {
		rt = p.Elem()
		ptr = "*"
	}
	named, ok := rt.(*types.Named)
	if !ok || !frameRecvTypes[named.Obj().Name()] {
		return ""
	}
	if !frameMethodNames[fn.Name()] && !strings.HasPrefix(fn.Name(), "Unwind") {
		return ""
	}
	return "(" + ptr + "runtime." + named.Obj().Name() + ")." + fn.Name()
}

func isDuplicateValue(info *types.Info, id *ast.Ident) bool {
	fn, ok := info.Uses[id].(*types.Func)
	return ok && fn.Pkg() != nil && fn.Pkg().Path() == znModule+"pkg/value" && fn.Name() == "DuplicateValue" &&
		fn.Type().(*types.Signature).Recv() == nil
}

func funIdent(e ast.Expr) *ast.Ident {
	switch v := e.(type) {
	case *ast.Ident:
		return v
	case *ast.SelectorExpr:
		return v.Sel
	case *ast.ParenExpr:
		return funIdent(v.X)
	}
	return nil
}

type siteScan struct {
	frames     []frameSite
	copies     []copySite
	dispatch   []dispatchEntry
	primitives []dispatchEntry
	funcs      int
	seenDisp   map[string]bool
	helpers    map[string]bool // functions of pkg/exec applied to (l, r) by an operator function
}

// isPrimitive: a tracked method of VM / Scope / CallFrame, or one of the private helpers
func isPrimitive(rel string, fd *ast.FuncDecl) bool {
	if rel != "pkg/runtime" || fd.Recv == nil || len(fd.Recv.List) != 1 {
		return false
	}
	t := fd.Recv.List[0].Type
	if st, ok := t.(*ast.StarExpr); ok {
		t = st.X
	}
	id, ok := t.(*ast.Ident)
	if !ok || !frameRecvTypes[id.Name] {
		return false
	}
	return frameMethodNames[fd.Name.Name] || strings.HasPrefix(fd.Name.Name, "Unwind") || primitiveHelpers[fd.Name.Name]
}

// takesTwoElements: func(runtime.Element, runtime.Element) … — a helper that inspects the dynamic types of the operands itself
func takesTwoElements(fo *types.Func) bool {
	sig, ok := fo.Type().(*types.Signature)
	if !ok || sig.Recv() != nil || sig.Params().Len() != 2 {
		return false
	}
	for i := 0; i < 2; i++ {
		if types.TypeString(sig.Params().At(i).Type(), qualifier) != "runtime.Element" {
			return false
		}
	}
	return true
}

func callsItself(info *types.Info, fd *ast.FuncDecl) bool {
	self := info.Defs[fd.Name]
	rec := false
	ast.Inspect(fd.Body, func(x ast.Node) bool {
		if id, ok := x.(*ast.Ident); ok && self != nil && info.Uses[id] == self {
			rec = true
		}
		return true
	})
	return rec
}

// helperOnly: the function is scanned as a helper of the operator functions only (second pass)
func (sc *siteScan) scanFunc(rel string, pkg *types.Package, info *types.Info, fname string, fd *ast.FuncDecl, helperOnly bool) {
	if fd.Body == nil {
		return
	}
	if !helperOnly {
		sc.funcs++
	}
	base := pkg.Name() + "." + funcName(fd)
	n := &norm{info: info, pkg: pkg, role: map[types.Object]string{}, inline: map[types.Object]inlined{}}
	// roles of parameters
	if fd.Recv != nil {
		for _, f := range fd.Recv.List {
			for _, id := range f.Names {
				n.role[info.Defs[id]] = "#recv"
			}
		}
	}
	k := 0
	for _, f := range fd.Type.Params.List {
		if len(f.Names) == 0 {
			k++
		}
		for _, id := range f.Names {
			k++
			n.role[info.Defs[id]] = fmt.Sprintf("#%d", k)
		}
	}
	// function literals, numbered in source order; their parameters
	litNo := map[*ast.FuncLit]int{}
	ast.Inspect(fd.Body, func(x ast.Node) bool {
		if fl, ok := x.(*ast.FuncLit); ok {
			litNo[fl] = len(litNo) + 1
			j := 0
			for _, f := range fl.Type.Params.List {
				if len(f.Names) == 0 {
					j++
				}
				for _, id := range f.Names {
					j++
					n.role[info.Defs[id]] = fmt.Sprintf("#f%d", j)
				}
			}
		}
		return true
	})
	// locals bound once to the result of a tracked call (`endScope := vm.BeginBoundScope()`)
	bound := map[types.Object]string{}
	ast.Inspect(fd.Body, func(x ast.Node) bool {
		as, ok := x.(*ast.AssignStmt)
		if !ok || len(as.Lhs) != 1 || len(as.Rhs) != 1 {
			return true
		}
		call, ok := as.Rhs[0].(*ast.CallExpr)
		lhs, ok2 := as.Lhs[0].(*ast.Ident)
		if !ok || !ok2 {
			return true
		}
		if id := funIdent(call.Fun); id != nil {
			if c := frameCallee(info, id); c != "" {
				if o := n.obj(lhs); o != nil {
					bound[o] = "result of " + c
				}
			}
		}
		return true
	})

	isDisp := false
	if helperOnly {
		isDisp = true
		sc.prepareOperands(n, fd, true)
	} else if dispatchFuncs[fd.Name.Name] && fd.Recv == nil && rel == "pkg/exec" {
		isDisp = true
		sc.seenDisp[fd.Name.Name] = true
		sc.prepareOperands(n, fd, false)
	}
	isPrim := !helperOnly && isPrimitive(rel, fd)

	ords := map[string]int{} // per function name and table
	next := func(table, fn string) int {
		ords[table+"|"+fn]++
		return ords[table+"|"+fn]
	}
	var stack []ast.Node
	funcOf := func(boundary int) string {
		if fl, ok := stack[boundary].(*ast.FuncLit); ok {
			name := fmt.Sprintf("%s·func%d", base, litNo[fl])
			// `defer func() { … }()` / `go func() { … }()`: the literal runs when the function returns / concurrently
			if boundary >= 2 {
				if call, ok := stack[boundary-1].(*ast.CallExpr); ok && call.Fun == ast.Expr(fl) {
					switch stack[boundary-2].(type) {
					case *ast.DeferStmt:
						name += " (deferred)"
					case *ast.GoStmt:
						name += " (go)"
					}
				}
			}
			return name
		}
		return base
	}
	pos := func(nd ast.Node) int { return fset.Position(nd.Pos()).Line }
	calledFuns := map[ast.Expr]bool{}
	stack = append(stack, fd)
	var visit func(x ast.Node) bool
	visit = func(x ast.Node) bool {
		if x == nil {
			stack = stack[:len(stack)-1]
			return true
		}
		stack = append(stack, x)
		switch v := x.(type) {
		case *ast.CallExpr:
			calledFuns[v.Fun] = true
			id := funIdent(v.Fun)
			if id == nil {
				break
			}
			if isDisp && !helperOnly && rel == "pkg/exec" && len(v.Args) == 2 {
				// a helper applied to the two operands
				if f, ok := v.Fun.(*ast.Ident); ok {
					if fo, ok := info.Uses[f].(*types.Func); ok && fo.Pkg() == pkg && n.expr(v.Args[0]) == "l" && n.expr(v.Args[1]) == "r" && takesTwoElements(fo) {
						sc.helpers[f.Name] = true
					}
				}
			}
			if helperOnly {
				break
			}
			callee := frameCallee(info, id)
			if callee == "" {
				if o := n.obj(id); o != nil && bound[o] != "" {
					callee = bound[o]
				}
			}
			if callee != "" {
				n.hole = v.Fun
				b, form, guard, exits := siteContext(n, stack)
				n.hole = nil
				fn := funcOf(b)
				sc.frames = append(sc.frames, frameSite{fn, callee, next("frame", fn), form, guard, exits, fname, pos(v)})
			}
			if isDuplicateValue(info, id) {
				arg := ""
				if len(v.Args) == 1 {
					arg = n.expr(v.Args[0])
				} else {
					arg = n.exprs(v.Args)
				}
				n.hole = v
				b, form, guard, _ := siteContext(n, stack)
				n.hole = nil
				fn := funcOf(b)
				sc.copies = append(sc.copies, copySite{fn, next("copy", fn), arg, form, guard, fname, pos(v)})
			}
		case *ast.SelectorExpr:
			if helperOnly {
				break
			}
			if !calledFuns[v] && isDuplicateValue(info, v.Sel) {
				n.hole = v
				b, form, guard, _ := siteContext(n, stack)
				n.hole = nil
				fn := funcOf(b)
				sc.copies = append(sc.copies, copySite{fn, next("copy", fn), "(function value)", form, guard, fname, pos(v)})
			}
			// a tracked method used as a value (`return scope.EndScope`)
			if !calledFuns[v] {
				if callee := frameCallee(info, v.Sel); callee != "" {
					n.hole = v
					b, form, guard, exits := siteContext(n, stack)
					n.hole = nil
					fn := funcOf(b)
					sc.frames = append(sc.frames, frameSite{fn, callee + " (method value)", next("frame", fn), form, guard, exits, fname, pos(v)})
				}
			}
		case *ast.Ident:
			if len(stack) >= 2 {
				if _, isSel := stack[len(stack)-2].(*ast.SelectorExpr); isSel {
					break
				}
			}
			if !helperOnly && !calledFuns[v] && isDuplicateValue(info, v) {
				n.hole = v
				b, form, guard, _ := siteContext(n, stack)
				n.hole = nil
				fn := funcOf(b)
				sc.copies = append(sc.copies, copySite{fn, next("copy", fn), "(function value)", form, guard, fname, pos(v)})
			}
		case *ast.ReturnStmt:
			if isDisp {
				b, _, guard, _ := siteContext(n, stack)
				fn := funcOf(b)
				sc.dispatch = append(sc.dispatch, dispatchEntry{fn, next("disp", fn), guard, n.simple(v), fname, pos(v)})
			}
		case *ast.AssignStmt:
			if isDisp && v.Tok != token.DEFINE {
				b, _, guard, _ := siteContext(n, stack)
				fn := funcOf(b)
				sc.dispatch = append(sc.dispatch, dispatchEntry{fn, next("disp", fn), guard, n.simple(v), fname, pos(v)})
			}
		}
		if isPrim {
			if st, ok := x.(ast.Stmt); ok {
				leaf := false
				switch st.(type) {
				case *ast.ExprStmt, *ast.IncDecStmt, *ast.ReturnStmt, *ast.DeferStmt, *ast.GoStmt, *ast.BranchStmt, *ast.DeclStmt:
					leaf = true
				case *ast.AssignStmt:
					// the init statement of an `if` is part of its head (written in the guard of what it guards)
					leaf = true
					if len(stack) >= 2 {
						if is, ok := stack[len(stack)-2].(*ast.IfStmt); ok && is.Init == st {
							leaf = false
						}
					}
				}
				if leaf {
					b, _, guard, _ := siteContext(n, stack)
					fn := funcOf(b)
					sc.primitives = append(sc.primitives, dispatchEntry{fn, next("prim", fn), guard, n.simple(st), fname, pos(st)})
				}
			}
		}
		return true
	}
	ast.Inspect(fd.Body, visit)
}

// prepareOperands fills n.inline for an operator function: the operands l and r, and every local defined exactly once
// by `:=` from a type assertion, a GetValue() or an expression over already inlined locals
func (sc *siteScan) prepareOperands(n *norm, fd *ast.FuncDecl, operandsAreParams bool) {
	info := n.info
	if operandsAreParams {
		k := 0
		for _, f := range fd.Type.Params.List {
			for _, id := range f.Names {
				k++
				if k == 1 {
					n.inline[info.Defs[id]] = inlined{"l", true}
				} else if k == 2 {
					n.inline[info.Defs[id]] = inlined{"r", true}
				}
			}
		}
	}
	// how often is each local written?
	writes := map[types.Object]int{}
	ast.Inspect(fd.Body, func(x ast.Node) bool {
		switch v := x.(type) {
		case *ast.AssignStmt:
			for _, l := range v.Lhs {
				if id, ok := l.(*ast.Ident); ok {
					if o := n.obj(id); o != nil {
						writes[o]++
					}
				}
			}
		case *ast.IncDecStmt:
			if id, ok := v.X.(*ast.Ident); ok {
				writes[n.obj(id)] += 2
			}
		case *ast.UnaryExpr:
			if v.Op == token.AND {
				if id, ok := v.X.(*ast.Ident); ok {
					writes[n.obj(id)] += 2
				}
			}
		case *ast.RangeStmt:
			for _, e := range []ast.Expr{v.Key, v.Value} {
				if id, ok := e.(*ast.Ident); ok {
					writes[n.obj(id)] += 2
				}
			}
		}
		return true
	})
	// definitions in source order
	ast.Inspect(fd.Body, func(x ast.Node) bool {
		as, ok := x.(*ast.AssignStmt)
		if !ok || as.Tok != token.DEFINE || len(as.Rhs) != 1 || len(as.Lhs) == 0 {
			return true
		}
		id, ok := as.Lhs[0].(*ast.Ident)
		if !ok || id.Name == "_" {
			return true
		}
		o := info.Defs[id]
		if o == nil || writes[o] != 1 {
			return true
		}
		rhs := as.Rhs[0]
		// v, err := evalExpression(vm, x.LeftExpr)
		if call, ok := rhs.(*ast.CallExpr); ok {
			if f, ok := call.Fun.(*ast.Ident); ok && f.Name == "evalExpression" && len(call.Args) == 2 && len(as.Lhs) == 2 {
				if sel, ok := call.Args[1].(*ast.SelectorExpr); ok {
					switch sel.Sel.Name {
					case "LeftExpr":
						n.inline[o] = inlined{"l", true}
					case "RightExpr":
						n.inline[o] = inlined{"r", true}
					}
				}
				return true
			}
		}
		// v, ok := w.(T)  /  v := w.(T): the same value
		if ta, ok := rhs.(*ast.TypeAssertExpr); ok && ta.Type != nil {
			if src, ok := ta.X.(*ast.Ident); ok {
				if so, ok := n.obj(src).(*types.Var); ok {
					if in, ok := n.inline[so]; ok {
						n.inline[o] = in
					}
				}
			}
			return true
		}
		if len(as.Lhs) != 1 {
			return true
		}
		// a pure expression over inlined locals, selectors and constants
		if sc.pureOver(n, rhs) {
			text := n.expr(rhs)
			_, isBin := rhs.(*ast.BinaryExpr)
			n.inline[o] = inlined{text, !isBin}
		}
		return true
	})
}

// pureOver: e mentions no local other than inlined ones and parameters, and calls nothing but GetValue / math functions
func (sc *siteScan) pureOver(n *norm, e ast.Expr) bool {
	ok := true
	ast.Inspect(e, func(x ast.Node) bool {
		switch v := x.(type) {
		case *ast.FuncLit:
			ok = false
			return false
		case *ast.CallExpr:
			sel, isSel := v.Fun.(*ast.SelectorExpr)
			if !isSel {
				ok = false
				return false
			}
			if sel.Sel.Name == "GetValue" && len(v.Args) == 0 {
				return true
			}
			if id, isId := sel.X.(*ast.Ident); isId {
				if pn, isPkg := n.obj(id).(*types.PkgName); isPkg && pn.Imported().Path() == "math" {
					return true
				}
			}
			ok = false
			return false
		case *ast.Ident:
			if o, isVar := n.obj(v).(*types.Var); isVar && !o.IsField() && o.Parent() != nil && (o.Pkg() == nil || o.Parent() != o.Pkg().Scope()) {
				if _, inl := n.inline[o]; !inl && n.role[o] == "" {
					ok = false
				}
			}
		}
		return true
	})
	return ok
}

// ---- entry point (called by genFacts once the packages are loaded) -----------------------------------------------------

func scanEvalSites(zi *znImporter, fs *factSet) {
	nfail := len(failures)
	sc := &siteScan{seenDisp: map[string]bool{}, helpers: map[string]bool{}}
	for _, rel := range sitePkgs {
		pkg, info := zi.pkgs[rel], zi.infos[rel]
		if pkg == nil || info == nil {
			fail("EvalSites", "package %s was not loaded", rel)
			continue
		}
		if len(zi.errs[rel]) > 0 {
			fail("EvalSites", "type errors in %s (identifiers cannot be resolved reliably): %s", rel, strings.Join(zi.errs[rel], "; "))
			continue
		}
		for _, f := range zi.files[rel] {
			fname := filepath.ToSlash(strings.TrimPrefix(fset.Position(f.Pos()).Filename, filepath.Clean(*repo)+"/"))
			for _, d := range f.Decls {
				if fd, ok := d.(*ast.FuncDecl); ok {
					sc.scanFunc(rel, pkg, info, fname, fd, false)
				}
			}
		}
	}
	// second pass: the helpers the operator functions apply to (l, r), expanded one level unless recursive
	if pkg, info := zi.pkgs["pkg/exec"], zi.infos["pkg/exec"]; pkg != nil && info != nil {
		for _, f := range zi.files["pkg/exec"] {
			fname := filepath.ToSlash(strings.TrimPrefix(fset.Position(f.Pos()).Filename, filepath.Clean(*repo)+"/"))
			for _, d := range f.Decls {
				fd, ok := d.(*ast.FuncDecl)
				if !ok || fd.Recv != nil || fd.Body == nil || !sc.helpers[fd.Name.Name] || dispatchFuncs[fd.Name.Name] || callsItself(info, fd) {
					continue
				}
				sc.scanFunc("pkg/exec", pkg, info, fname, fd, true)
			}
		}
	}
	// the scan must have reached the evaluator
	count := func(callee string) int {
		c := 0
		for _, s := range sc.frames {
			if s.Callee == callee {
				c++
			}
		}
		return c
	}
	if len(failures) == nfail {
		for _, must := range []string{"(*runtime.VM).PushCallFrame", "(*runtime.VM).PopCallFrame", "(*runtime.VM).BeginBoundScope",
			"(*runtime.VM).SetCurrentLine", "(*runtime.VM).SetReturnValue", "(*runtime.VM).GetReturnValue"} {
			if count(must) == 0 {
				fail("FrameSites", "no call of %s found in %v: the scan did not reach the evaluator", must, sitePkgs)
			}
		}
		if len(sc.copies) == 0 {
			fail("CopySites", "no call of value.DuplicateValue found in %v", sitePkgs)
		}
		var missing []string
		for name := range dispatchFuncs {
			if !sc.seenDisp[name] {
				missing = append(missing, name)
			}
		}
		sort.Strings(missing)
		if len(missing) > 0 {
			fail("OperatorDispatch", "operator function(s) not found in pkg/exec: %s", strings.Join(missing, ", "))
		}
		// every arithmetic / comparison / combiner entry must be written over l and r
		for _, name := range []string{"evalArithExpr", "evalArithTypeModuloExpr", "evalLogicComparator", "evalLogicCombiner"} {
			seen := false
			for _, d := range sc.dispatch {
				if d.Func == "exec."+name && hasWord(d.Stmt, "l") && hasWord(d.Stmt, "r") {
					seen = true
				}
			}
			if sc.seenDisp[name] && !seen {
				fail("OperatorDispatch", "%s: the operands (results of evalExpression on LeftExpr / RightExpr) could not be traced to any statement", name)
			}
		}
	}
	sort.SliceStable(sc.frames, func(i, j int) bool {
		if sc.frames[i].Func != sc.frames[j].Func {
			return sc.frames[i].Func < sc.frames[j].Func
		}
		return sc.frames[i].Ord < sc.frames[j].Ord
	})
	sort.SliceStable(sc.copies, func(i, j int) bool {
		if sc.copies[i].Func != sc.copies[j].Func {
			return sc.copies[i].Func < sc.copies[j].Func
		}
		return sc.copies[i].Ord < sc.copies[j].Ord
	})
	sort.SliceStable(sc.dispatch, func(i, j int) bool {
		if sc.dispatch[i].Func != sc.dispatch[j].Func {
			return sc.dispatch[i].Func < sc.dispatch[j].Func
		}
		return sc.dispatch[i].Ord < sc.dispatch[j].Ord
	})
	sort.SliceStable(sc.primitives, func(i, j int) bool {
		if sc.primitives[i].Func != sc.primitives[j].Func {
			return sc.primitives[i].Func < sc.primitives[j].Func
		}
		return sc.primitives[i].Ord < sc.primitives[j].Ord
	})
	if len(failures) == nfail && len(sc.primitives) < 10 {
		fail("FrameSites", "only %d statements found in the bodies of the tracked methods of pkg/runtime", len(sc.primitives))
	}
	fs.FrameSites, fs.CopySites, fs.OperatorDispatch, fs.FramePrimitives = sc.frames, sc.copies, sc.dispatch, sc.primitives
	fs.SiteFuncsScanned = sc.funcs
	// a table that could not be regenerated keeps its previous Lean file: the failure is the broken obligation, not a
	// half-written table (a failure of the scan as a whole, table "EvalSites", keeps all three)
	failed := map[string]bool{}
	for _, f := range failures[nfail:] {
		fs.ExtractFailures = append(fs.ExtractFailures, f.table+": "+f.msg)
		failed[f.table] = true
	}
	if failed["EvalSites"] {
		return
	}

	src := "go/types over " + strings.Join(sitePkgs, " ")
	if !failed["FrameSites"] {
		var sb strings.Builder
		sb.WriteString(header("FrameSites", src))
		sb.WriteString("/-- one call (or method-value use) of the call-frame / scope discipline. `func` = package.Function (`·funcN` = its N-th\nfunction literal), `ord` = ordinal among the recorded sites of that function, `form` = the smallest statement (head) holding\nthe site, the site written □, locals written by type `‹T›`, parameters `‹T#i›`; `guard` = enclosing constructs, outermost\nfirst; `exits` = `return` statements in the statements preceding the site in its enclosing blocks. No line numbers, no\nfile names, no names of locals. -/\n")
		sb.WriteString("structure Site where\n  func : String\n  callee : String\n  ord : Nat\n  form : String\n  guard : String\n  exits : Nat\n  deriving DecidableEq, Repr\n\n")
		sb.WriteString("def frameSites : List Site := [")
		for i, s := range sc.frames {
			if i > 0 {
				sb.WriteString(",")
			}
			fmt.Fprintf(&sb, "\n  ⟨%s, %s, %d, %s, %s, %d⟩", leanStr(s.Func), leanStr(s.Callee), s.Ord, leanStr(s.Form), leanStr(s.Guard), s.Exits)
		}
		sb.WriteString("]\n\n")
		sb.WriteString("/-- one simple statement of the body of a tracked method of VM / Scope / CallFrame (or of getCurrentCallFrame /\ngetCurrentScope / initValueStack) under its guards; the receiver is written recv -/\n")
		sb.WriteString("structure Prim where\n  func : String\n  ord : Nat\n  guard : String\n  stmt : String\n  deriving DecidableEq, Repr\n\n")
		sb.WriteString("def framePrimitives : List Prim := [")
		for i, s := range sc.primitives {
			if i > 0 {
				sb.WriteString(",")
			}
			fmt.Fprintf(&sb, "\n  ⟨%s, %d, %s, %s⟩", leanStr(s.Func), s.Ord, leanStr(s.Guard), leanStr(s.Stmt))
		}
		sb.WriteString("]\n\n")
		fmt.Fprintf(&sb, "/-- functions with a body seen by the scan in %s -/\ndef funcsScanned : Nat := %d\n", strings.Join(sitePkgs, " "), sc.funcs)
		sb.WriteString(footer("FrameSites"))
		writeIfChanged(filepath.Join(*outDir, "FrameSites.lean"), sb.String())
	}
	if !failed["CopySites"] {
		var sb strings.Builder
		sb.WriteString(header("CopySites", src))
		sb.WriteString("/-- one call of value.DuplicateValue: `arg` = the copied expression, `form` = the statement holding the call (the call\nwritten □), `guard` = enclosing constructs; conventions as in Generated/FrameSites.lean -/\n")
		sb.WriteString("structure Site where\n  func : String\n  ord : Nat\n  arg : String\n  form : String\n  guard : String\n  deriving DecidableEq, Repr\n\n")
		sb.WriteString("def copySites : List Site := [")
		for i, s := range sc.copies {
			if i > 0 {
				sb.WriteString(",")
			}
			fmt.Fprintf(&sb, "\n  ⟨%s, %d, %s, %s, %s⟩", leanStr(s.Func), s.Ord, leanStr(s.Arg), leanStr(s.Form), leanStr(s.Guard))
		}
		sb.WriteString("]\n")
		sb.WriteString(footer("CopySites"))
		writeIfChanged(filepath.Join(*outDir, "CopySites.lean"), sb.String())
	}
	if !failed["OperatorDispatch"] {
		var sb strings.Builder
		sb.WriteString(header("OperatorDispatch", src))
		sb.WriteString("/-- one `return` or plain assignment of an operator function of pkg/exec/eval.go under its guards; l and r are the\nevaluated operands (through type assertions and GetValue()), a local defined once from them is replaced by its definition -/\n")
		sb.WriteString("structure Entry where\n  func : String\n  ord : Nat\n  guard : String\n  stmt : String\n  deriving DecidableEq, Repr\n\n")
		sb.WriteString("def operatorDispatch : List Entry := [")
		for i, s := range sc.dispatch {
			if i > 0 {
				sb.WriteString(",")
			}
			fmt.Fprintf(&sb, "\n  ⟨%s, %d, %s, %s⟩", leanStr(s.Func), s.Ord, leanStr(s.Guard), leanStr(s.Stmt))
		}
		sb.WriteString("]\n")
		sb.WriteString(footer("OperatorDispatch"))
		writeIfChanged(filepath.Join(*outDir, "OperatorDispatch.lean"), sb.String())
	}
}
