module znextract

go 1.18
