package main

// Generated/FormatDFA.lean — the two hand-written switch machines of pkg/exec/format_str.go:
//
//   formatString's template scanner:
//     for idx, ch := range formatStrRune { switch ch { case '{': switch state { case from…: state = to;
//     fmtStack = append(fmtStack, …) [; formatterCount += 1]  default: return nil, err } … default: switch state {…} } }
//   parseNumberFormatter's directive machine:
//     for _, ch := range formatter { switch ch { case '+': switch state { case from…: state = to; flagX = true
//     default: return "", err } … default: if ch >= '0' && ch <= '9' { switch state { case from…: [state = to;]
//     numFixedPrecision = numFixedPrecision*10 + int(ch-'0') [; if numFixedPrecision > max { return "", err }]
//     default: return "", err } } else { return "", err } } }   [if state == s { return "", err }]*
//
// Anything that does not have exactly this shape is an EXTRACT-FAIL (a broken obligation), never a default.

import (
	"fmt"
	"go/ast"
	"go/token"
	"sort"
	"strings"
)

func localConsts(n ast.Node) constTab {
	t := constTab{}
	ast.Inspect(n, func(n ast.Node) bool {
		gd, ok := n.(*ast.GenDecl)
		if !ok || gd.Tok != token.CONST {
			return true
		}
		for _, s := range gd.Specs {
			vs := s.(*ast.ValueSpec)
			for i, nm := range vs.Names {
				if i < len(vs.Values) {
					if v, ok := litValue(vs.Values[i]); ok {
						t[nm.Name] = v
					}
				}
			}
		}
		return true
	})
	return t
}

func isIdent(e ast.Expr, name string) bool {
	id, ok := e.(*ast.Ident)
	return ok && id.Name == name
}

// `return <zero>, <call>` — an error return of a two-result function
func isErrReturn(stmts []ast.Stmt) bool {
	if len(stmts) != 1 {
		return false
	}
	rs, ok := stmts[0].(*ast.ReturnStmt)
	if !ok || len(rs.Results) != 2 {
		return false
	}
	switch z := rs.Results[0].(type) {
	case *ast.Ident:
		if z.Name != "nil" {
			return false
		}
	case *ast.BasicLit:
		if z.Value != `""` {
			return false
		}
	default:
		return false
	}
	_, ok = rs.Results[1].(*ast.CallExpr)
	return ok
}

func rangeSwitch(fn *ast.FuncDecl, over string) (*ast.RangeStmt, *ast.SwitchStmt) {
	var rs *ast.RangeStmt
	var sw *ast.SwitchStmt
	ast.Inspect(fn, func(n ast.Node) bool {
		if r, ok := n.(*ast.RangeStmt); ok && rs == nil && isIdent(r.X, over) {
			rs = r
			if len(r.Body.List) == 1 {
				if s, ok := r.Body.List[0].(*ast.SwitchStmt); ok && isIdent(s.Tag, "ch") {
					sw = s
				}
			}
			return false
		}
		return true
	})
	return rs, sw
}

func genFormatDFA() {
	const T = "FormatDFA"
	f := parseFile("pkg/exec/format_str.go")
	if f == nil {
		return
	}
	var sb strings.Builder
	sb.WriteString(header(T, "pkg/exec/format_str.go"))
	fileConsts := collectConsts(f)
	if !genScanner(T, f, fileConsts, &sb) {
		return
	}
	if !genDirective(T, f, &sb) {
		return
	}
	sb.WriteString(footer(T))
	writeIfChanged(*outDir+"/FormatDFA.lean", sb.String())
}

func emitConsts(sb *strings.Builder, prefix string, c constTab) {
	names := make([]string, 0, len(c))
	for n := range c {
		names = append(names, n)
	}
	sort.Slice(names, func(i, j int) bool {
		if c[names[i]] != c[names[j]] {
			return c[names[i]] < c[names[j]]
		}
		return names[i] < names[j]
	})
	for _, n := range names {
		fmt.Fprintf(sb, "def %s%s : Nat := %d\n", prefix, n, c[n])
	}
}

// ---- the template scanner ---------------------------------------------------------------------

func genScanner(T string, f *ast.File, fileConsts constTab, sb *strings.Builder) bool {
	fn := findFunc(f, "formatString")
	if fn == nil {
		fail(T, "formatString not found")
		return false
	}
	consts := localConsts(fn)
	for k, v := range fileConsts { // fmtTypeLiteral / fmtTypeFormatter are package-level
		if strings.HasPrefix(k, "fmtType") {
			consts[k] = v
		}
	}
	_, outer := rangeSwitch(fn, "formatStrRune")
	if outer == nil {
		fail(T, "scanner: `for idx, ch := range formatStrRune { switch ch {` not found")
		return false
	}
	// push expression: constant | idx | idx + k
	push := func(e ast.Expr) (string, bool) {
		if isIdent(e, "idx") {
			return "(1, 0)", true
		}
		if be, ok := e.(*ast.BinaryExpr); ok && be.Op == token.ADD && isIdent(be.X, "idx") {
			if k, ok := litValue(be.Y); ok {
				return fmt.Sprintf("(1, %d)", k), true
			}
		}
		if v, ok := consts.eval(T, e); ok {
			return fmt.Sprintf("(0, %d)", v), true
		}
		return "", false
	}
	sb.WriteString("-- template scanner: (character, none = every other character) ↦ [(from-states, to-state, pushed values, formatterCount += k)],\n")
	sb.WriteString("-- a pushed value (a, k) is a*idx + k; `scanStrict` lists the characters whose inner switch ends in `default: return error`\n")
	sb.WriteString("def scanCases : List (Option Nat × List (List Nat × Nat × List (Nat × Nat) × Nat)) := [\n")
	var strict []int64
	sawDefault := false
	firstCase := true
	for _, c := range outer.Body.List {
		cc := c.(*ast.CaseClause)
		key := "none"
		if cc.List != nil {
			if len(cc.List) != 1 {
				fail(T, "scanner: case with %d characters at %s", len(cc.List), fset.Position(cc.Pos()))
				return false
			}
			v, ok := consts.eval(T, cc.List[0])
			if !ok {
				return false
			}
			key = fmt.Sprintf("some 0x%X", v)
		} else {
			sawDefault = true
		}
		if len(cc.Body) != 1 {
			fail(T, "scanner: case body is not a single switch at %s", fset.Position(cc.Pos()))
			return false
		}
		inner, ok := cc.Body[0].(*ast.SwitchStmt)
		if !ok || !isIdent(inner.Tag, "state") {
			fail(T, "scanner: case body is not `switch state` at %s", fset.Position(cc.Pos()))
			return false
		}
		var rows []string
		innerDefault := false
		for _, ic := range inner.Body.List {
			icc := ic.(*ast.CaseClause)
			if icc.List == nil {
				if !isErrReturn(icc.Body) {
					fail(T, "scanner: inner default is not an error return at %s", fset.Position(icc.Pos()))
					return false
				}
				innerDefault = true
				continue
			}
			var from []int64
			for _, e := range icc.List {
				v, ok := consts.eval(T, e)
				if !ok {
					return false
				}
				from = append(from, v)
			}
			to := int64(-1)
			var pushes []string
			count := 0
			for _, st := range icc.Body {
				switch s := st.(type) {
				case *ast.AssignStmt:
					if len(s.Lhs) != 1 || len(s.Rhs) != 1 {
						fail(T, "scanner: unexpected assignment at %s", fset.Position(s.Pos()))
						return false
					}
					switch {
					case isIdent(s.Lhs[0], "state") && s.Tok == token.ASSIGN:
						v, ok := consts.eval(T, s.Rhs[0])
						if !ok {
							return false
						}
						to = v
					case isIdent(s.Lhs[0], "formatterCount") && s.Tok == token.ADD_ASSIGN:
						k, ok := litValue(s.Rhs[0])
						if !ok {
							fail(T, "scanner: formatterCount += non-literal at %s", fset.Position(s.Pos()))
							return false
						}
						count += int(k)
					case isIdent(s.Lhs[0], "fmtStack") && s.Tok == token.ASSIGN:
						call, ok := s.Rhs[0].(*ast.CallExpr)
						if !ok || !isIdent(call.Fun, "append") || len(call.Args) != 2 || !isIdent(call.Args[0], "fmtStack") {
							fail(T, "scanner: fmtStack is not assigned append(fmtStack, …) at %s", fset.Position(s.Pos()))
							return false
						}
						var elts []ast.Expr
						if cl, ok := call.Args[1].(*ast.CompositeLit); ok && call.Ellipsis.IsValid() {
							elts = cl.Elts
						} else if !call.Ellipsis.IsValid() {
							elts = []ast.Expr{call.Args[1]}
						} else {
							fail(T, "scanner: unexpected append argument at %s", fset.Position(s.Pos()))
							return false
						}
						for _, e := range elts {
							p, ok := push(e)
							if !ok {
								fail(T, "scanner: pushed value not understood at %s", fset.Position(e.Pos()))
								return false
							}
							pushes = append(pushes, p)
						}
					default:
						fail(T, "scanner: unexpected assignment at %s", fset.Position(s.Pos()))
						return false
					}
				default:
					fail(T, "scanner: unexpected statement at %s", fset.Position(st.Pos()))
					return false
				}
			}
			if to < 0 {
				fail(T, "scanner: transition without `state =` at %s", fset.Position(icc.Pos()))
				return false
			}
			rows = append(rows, fmt.Sprintf("(%s, %d, [%s], %d)", decList(from), to, strings.Join(pushes, ", "), count))
		}
		if innerDefault {
			if cc.List == nil {
				fail(T, "scanner: the default character case has an error default")
				return false
			}
			v, _ := consts.eval(T, cc.List[0])
			strict = append(strict, v)
		}
		if !firstCase {
			sb.WriteString(",\n")
		}
		firstCase = false
		fmt.Fprintf(sb, "  (%s, [%s])", key, strings.Join(rows, ", "))
	}
	sb.WriteString("\n]\n")
	if !sawDefault {
		fail(T, "scanner: outer switch without default")
		return false
	}
	fmt.Fprintf(sb, "def scanStrict : List Nat := %s\n", leanNatList(strict))
	// var state = sBegin
	begin := int64(-1)
	ast.Inspect(fn, func(n ast.Node) bool {
		if gd, ok := n.(*ast.GenDecl); ok && gd.Tok == token.VAR {
			for _, s := range gd.Specs {
				vs := s.(*ast.ValueSpec)
				if len(vs.Names) == 1 && vs.Names[0].Name == "state" && len(vs.Values) == 1 {
					if v, ok := consts.eval(T, vs.Values[0]); ok {
						begin = v
					}
				}
			}
		}
		return true
	})
	if begin < 0 {
		fail(T, "scanner: `var state = …` not found")
		return false
	}
	fmt.Fprintf(sb, "def scanBegin : Nat := %d\n", begin)
	// if state == sLiteral { fmtStack = append(fmtStack, len(formatStrRune)) }   and   if len(fmtStack)%3 != 0 { error }
	closeState := int64(-1)
	modulus := int64(-1)
	for _, st := range fn.Body.List {
		is, ok := st.(*ast.IfStmt)
		if !ok || is.Else != nil || is.Init != nil {
			continue
		}
		be, ok := is.Cond.(*ast.BinaryExpr)
		if !ok {
			continue
		}
		if be.Op == token.EQL && isIdent(be.X, "state") && len(is.Body.List) == 1 {
			if as, ok := is.Body.List[0].(*ast.AssignStmt); ok && isIdent(as.Lhs[0], "fmtStack") {
				if call, ok := as.Rhs[0].(*ast.CallExpr); ok && isIdent(call.Fun, "append") && len(call.Args) == 2 {
					if lc, ok := call.Args[1].(*ast.CallExpr); ok && isIdent(lc.Fun, "len") && isIdent(lc.Args[0], "formatStrRune") {
						if v, ok := consts.eval(T, be.Y); ok {
							closeState = v
						}
					}
				}
			}
		}
		if be.Op == token.NEQ && isErrReturn(is.Body.List) {
			if l, ok := be.X.(*ast.BinaryExpr); ok && l.Op == token.REM {
				if lc, ok := l.X.(*ast.CallExpr); ok && isIdent(lc.Fun, "len") && isIdent(lc.Args[0], "fmtStack") {
					if m, ok := litValue(l.Y); ok {
						if z, ok := litValue(be.Y); ok && z == 0 {
							modulus = m
						}
					}
				}
			}
		}
	}
	if closeState < 0 || modulus < 0 {
		fail(T, "scanner: closing `if state == sLiteral {append len}` / `if len(fmtStack)%%3 != 0 {error}` not recognised")
		return false
	}
	fmt.Fprintf(sb, "def scanCloseState : Nat := %d\n", closeState)
	fmt.Fprintf(sb, "def scanModulus : Nat := %d\n", modulus)
	emitConsts(sb, "scan_", consts)
	sb.WriteString("\n")
	return true
}

// ---- the directive machine ----------------------------------------------------------------------

var flagIds = map[string]int{"flagPositive": 0, "flagFixed": 1, "flagScientific": 2, "flagPercent": 3}

func genDirective(T string, f *ast.File, sb *strings.Builder) bool {
	fn := findFunc(f, "parseNumberFormatter")
	if fn == nil {
		fail(T, "parseNumberFormatter not found")
		return false
	}
	consts := localConsts(fn)
	_, outer := rangeSwitch(fn, "formatter")
	if outer == nil {
		fail(T, "directive: `for _, ch := range formatter { switch ch {` not found")
		return false
	}
	sb.WriteString("-- directive machine: characters ↦ [(from-states, to-state, flag set)]; flags 0 = flagPositive, 1 = flagFixed,\n")
	sb.WriteString("-- 2 = flagScientific, 3 = flagPercent; every inner switch ends in `default: return error`\n")
	sb.WriteString("def dirCases : List (List Nat × List (List Nat × Nat × Nat)) := [\n")
	firstCase := true
	var digitClause *ast.CaseClause
	for _, c := range outer.Body.List {
		cc := c.(*ast.CaseClause)
		if cc.List == nil {
			digitClause = cc
			continue
		}
		var chars []int64
		for _, e := range cc.List {
			v, ok := consts.eval(T, e)
			if !ok {
				return false
			}
			chars = append(chars, v)
		}
		if len(cc.Body) != 1 {
			fail(T, "directive: case body is not a single switch at %s", fset.Position(cc.Pos()))
			return false
		}
		inner, ok := cc.Body[0].(*ast.SwitchStmt)
		if !ok || !isIdent(inner.Tag, "state") {
			fail(T, "directive: case body is not `switch state` at %s", fset.Position(cc.Pos()))
			return false
		}
		var rows []string
		innerDefault := false
		for _, ic := range inner.Body.List {
			icc := ic.(*ast.CaseClause)
			if icc.List == nil {
				if !isErrReturn(icc.Body) {
					fail(T, "directive: inner default is not an error return at %s", fset.Position(icc.Pos()))
					return false
				}
				innerDefault = true
				continue
			}
			var from []int64
			for _, e := range icc.List {
				v, ok := consts.eval(T, e)
				if !ok {
					return false
				}
				from = append(from, v)
			}
			if len(icc.Body) != 2 {
				fail(T, "directive: transition body is not `state = …; flag… = true` at %s", fset.Position(icc.Pos()))
				return false
			}
			a1, ok1 := icc.Body[0].(*ast.AssignStmt)
			a2, ok2 := icc.Body[1].(*ast.AssignStmt)
			if !ok1 || !ok2 || a1.Tok != token.ASSIGN || a2.Tok != token.ASSIGN || !isIdent(a1.Lhs[0], "state") || !isIdent(a2.Rhs[0], "true") {
				fail(T, "directive: transition body is not `state = …; flag… = true` at %s", fset.Position(icc.Pos()))
				return false
			}
			to, ok := consts.eval(T, a1.Rhs[0])
			if !ok {
				return false
			}
			fid, ok := a2.Lhs[0].(*ast.Ident)
			if !ok {
				fail(T, "directive: flag is not an identifier at %s", fset.Position(a2.Pos()))
				return false
			}
			id, known := flagIds[fid.Name]
			if !known {
				fail(T, "directive: unknown flag %s", fid.Name)
				return false
			}
			rows = append(rows, fmt.Sprintf("(%s, %d, %d)", decList(from), to, id))
		}
		if !innerDefault {
			fail(T, "directive: inner switch without error default at %s", fset.Position(inner.Pos()))
			return false
		}
		if !firstCase {
			sb.WriteString(",\n")
		}
		firstCase = false
		fmt.Fprintf(sb, "  (%s, [%s])", leanNatList(chars), strings.Join(rows, ", "))
	}
	sb.WriteString("\n]\n")
	// default: if ch >= lo && ch <= hi { switch state {…} } else { return error }
	if digitClause == nil || len(digitClause.Body) != 1 {
		fail(T, "directive: default case is not a single if")
		return false
	}
	is, ok := digitClause.Body[0].(*ast.IfStmt)
	if !ok {
		fail(T, "directive: default case is not an if")
		return false
	}
	lo, hi := int64(-1), int64(-1)
	if be, ok := is.Cond.(*ast.BinaryExpr); ok && be.Op == token.LAND {
		l, okl := be.X.(*ast.BinaryExpr)
		r, okr := be.Y.(*ast.BinaryExpr)
		if okl && okr && l.Op == token.GEQ && r.Op == token.LEQ && isIdent(l.X, "ch") && isIdent(r.X, "ch") {
			lo, _ = litValue(l.Y)
			hi, _ = litValue(r.Y)
		}
	}
	eb, okElse := is.Else.(*ast.BlockStmt)
	if lo < 0 || hi < lo || !okElse || !isErrReturn(eb.List) || len(is.Body.List) != 1 {
		fail(T, "directive: digit test `ch >= '0' && ch <= '9' {…} else {error}` not recognised")
		return false
	}
	dsw, ok := is.Body.List[0].(*ast.SwitchStmt)
	if !ok || !isIdent(dsw.Tag, "state") || len(dsw.Body.List) != 2 {
		fail(T, "directive: digit branch is not `switch state { case …: …; default: error }`")
		return false
	}
	var digitFrom []int64
	digitTo := "none"
	maxPrec := "none"
	sawAccum := false
	for _, ic := range dsw.Body.List {
		icc := ic.(*ast.CaseClause)
		if icc.List == nil {
			if !isErrReturn(icc.Body) {
				fail(T, "directive: digit default is not an error return")
				return false
			}
			continue
		}
		for _, e := range icc.List {
			v, ok := consts.eval(T, e)
			if !ok {
				return false
			}
			digitFrom = append(digitFrom, v)
		}
		for _, st := range icc.Body {
			switch s := st.(type) {
			case *ast.AssignStmt:
				if isIdent(s.Lhs[0], "state") && s.Tok == token.ASSIGN && !sawAccum {
					v, ok := consts.eval(T, s.Rhs[0])
					if !ok {
						return false
					}
					digitTo = fmt.Sprintf("some %d", v)
				} else if isIdent(s.Lhs[0], "numFixedPrecision") && s.Tok == token.ASSIGN && isDecimalAccum(s.Rhs[0], lo) {
					sawAccum = true
				} else {
					fail(T, "directive: unexpected assignment in digit branch at %s", fset.Position(s.Pos()))
					return false
				}
			case *ast.IfStmt:
				be, ok := s.Cond.(*ast.BinaryExpr)
				if !sawAccum || !ok || be.Op != token.GTR || !isIdent(be.X, "numFixedPrecision") || !isErrReturn(s.Body.List) || s.Else != nil {
					fail(T, "directive: unexpected if in digit branch at %s", fset.Position(s.Pos()))
					return false
				}
				v, ok := consts.eval(T, be.Y)
				if !ok {
					return false
				}
				maxPrec = fmt.Sprintf("some %d", v)
			default:
				fail(T, "directive: unexpected statement in digit branch at %s", fset.Position(st.Pos()))
				return false
			}
		}
	}
	if !sawAccum || len(digitFrom) == 0 {
		fail(T, "directive: `numFixedPrecision = numFixedPrecision*10 + int(ch-'0')` not found")
		return false
	}
	fmt.Fprintf(sb, "def dirDigitLo : Nat := 0x%X\ndef dirDigitHi : Nat := 0x%X\n", lo, hi)
	fmt.Fprintf(sb, "def dirDigitFrom : List Nat := %s\n", decList(digitFrom))
	fmt.Fprintf(sb, "-- `state = …` in the digit branch (none: the state is left unchanged)\ndef dirDigitTo : Option Nat := %s\n", digitTo)
	fmt.Fprintf(sb, "-- `if numFixedPrecision > K { return error }` after the accumulation (none: no such check)\ndef dirMaxPrecision : Option Nat := %s\n", maxPrec)
	// var state = sBegin ; if state == sX { return error } after the loop
	begin := int64(-1)
	var reject []int64
	for _, st := range fn.Body.List {
		switch s := st.(type) {
		case *ast.DeclStmt:
			if gd, ok := s.Decl.(*ast.GenDecl); ok && gd.Tok == token.VAR {
				for _, sp := range gd.Specs {
					vs := sp.(*ast.ValueSpec)
					if len(vs.Names) == 1 && vs.Names[0].Name == "state" && len(vs.Values) == 1 {
						if v, ok := consts.eval(T, vs.Values[0]); ok {
							begin = v
						}
					}
				}
			}
		case *ast.IfStmt:
			if be, ok := s.Cond.(*ast.BinaryExpr); ok && be.Op == token.EQL && isIdent(be.X, "state") && isErrReturn(s.Body.List) && s.Else == nil {
				if v, ok := consts.eval(T, be.Y); ok {
					reject = append(reject, v)
				}
			}
		}
	}
	if begin < 0 {
		fail(T, "directive: `var state = …` not found")
		return false
	}
	fmt.Fprintf(sb, "def dirBegin : Nat := %d\n", begin)
	fmt.Fprintf(sb, "-- states refused at the end of the directive (`if state == s { return error }` after the loop)\ndef dirRejectFinal : List Nat := %s\n", decList(reject))
	emitConsts(sb, "dir_", consts)
	return true
}

// numFixedPrecision*10 + int(ch-'0')
func isDecimalAccum(e ast.Expr, lo int64) bool {
	be, ok := e.(*ast.BinaryExpr)
	if !ok || be.Op != token.ADD {
		return false
	}
	m, ok := be.X.(*ast.BinaryExpr)
	if !ok || m.Op != token.MUL || !isIdent(m.X, "numFixedPrecision") {
		return false
	}
	if k, ok := litValue(m.Y); !ok || k != 10 {
		return false
	}
	call, ok := be.Y.(*ast.CallExpr)
	if !ok || !isIdent(call.Fun, "int") || len(call.Args) != 1 {
		return false
	}
	d, ok := call.Args[0].(*ast.BinaryExpr)
	if !ok || d.Op != token.SUB || !isIdent(d.X, "ch") {
		return false
	}
	z, ok := litValue(d.Y)
	return ok && z == lo
}
