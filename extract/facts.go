package main

// genFacts: source FACTS needed by C11 (determinism), obtained with go/types over the interpreter packages:
//
//   mapRangeSites  every `range` statement whose operand has map type            (file, function, operand text)
//   randUses       every selector into math/rand or crypto/rand                   (file, function, "rand.Float64")
//   timeUses       every selector into package time that reads or waits on a clock (Now Since Until After Tick …)
//   percentP       every string literal containing the verb %p
//   ptrCompares    every ==/!= whose operands are both pointer/interface values of an interpreter type
//                  (identity comparison of Elements; comparisons with nil are not identity tests and are skipped)
//   goStmts        every `go` statement
//   chanRecvSelect every `select` statement (scheduler-dependent choice)
//
// The packages are type-checked from source with build tags `verif` + linux (so that pkg/server sees its pipe file
// when the hook is present); type errors are tolerated (pkg/server without the hook lacks five functions) but a
// `range` whose operand could not be typed is an EXTRACT-FAIL: an unclassifiable site is never silently dropped.

import (
	"bytes"
	"crypto/sha256"
	"encoding/hex"
	"encoding/json"
	"fmt"
	"go/ast"
	"go/build"
	"go/importer"
	"go/parser"
	"go/printer"
	"go/token"
	"go/types"
	"os"
	"path/filepath"
	"sort"
	"strings"
)

const znModule = "github.com/DemoHn/Zn/"

// packages scanned for facts (relative to the repo root)
var factPkgs = []string{
	"pkg/exec", "pkg/value", "pkg/runtime", "pkg/common", "pkg/syntax", "pkg/syntax/zh", "pkg/io", "pkg/error",
	"pkg/server", "stdlib/json", "stdlib/file",
}

type site struct {
	File string `json:"file"`
	Func string `json:"func"`
	Expr string `json:"expr"`
	Line int    `json:"line"` // informative only; never part of the Lean key
	N    int    `json:"n"`    // how many times this (file, function, expression) occurs
	// map-range sites only: "collect-sort" when the loop body is exactly `ks = append(ks, key)` (value unused) and the
	// statement right after the loop is `sort.Strings(ks)`; otherwise "body"
	Shape string `json:"shape"`
}

// rangeShape recognises the one loop shape that is order-safe by construction.
func rangeShape(info *types.Info, v *ast.RangeStmt, next ast.Stmt) string {
	key, ok := v.Key.(*ast.Ident)
	if !ok || key.Name == "_" {
		return "body"
	}
	if v.Value != nil {
		if id, ok := v.Value.(*ast.Ident); !ok || id.Name != "_" {
			return "body"
		}
	}
	if len(v.Body.List) != 1 {
		return "body"
	}
	as, ok := v.Body.List[0].(*ast.AssignStmt)
	if !ok || as.Tok != token.ASSIGN || len(as.Lhs) != 1 || len(as.Rhs) != 1 {
		return "body"
	}
	dst, ok := as.Lhs[0].(*ast.Ident)
	if !ok {
		return "body"
	}
	call, ok := as.Rhs[0].(*ast.CallExpr)
	if !ok || len(call.Args) != 2 || call.Ellipsis != token.NoPos {
		return "body"
	}
	if fn, ok := call.Fun.(*ast.Ident); !ok || fn.Name != "append" || info.Uses[fn] != types.Universe.Lookup("append") {
		return "body"
	}
	a0, ok0 := call.Args[0].(*ast.Ident)
	a1, ok1 := call.Args[1].(*ast.Ident)
	if !ok0 || !ok1 || a0.Name != dst.Name || info.Uses[a0] != info.Uses[dst] || info.Uses[a1] != info.Defs[key] {
		return "body"
	}
	// the next statement must sort exactly that slice
	es, ok := next.(*ast.ExprStmt)
	if !ok {
		return "body"
	}
	sc, ok := es.X.(*ast.CallExpr)
	if !ok || len(sc.Args) != 1 {
		return "body"
	}
	sel, ok := sc.Fun.(*ast.SelectorExpr)
	if !ok || sel.Sel.Name != "Strings" {
		return "body"
	}
	pk, ok := sel.X.(*ast.Ident)
	if !ok {
		return "body"
	}
	if pn, ok := info.Uses[pk].(*types.PkgName); !ok || pn.Imported().Path() != "sort" {
		return "body"
	}
	if arg, ok := sc.Args[0].(*ast.Ident); !ok || info.Uses[arg] != info.Uses[dst] {
		return "body"
	}
	return "collect-sort"
}

// nextStmts maps every range statement to the statement that follows it in its block (nil at the end of a block).
func nextStmts(root ast.Node) map[*ast.RangeStmt]ast.Stmt {
	m := map[*ast.RangeStmt]ast.Stmt{}
	visit := func(list []ast.Stmt) {
		for i, st := range list {
			if rs, ok := st.(*ast.RangeStmt); ok && i+1 < len(list) {
				m[rs] = list[i+1]
			}
		}
	}
	ast.Inspect(root, func(n ast.Node) bool {
		switch b := n.(type) {
		case *ast.BlockStmt:
			visit(b.List)
		case *ast.CaseClause:
			visit(b.Body)
		case *ast.CommClause:
			visit(b.Body)
		}
		return true
	})
	return m
}

type znImporter struct {
	std   types.Importer
	pkgs  map[string]*types.Package
	infos map[string]*types.Info
	files map[string][]*ast.File
	errs  map[string][]string
	ctx   build.Context
}

func newZnImporter() *znImporter {
	ctx := build.Default
	ctx.GOOS = "linux"
	ctx.CgoEnabled = false
	ctx.BuildTags = append([]string{"verif"}, ctx.BuildTags...)
	build.Default.CgoEnabled = false // the "source" importer consults build.Default
	return &znImporter{
		std:   importer.ForCompiler(fset, "source", nil),
		pkgs:  map[string]*types.Package{},
		infos: map[string]*types.Info{},
		files: map[string][]*ast.File{},
		errs:  map[string][]string{},
		ctx:   ctx,
	}
}

func (zi *znImporter) Import(path string) (*types.Package, error) {
	if strings.HasPrefix(path, znModule) {
		return zi.load(strings.TrimPrefix(path, znModule))
	}
	return zi.std.Import(path)
}

func (zi *znImporter) load(rel string) (*types.Package, error) {
	if p, ok := zi.pkgs[rel]; ok {
		if p == nil {
			return nil, fmt.Errorf("import cycle through %s", rel)
		}
		return p, nil
	}
	zi.pkgs[rel] = nil
	dir := filepath.Join(*repo, rel)
	ents, err := os.ReadDir(dir)
	if err != nil {
		return nil, err
	}
	var files []*ast.File
	for _, e := range ents {
		n := e.Name()
		if e.IsDir() || !strings.HasSuffix(n, ".go") || strings.HasSuffix(n, "_test.go") {
			continue
		}
		if ok, err := zi.ctx.MatchFile(dir, n); err != nil || !ok {
			continue
		}
		f, err := parser.ParseFile(fset, filepath.Join(dir, n), nil, parser.ParseComments)
		if err != nil {
			return nil, err
		}
		files = append(files, f)
	}
	if len(files) == 0 {
		return nil, fmt.Errorf("no Go files in %s", rel)
	}
	info := &types.Info{
		Types: map[ast.Expr]types.TypeAndValue{},
		Uses:  map[*ast.Ident]types.Object{},
		Defs:  map[*ast.Ident]types.Object{},
	}
	conf := types.Config{
		Importer: zi,
		Error: func(err error) {
			zi.errs[rel] = append(zi.errs[rel], err.Error())
		},
		FakeImportC: true,
	}
	pkg, _ := conf.Check(znModule+rel, fset, files, info)
	zi.pkgs[rel] = pkg
	zi.infos[rel] = info
	zi.files[rel] = files
	return pkg, nil
}

func exprText(e ast.Expr) string {
	var b bytes.Buffer
	printer.Fprint(&b, fset, e)
	return strings.Join(strings.Fields(b.String()), " ")
}

func funcName(fd *ast.FuncDecl) string {
	if fd.Recv == nil || len(fd.Recv.List) == 0 {
		return fd.Name.Name
	}
	return "(" + exprText(fd.Recv.List[0].Type) + ")." + fd.Name.Name
}

// isZnValueType: pointer / interface types declared in the interpreter's own packages (Elements, models, modules…)
func isZnRefType(t types.Type) bool {
	if t == nil {
		return false
	}
	if p, ok := t.(*types.Pointer); ok {
		t = p.Elem()
	} else if _, ok := t.Underlying().(*types.Interface); !ok {
		return false
	}
	n, ok := t.(*types.Named)
	if !ok || n.Obj().Pkg() == nil {
		return false
	}
	return strings.HasPrefix(n.Obj().Pkg().Path(), znModule)
}

var clockFuncs = map[string]bool{"Now": true, "Since": true, "Until": true, "After": true, "Tick": true,
	"NewTicker": true, "NewTimer": true, "Sleep": true, "AfterFunc": true}

type factSet struct {
	MapRangeSites  []site `json:"mapRangeSites"`
	RandUses       []site `json:"randUses"`
	TimeUses       []site `json:"timeUses"`
	PercentP       []site `json:"percentP"`
	PtrCompares    []site `json:"ptrCompares"`
	GoStmts        []site `json:"goStmts"`
	SelectStmts    []site `json:"selectStmts"`
	TypeErrors     map[string][]string `json:"typeErrors"`
	Packages       []string `json:"packages"`
	RangeStmtTotal int    `json:"rangeStmtTotal"`
	// sha256 of the comment-free printed text of every function that holds a map-range site or is modelled by hand for
	// C11; a changed fingerprint is reported in the evidence and raises the repetition budget, it is never a verdict
	Fingerprints map[string]string `json:"fingerprints"`
	// site inventories of the evaluator (sites.go): Generated/FrameSites.lean, CopySites.lean, OperatorDispatch.lean
	FrameSites       []frameSite     `json:"frameSites"`
	CopySites        []copySite      `json:"copySites"`
	OperatorDispatch []dispatchEntry `json:"operatorDispatch"`
	FramePrimitives  []dispatchEntry `json:"framePrimitives"`
	SiteFuncsScanned int             `json:"siteFuncsScanned"`
	// failed regenerations of this scan (the previous Lean file of that table was kept)
	ExtractFailures []string `json:"extractFailures"`
}

var c11ModelledFuncs = map[string]bool{"compareLogicXEQ": true, "CompareValues": true, "NewObject": true,
	"evalImportStmt": true, "buildIncomingRequest": true, "buildFirstValueDict": true, "sendHTTPResponse": true,
	"ExecExpressionInputText": true, "hmGetAllIndexes": true, "hmGetAllValues": true, "(*HashMap).String": true,
	"(*HashMap).AppendKVPair": true, "DuplicateValue": true}

func fingerprint(fd *ast.FuncDecl) string {
	cp := *fd
	cp.Doc = nil
	var b bytes.Buffer
	printer.Fprint(&b, fset, &cp)
	h := sha256.Sum256(b.Bytes())
	return hex.EncodeToString(h[:8])
}

// factsStamp: hash of every scanned source file (name + content). Type-checking net/http from source costs ~10 s, so the
// scan is skipped when neither the sources nor the generated file changed since the last successful scan.
const factsVersion = "facts-v7"

func factsStamp() string {
	h := sha256.New()
	h.Write([]byte(factsVersion))
	// the extractor itself: a rebuilt znextract rescans (the scan's logic may have changed)
	if exe, err := os.Executable(); err == nil {
		if b, err := os.ReadFile(exe); err == nil {
			x := sha256.Sum256(b)
			h.Write(x[:])
		}
	}
	for _, rel := range factPkgs {
		ents, _ := os.ReadDir(filepath.Join(*repo, rel))
		for _, e := range ents {
			if e.IsDir() || !strings.HasSuffix(e.Name(), ".go") {
				continue
			}
			b, _ := os.ReadFile(filepath.Join(*repo, rel, e.Name()))
			fmt.Fprintf(h, "\x00%s/%s\x00%d\x00", rel, e.Name(), len(b))
			h.Write(b)
		}
	}
	return hex.EncodeToString(h.Sum(nil))
}

func fileHash(p string) string {
	b, err := os.ReadFile(p)
	if err != nil {
		return "missing"
	}
	s := sha256.Sum256(b)
	return hex.EncodeToString(s[:])
}

func genFacts() {
	leanPath := filepath.Join(*outDir, "Facts.lean")
	// every Lean file this scan writes: an edited or missing one is regenerated
	outHashes := func() string {
		h := fileHash(leanPath)
		for _, n := range []string{"FrameSites.lean", "CopySites.lean", "OperatorDispatch.lean"} {
			h += " " + fileHash(filepath.Join(*outDir, n))
		}
		return h
	}
	stampPath := ""
	stamp := ""
	if *facts != "" {
		stampPath = *facts + ".stamp"
		stamp = factsStamp()
		if old, err := os.ReadFile(stampPath); err == nil && string(old) == stamp+" "+outHashes()+" "+fileHash(*facts) {
			return
		}
	}
	nfail := len(failures)
	zi := newZnImporter()
	var fs factSet
	fs.Packages = factPkgs
	fs.TypeErrors = map[string][]string{}
	fs.Fingerprints = map[string]string{}
	for _, rel := range factPkgs {
		if _, err := zi.load(rel); err != nil {
			fail("Facts", "cannot load %s: %v", rel, err)
			continue
		}
		info := zi.infos[rel]
		if len(zi.errs[rel]) > 0 {
			fs.TypeErrors[rel] = zi.errs[rel]
		}
		for _, f := range zi.files[rel] {
			fname := filepath.ToSlash(strings.TrimPrefix(fset.Position(f.Pos()).Filename, filepath.Clean(*repo)+"/"))
			scan := func(fn string, root ast.Node) {
				following := nextStmts(root)
				add := func(dst *[]site, n ast.Node, text string) {
					*dst = append(*dst, site{fname, fn, text, fset.Position(n.Pos()).Line, 1, ""})
				}
				ast.Inspect(root, func(n ast.Node) bool {
					switch v := n.(type) {
					case *ast.RangeStmt:
						fs.RangeStmtTotal++
						tv, ok := info.Types[v.X]
						if !ok || tv.Type == nil || tv.Type == types.Typ[types.Invalid] {
							fail("Facts", "%s:%d: cannot type the operand of `range %s` (in %s)", fname, fset.Position(v.Pos()).Line, exprText(v.X), fn)
							return true
						}
						if _, isMap := tv.Type.Underlying().(*types.Map); isMap {
							add(&fs.MapRangeSites, v, exprText(v.X))
							fs.MapRangeSites[len(fs.MapRangeSites)-1].Shape = rangeShape(info, v, following[v])
						}
					case *ast.SelectorExpr:
						if id, ok := v.X.(*ast.Ident); ok {
							if pn, ok := info.Uses[id].(*types.PkgName); ok {
								switch pn.Imported().Path() {
								case "math/rand", "crypto/rand", "math/rand/v2":
									add(&fs.RandUses, v, "rand."+v.Sel.Name)
								case "time":
									if clockFuncs[v.Sel.Name] {
										add(&fs.TimeUses, v, "time."+v.Sel.Name)
									}
								}
							}
						}
					case *ast.BasicLit:
						if v.Kind == token.STRING && strings.Contains(v.Value, "%p") {
							add(&fs.PercentP, v, "%p")
						}
					case *ast.BinaryExpr:
						if v.Op == token.EQL || v.Op == token.NEQ {
							lt, rt := info.Types[v.X], info.Types[v.Y]
							if lt.IsNil() || rt.IsNil() {
								return true
							}
							if isZnRefType(lt.Type) && isZnRefType(rt.Type) {
								// error values are compared by identity only against nil (skipped above)
								add(&fs.PtrCompares, v, exprText(v))
							}
						}
					case *ast.GoStmt:
						t := exprText(v.Call.Fun)
						if _, isLit := v.Call.Fun.(*ast.FuncLit); isLit {
							t = "func literal"
						}
						add(&fs.GoStmts, v, "go "+t)
					case *ast.SelectStmt:
						add(&fs.SelectStmts, v, "select")
					}
					return true
				})
			}
			for _, d := range f.Decls {
				switch dd := d.(type) {
				case *ast.FuncDecl:
					before := len(fs.MapRangeSites)
					scan(funcName(dd), dd)
					// every function of the scanned packages is fingerprinted; the per-property lists of modelled functions
					// live in tools/fingerprints.json (a changed fingerprint is evidence + a larger budget, never a verdict)
					_ = before
					if dd.Body != nil {
						fs.Fingerprints[fname+"|"+funcName(dd)] = fingerprint(dd)
					}
				default:
					scan("<package-level>", dd)
				}
			}
		}
	}
	norm := func(s []site) []site {
		sort.SliceStable(s, func(i, j int) bool {
			a, b := s[i], s[j]
			if a.File != b.File {
				return a.File < b.File
			}
			if a.Func != b.Func {
				return a.Func < b.Func
			}
			if a.Expr != b.Expr {
				return a.Expr < b.Expr
			}
			return a.Shape < b.Shape
		})
		var out []site
		for i, x := range s {
			if i > 0 && x.File == s[i-1].File && x.Func == s[i-1].Func && x.Expr == s[i-1].Expr && x.Shape == s[i-1].Shape {
				out[len(out)-1].N++
				continue
			}
			x.N = 1
			out = append(out, x)
		}
		return out
	}
	fs.MapRangeSites, fs.RandUses, fs.TimeUses = norm(fs.MapRangeSites), norm(fs.RandUses), norm(fs.TimeUses)
	fs.PercentP, fs.PtrCompares, fs.GoStmts, fs.SelectStmts = norm(fs.PercentP), norm(fs.PtrCompares), norm(fs.GoStmts), norm(fs.SelectStmts)
	if fs.RangeStmtTotal < 50 {
		fail("Facts", "only %d range statements seen in %v: the scan did not reach the sources", fs.RangeStmtTotal, factPkgs)
	}

	var sb strings.Builder
	sb.WriteString(header("Facts", "go/types over "+strings.Join(factPkgs, " ")))
	sb.WriteString("/-- a source location class: (file, enclosing function, expression text, number of occurrences, loop shape for map ranges:\n`collect-sort` = body is `ks = append(ks, key)` and the next statement is `sort.Strings(ks)`, else `body`); line numbers are deliberately absent -/\n")
	sb.WriteString("structure Site where\n  file : String\n  func : String\n  expr : String\n  n : Nat\n  shape : String := \"\"\n  deriving DecidableEq, Repr\n\n")
	emit := func(name, doc string, s []site) {
		fmt.Fprintf(&sb, "/-- %s -/\ndef %s : List Site := [", doc, name)
		for i, x := range s {
			if i > 0 {
				sb.WriteString(",")
			}
			fmt.Fprintf(&sb, "\n  ⟨%s, %s, %s, %d, %s⟩", leanStr(x.File), leanStr(x.Func), leanStr(x.Expr), x.N, leanStr(x.Shape))
		}
		sb.WriteString("]\n\n")
	}
	emit("mapRangeSites", "every `range` statement whose operand has map type", fs.MapRangeSites)
	emit("randUses", "every use of math/rand or crypto/rand", fs.RandUses)
	emit("timeUses", "every use of a clock function of package time", fs.TimeUses)
	emit("percentP", "every string literal containing %p", fs.PercentP)
	emit("ptrCompares", "every ==/!= between two non-nil pointer/interface values of interpreter types", fs.PtrCompares)
	emit("goStmts", "every `go` statement", fs.GoStmts)
	emit("selectStmts", "every `select` statement", fs.SelectStmts)
	fmt.Fprintf(&sb, "def rangeStmtTotal : Nat := %d\n", fs.RangeStmtTotal)
	sb.WriteString(footer("Facts"))
	writeIfChanged(leanPath, sb.String())

	// the evaluator's site inventories, from the same type-checked packages
	scanEvalSites(zi, &fs)

	if *facts != "" {
		b, _ := json.MarshalIndent(fs, "", " ")
		writeIfChanged(*facts, string(b)+"\n")
		if len(failures) == nfail {
			os.WriteFile(stampPath, []byte(stamp+" "+outHashes()+" "+fileHash(*facts)), 0o644)
		} else {
			os.Remove(stampPath)
		}
	}
}

func leanStr(s string) string {
	var sb strings.Builder
	sb.WriteByte('"')
	for _, r := range s {
		switch {
		case r == '"':
			sb.WriteString("\\\"")
		case r == '\\':
			sb.WriteString("\\\\")
		case r == '\n':
			sb.WriteString("\\n")
		case r == '\t':
			sb.WriteString("\\t")
		case r < 0x20:
			fmt.Fprintf(&sb, "\\x%02x", r)
		default:
			sb.WriteRune(r)
		}
	}
	sb.WriteByte('"')
	return sb.String()
}
