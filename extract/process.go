package main

import (
	"fmt"
	"go/ast"
	"strings"
)

// genProcessFacts: what is shared between executions in one process (C16).
//   - NewGlobalValues: for every predefined name, is its value built by a call (fresh per execution) or is it a
//     package-level variable (shared)?  and which constructor builds it (decides the kind)
//   - Execute / ExecVarInputText / ExecExpressionInputText: InitVM must be fed by NewGlobalValues()
//   - LoadScript / LoadFile: first statement must be `z = z.clone()`
func genProcessFacts() {
	const T = "Process"
	fg := parseFile("pkg/exec/globals.go")
	fi := parseFile("pkg/exec/interpreter.go")
	fv := parseFile("pkg/exec/exec_varinput.go")
	if fg == nil || fi == nil || fv == nil {
		return
	}
	var sb strings.Builder
	sb.WriteString(header(T, "pkg/exec/globals.go", "pkg/exec/interpreter.go", "pkg/exec/exec_varinput.go"))

	fn := findFunc(fg, "NewGlobalValues")
	if fn == nil {
		fail(T, "NewGlobalValues not found")
		return
	}
	var lit *ast.CompositeLit
	ast.Inspect(fn, func(n ast.Node) bool {
		if rs, ok := n.(*ast.ReturnStmt); ok && len(rs.Results) == 1 {
			if cl, ok := rs.Results[0].(*ast.CompositeLit); ok {
				lit = cl
			}
		}
		return true
	})
	if lit == nil {
		fail(T, "NewGlobalValues does not return a map literal")
		return
	}
	sb.WriteString("-- (name, built by a call inside NewGlobalValues = fresh per execution, constructor or variable text)\n")
	sb.WriteString("def globals : List (String × Bool × String) := [\n")
	for i, el := range lit.Elts {
		kv, ok := el.(*ast.KeyValueExpr)
		if !ok {
			fail(T, "entry %d is not key:value", i)
			return
		}
		key, ok := kv.Key.(*ast.BasicLit)
		if !ok {
			fail(T, "entry %d key is not a literal", i)
			return
		}
		fresh := false
		ctor := ""
		switch v := kv.Value.(type) {
		case *ast.CallExpr:
			fresh = true
			ctor = exprText(v.Fun)
		case *ast.UnaryExpr: // &value.Number{}
			if cl, ok := v.X.(*ast.CompositeLit); ok {
				fresh = true
				ctor = "&" + exprText(cl.Type)
			}
		case *ast.Ident:
			ctor = v.Name
		default:
			fail(T, "entry %d has an unrecognised value", i)
			return
		}
		sep := ","
		if i == len(lit.Elts)-1 {
			sep = ""
		}
		fmt.Fprintf(&sb, "  (%s, %v, \"%s\")%s\n", key.Value, fresh, ctor, sep)
	}
	sb.WriteString("]\n\n")

	// shared package-level values: how are they built?
	sb.WriteString("-- package-level values referenced by NewGlobalValues and the constructor that builds each\n")
	sb.WriteString("def sharedCtors : List (String × String) := [")
	first := true
	for _, el := range lit.Elts {
		kv := el.(*ast.KeyValueExpr)
		if id, ok := kv.Value.(*ast.Ident); ok {
			v := findVar(fg, id.Name)
			c := "?"
			if call, ok := v.(*ast.CallExpr); ok {
				c = exprText(call.Fun)
			}
			if !first {
				sb.WriteString(", ")
			}
			first = false
			fmt.Fprintf(&sb, "(\"%s\", \"%s\")", id.Name, c)
		}
	}
	sb.WriteString("]\n\n")

	// InitVM(NewGlobalValues()) at every VM creation in pkg/exec
	count, good := 0, 0
	for _, f := range []*ast.File{fi, fv} {
		ast.Inspect(f, func(n ast.Node) bool {
			call, ok := n.(*ast.CallExpr)
			if !ok {
				return true
			}
			if exprText(call.Fun) == "r.InitVM" && len(call.Args) == 1 {
				count++
				if c2, ok := call.Args[0].(*ast.CallExpr); ok && exprText(c2.Fun) == "NewGlobalValues" {
					good++
				}
			}
			return true
		})
	}
	fmt.Fprintf(&sb, "def initVMSites : Nat := %d\ndef initVMSitesFresh : Nat := %d\n\n", count, good)

	// LoadScript / LoadFile start with z = z.clone()
	for _, name := range []string{"LoadScript", "LoadFile"} {
		ok := false
		for _, d := range fi.Decls {
			fd, isF := d.(*ast.FuncDecl)
			if !isF || fd.Name.Name != name || fd.Recv == nil || len(fd.Body.List) == 0 {
				continue
			}
			if as, isA := fd.Body.List[0].(*ast.AssignStmt); isA && len(as.Lhs) == 1 && len(as.Rhs) == 1 {
				if exprText(as.Lhs[0]) == "z" && exprText(as.Rhs[0]) == "z.clone()" {
					ok = true
				}
			}
		}
		fmt.Fprintf(&sb, "def %sClones : Bool := %v\n", strings.ToLower(name[:1])+name[1:], ok)
	}
	// clone must be a plain struct copy
	cl := false
	for _, d := range fi.Decls {
		fd, isF := d.(*ast.FuncDecl)
		if isF && fd.Name.Name == "clone" && len(fd.Body.List) == 2 {
			if as, ok := fd.Body.List[0].(*ast.AssignStmt); ok && exprText(as.Rhs[0]) == "*z" {
				cl = true
			}
		}
	}
	fmt.Fprintf(&sb, "def cloneIsStructCopy : Bool := %v\n", cl)
	sb.WriteString(footer(T))
	writeIfChanged(*outDir+"/Process.lean", sb.String())
}
