package main

// genMembers: Generated/Members.lean — every name a Zn program (or a host) can apply to a value:
//
//   members          (type, kind, name, Go function)  from the `map[string]…Func{…}` literals, the
//                    `name == "…"` tests and the `switch name { case "…" }` clauses inside
//                    GetProperty / SetProperty / ExecMethod of every type of pkg/value
//   types            every receiver type of pkg/value that has these three methods
//   constructables   types with a Construct method
//   libraries        RegisterFunction / RegisterClass calls of stdlib/json, stdlib/file
//   globals          keys of `globalValues` in pkg/exec/globals.go
//   classes          value.NewClassModel("…").DefineProperty("…", …)… chains of pkg/common, with the
//                    ValidateLeastParams patterns of their constructors
//   validateCalls    every Validate{Exact,Least,All}Params call with its literal patterns
//   nilReturnSites   every `return nil, nil` inside the scanned packages (a nil element handed to the caller)
//   castAfterFailedTest  the unguarded `v.(*GoValue)` of validateOneParam: is it still there, and guarded?

import (
	"fmt"
	"go/ast"
	"go/token"
	"os"
	"path/filepath"
	"sort"
	"strconv"
	"strings"
)

type memberRow struct{ typ, kind, name, fn string }

func mbLeanStr(s string) string {
	var sb strings.Builder
	sb.WriteByte('"')
	for _, r := range s {
		switch {
		case r == '"':
			sb.WriteString("\\\"")
		case r == '\\':
			sb.WriteString("\\\\")
		case r == '\n':
			sb.WriteString("\\n")
		case r < 0x20:
			fmt.Fprintf(&sb, "\\x%02x", r)
		default:
			sb.WriteRune(r)
		}
	}
	sb.WriteByte('"')
	return sb.String()
}

func mbLeanStrList(xs []string) string {
	q := make([]string, len(xs))
	for i, x := range xs {
		q[i] = mbLeanStr(x)
	}
	return "[" + strings.Join(q, ", ") + "]"
}

func mbStrLit(e ast.Expr) (string, bool) {
	bl, ok := e.(*ast.BasicLit)
	if !ok || bl.Kind != token.STRING {
		return "", false
	}
	s, err := strconv.Unquote(bl.Value)
	return s, err == nil
}

func mbRecvTypeName(fd *ast.FuncDecl) string {
	if fd.Recv == nil || len(fd.Recv.List) != 1 {
		return ""
	}
	t := fd.Recv.List[0].Type
	if st, ok := t.(*ast.StarExpr); ok {
		t = st.X
	}
	if id, ok := t.(*ast.Ident); ok {
		return id.Name
	}
	return ""
}

func mbGoFiles(rel string) []string {
	ents, err := os.ReadDir(filepath.Join(*repo, rel))
	if err != nil {
		fail("Members", "cannot list %s: %v", rel, err)
		return nil
	}
	var out []string
	for _, e := range ents {
		n := e.Name()
		if strings.HasSuffix(n, ".go") && !strings.HasSuffix(n, "_test.go") {
			out = append(out, filepath.Join(rel, n))
		}
	}
	sort.Strings(out)
	return out
}

var kindOfMethod = map[string]string{"GetProperty": "g", "SetProperty": "s", "ExecMethod": "m"}

// typeTag: Go type name -> the tag used by the model and the harness
var typeTag = map[string]string{
	"Array": "array", "HashMap": "hashmap", "String": "string", "Number": "number", "Bool": "bool",
	"Null": "null", "Object": "object", "ClassModel": "class", "Function": "function",
	"Exception": "exception", "GoValue": "govalue",
}

// namesOfDispatch collects the member names a GetProperty/SetProperty/ExecMethod body dispatches on.
// The first parameter of the method is the member name.
func namesOfDispatch(fd *ast.FuncDecl) (rows [][2]string, dynamic bool) {
	if fd.Type.Params == nil || len(fd.Type.Params.List) == 0 || len(fd.Type.Params.List[0].Names) == 0 {
		fail("Members", "%s.%s: no name parameter", mbRecvTypeName(fd), fd.Name.Name)
		return
	}
	param := fd.Type.Params.List[0].Names[0].Name
	isParam := func(e ast.Expr) bool {
		id, ok := e.(*ast.Ident)
		return ok && id.Name == param
	}
	ast.Inspect(fd.Body, func(n ast.Node) bool {
		switch v := n.(type) {
		case *ast.CompositeLit:
			mt, ok := v.Type.(*ast.MapType)
			if !ok {
				return true
			}
			if k, ok := mt.Key.(*ast.Ident); !ok || k.Name != "string" {
				return true
			}
			for _, el := range v.Elts {
				kv, ok := el.(*ast.KeyValueExpr)
				if !ok {
					fail("Members", "%s.%s: map element is not key: value at %s", mbRecvTypeName(fd), fd.Name.Name, fset.Position(el.Pos()))
					continue
				}
				k, ok := mbStrLit(kv.Key)
				if !ok {
					fail("Members", "%s.%s: map key is not a string literal at %s", mbRecvTypeName(fd), fd.Name.Name, fset.Position(kv.Key.Pos()))
					continue
				}
				fn := "?"
				if id, ok := kv.Value.(*ast.Ident); ok {
					fn = id.Name
				}
				rows = append(rows, [2]string{k, fn})
			}
			return false
		case *ast.BinaryExpr:
			if v.Op == token.EQL {
				if isParam(v.X) {
					if s, ok := mbStrLit(v.Y); ok {
						rows = append(rows, [2]string{s, "inline"})
					}
				} else if isParam(v.Y) {
					if s, ok := mbStrLit(v.X); ok {
						rows = append(rows, [2]string{s, "inline"})
					}
				}
			}
		case *ast.SwitchStmt:
			if v.Tag != nil && isParam(v.Tag) {
				for _, c := range v.Body.List {
					cc := c.(*ast.CaseClause)
					for _, e := range cc.List {
						if s, ok := mbStrLit(e); ok {
							rows = append(rows, [2]string{s, "inline"})
						} else {
							fail("Members", "%s.%s: switch case is not a string literal at %s", mbRecvTypeName(fd), fd.Name.Name, fset.Position(e.Pos()))
						}
					}
				}
			}
		case *ast.IndexExpr:
			// zo.propList[name], zo.model.FindMethod(name): user-defined members, looked up dynamically
			if isParam(v.Index) {
				if _, isMapLit := v.X.(*ast.CompositeLit); !isMapLit {
					if id, ok := v.X.(*ast.Ident); !ok || !strings.HasSuffix(id.Name, "Map") {
						dynamic = true
					}
				}
			}
		case *ast.CallExpr:
			if sel, ok := v.Fun.(*ast.SelectorExpr); ok && (sel.Sel.Name == "FindMethod" || sel.Sel.Name == "FindCompProp") {
				dynamic = true
			}
		}
		return true
	})
	return
}

func genMembers() {
	const T = "Members"
	var members []memberRow
	typeSet := map[string]map[string]bool{} // type -> set of kinds seen
	var constructables []string
	var dynamicTypes []string
	type vcall struct {
		where, kind string
		pats        []string
		literal     bool
	}
	var vcalls []vcall
	type nilSite struct {
		file, fn string
		line     int
	}
	var nilSites []nilSite
	castGuard := "absent"

	scanPkgs := []string{"pkg/value", "pkg/common", "stdlib/json", "stdlib/file"}
	scanFiles := []string{"pkg/exec/globals.go", "pkg/exec/exec_varinput.go"}
	var all []string
	for _, p := range scanPkgs {
		all = append(all, mbGoFiles(p)...)
	}
	all = append(all, scanFiles...)

	type libReg struct{ lib, kind, name string }
	var libs []libReg
	type classDef struct {
		name  string
		props []string
		ctor  string
	}
	var classes []classDef
	ctorPatterns := map[string][]string{}

	for _, rel := range all {
		f := parseFile(rel)
		if f == nil {
			continue
		}
		// string constants of the file (library names)
		strConsts := map[string]string{}
		for _, d := range f.Decls {
			gd, ok := d.(*ast.GenDecl)
			if !ok || gd.Tok != token.CONST {
				continue
			}
			for _, s := range gd.Specs {
				vs := s.(*ast.ValueSpec)
				for i, nm := range vs.Names {
					if i < len(vs.Values) {
						if s, ok := mbStrLit(vs.Values[i]); ok {
							strConsts[nm.Name] = s
						}
					}
				}
			}
		}
		inValue := strings.HasPrefix(rel, "pkg/value/")
		for _, d := range f.Decls {
			fd, ok := d.(*ast.FuncDecl)
			if !ok || fd.Body == nil {
				continue
			}
			fname := fd.Name.Name
			rt := mbRecvTypeName(fd)
			if rt != "" {
				fname = rt + "." + fname
			}
			// member tables
			if inValue && rt != "" {
				if k, ok := kindOfMethod[fd.Name.Name]; ok {
					tag, known := typeTag[rt]
					if !known {
						tag = "go:" + rt // a new value type: no model knows it
					}
					if typeSet[tag] == nil {
						typeSet[tag] = map[string]bool{}
					}
					typeSet[tag][k] = true
					rows, dyn := namesOfDispatch(fd)
					for _, r := range rows {
						members = append(members, memberRow{tag, k, r[0], r[1]})
					}
					if dyn {
						dynamicTypes = append(dynamicTypes, tag+":"+k)
					}
				}
				if fd.Name.Name == "Construct" {
					tag, known := typeTag[rt]
					if !known {
						tag = "go:" + rt
					}
					constructables = append(constructables, tag)
				}
			}
			// validate calls, nil returns, library registrations, the golang: cast
			ast.Inspect(fd.Body, func(n ast.Node) bool {
				switch v := n.(type) {
				case *ast.ReturnStmt:
					if len(v.Results) == 2 {
						a, ok1 := v.Results[0].(*ast.Ident)
						b, ok2 := v.Results[1].(*ast.Ident)
						if ok1 && ok2 && a.Name == "nil" && b.Name == "nil" {
							nilSites = append(nilSites, nilSite{rel, fname, fset.Position(v.Pos()).Line})
						}
					}
				case *ast.CallExpr:
					name := ""
					switch fn := v.Fun.(type) {
					case *ast.Ident:
						name = fn.Name
					case *ast.SelectorExpr:
						name = fn.Sel.Name
					}
					switch name {
					case "ValidateExactParams", "ValidateLeastParams", "ValidateAllParams":
						c := vcall{where: fname, kind: strings.TrimSuffix(strings.TrimPrefix(name, "Validate"), "Params"), literal: true}
						for _, a := range v.Args[1:] {
							if s, ok := mbStrLit(a); ok {
								c.pats = append(c.pats, s)
							} else {
								c.literal = false
							}
						}
						if !c.literal && !(inValue && strings.HasPrefix(fd.Name.Name, "Validate")) {
							fail(T, "%s: %s with a non-literal type string at %s", fname, name, fset.Position(v.Pos()))
						}
						if c.literal {
							vcalls = append(vcalls, c)
							if name == "ValidateLeastParams" {
								ctorPatterns[fd.Name.Name] = c.pats
							}
						}
					case "RegisterFunction", "RegisterClass":
						if len(v.Args) == 2 {
							if s, ok := mbStrLit(v.Args[0]); ok {
								lib := "?"
								for _, val := range strConsts {
									if strings.HasPrefix(val, "@") {
										lib = val
									}
								}
								k := "f"
								if name == "RegisterClass" {
									k = "c"
								}
								libs = append(libs, libReg{lib, k, s})
							} else {
								fail(T, "%s: %s with a non-literal name at %s", fname, name, fset.Position(v.Pos()))
							}
						}
					}
				case *ast.IfStmt:
					// validateOneParam: `if strings.HasPrefix(typeStr, "golang:") { if _, ok := v.(*GoValue); !ok {…}; if v.(*GoValue)… }`
					if fd.Name.Name == "validateOneParam" {
						if ce, ok := v.Cond.(*ast.CallExpr); ok && len(ce.Args) == 2 {
							if s, ok := mbStrLit(ce.Args[1]); ok && s == "golang:" {
								castGuard = golangCastShape(v.Body)
							}
						}
					}
				}
				return true
			})
		}
		// class definitions of pkg/common: var X = value.NewClassModel("…").DefineProperty("…", …)….SetConstructor(fn)
		if strings.HasPrefix(rel, "pkg/common/") {
			for _, d := range f.Decls {
				gd, ok := d.(*ast.GenDecl)
				if !ok || gd.Tok != token.VAR {
					continue
				}
				for _, s := range gd.Specs {
					vs := s.(*ast.ValueSpec)
					for _, val := range vs.Values {
						if cd, ok := classChain(val); ok {
							classes = append(classes, classDef{cd.name, cd.props, cd.ctor})
						}
					}
				}
			}
		}
	}

	// globals: the `map[string]r.Element{ "真": …, … }` literal of exec/globals.go (assigned to globalValues in init(),
	// or returned by NewGlobalValues())
	var globals []string
	if f := parseFile("pkg/exec/globals.go"); f != nil {
		found := false
		ast.Inspect(f, func(n ast.Node) bool {
			cl, ok := n.(*ast.CompositeLit)
			if !ok || found {
				return !found
			}
			mt, ok := cl.Type.(*ast.MapType)
			if !ok {
				return true
			}
			if k, ok := mt.Key.(*ast.Ident); !ok || k.Name != "string" {
				return true
			}
			if sel, ok := mt.Value.(*ast.SelectorExpr); !ok || sel.Sel.Name != "Element" {
				return true
			}
			found = true
			for _, el := range cl.Elts {
				kv, ok := el.(*ast.KeyValueExpr)
				if !ok {
					fail(T, "predefined values: element is not key: value at %s", fset.Position(el.Pos()))
					continue
				}
				if s, ok := mbStrLit(kv.Key); ok {
					globals = append(globals, s)
				} else {
					fail(T, "predefined values: key is not a string literal at %s", fset.Position(kv.Key.Pos()))
				}
			}
			return false
		})
		if !found || len(globals) == 0 {
			fail(T, "globals.go: the map[string]r.Element{…} literal of the predefined values was not found")
		}
	}

	if len(members) < 30 {
		fail(T, "only %d member names found in pkg/value (pattern miss)", len(members))
	}
	for _, want := range []string{"array", "hashmap", "string", "number", "bool", "null", "object", "class", "function", "exception"} {
		ks := typeSet[want]
		if ks == nil || !ks["g"] || !ks["s"] || !ks["m"] {
			fail(T, "type %s: GetProperty/SetProperty/ExecMethod not all found", want)
		}
	}
	if len(libs) == 0 {
		fail(T, "no RegisterFunction call found in stdlib/json, stdlib/file")
	}

	sort.SliceStable(members, func(i, j int) bool {
		a, b := members[i], members[j]
		if a.typ != b.typ {
			return a.typ < b.typ
		}
		if a.kind != b.kind {
			return a.kind < b.kind
		}
		return false // keep source order of names
	})
	var types []string
	for t := range typeSet {
		types = append(types, t)
	}
	sort.Strings(types)
	sort.Strings(constructables)
	sort.Strings(dynamicTypes)

	var sb strings.Builder
	sb.WriteString(header(T, "pkg/value/*.go", "pkg/common/*.go", "stdlib/json/json.go", "stdlib/file/file.go", "pkg/exec/globals.go"))
	sb.WriteString("/-- receiver types of pkg/value (tag of the Go type) -/\n")
	fmt.Fprintf(&sb, "def types : List String := %s\n\n", mbLeanStrList(types))
	sb.WriteString("/-- (type, kind, name): kind g = getter (GetProperty), s = setter (SetProperty), m = method (ExecMethod) -/\n")
	sb.WriteString("def members : List (String × String × String) := [\n")
	for i, m := range members {
		sep := ","
		if i == len(members)-1 {
			sep = ""
		}
		fmt.Fprintf(&sb, "  (%s, %s, %s)%s   -- %s\n", mbLeanStr(m.typ), mbLeanStr(m.kind), mbLeanStr(m.name), sep, m.fn)
	}
	sb.WriteString("]\n\n")
	sb.WriteString("/-- type:kind whose members are also looked up dynamically (user-defined properties and methods of objects) -/\n")
	fmt.Fprintf(&sb, "def dynamicLookups : List String := %s\n\n", mbLeanStrList(dynamicTypes))
	sb.WriteString("/-- types with a Construct method (新建) -/\n")
	fmt.Fprintf(&sb, "def constructables : List String := %s\n\n", mbLeanStrList(constructables))
	sb.WriteString("/-- (library, kind f = function / c = class, exported name) -/\n")
	sb.WriteString("def libraries : List (String × String × String) := [\n")
	for i, l := range libs {
		sep := ","
		if i == len(libs)-1 {
			sep = ""
		}
		fmt.Fprintf(&sb, "  (%s, %s, %s)%s\n", mbLeanStr(l.lib), mbLeanStr(l.kind), mbLeanStr(l.name), sep)
	}
	sb.WriteString("]\n\n")
	sb.WriteString("/-- predefined names of exec/globals.go -/\n")
	fmt.Fprintf(&sb, "def globals : List String := %s\n\n", mbLeanStrList(globals))
	sb.WriteString("/-- class definitions of pkg/common: (name, properties, ValidateLeastParams patterns of the constructor) -/\n")
	sb.WriteString("def classes : List (String × List String × List String) := [\n")
	for i, c := range classes {
		sep := ","
		if i == len(classes)-1 {
			sep = ""
		}
		fmt.Fprintf(&sb, "  (%s, %s, %s)%s\n", mbLeanStr(c.name), mbLeanStrList(c.props), mbLeanStrList(ctorPatterns[c.ctor]), sep)
	}
	sb.WriteString("]\n\n")
	sb.WriteString("/-- every Validate{Exact,Least,All}Params call with literal type strings: (calling function, validator, patterns) -/\n")
	sb.WriteString("def validateCalls : List (String × String × List String) := [\n")
	for i, c := range vcalls {
		sep := ","
		if i == len(vcalls)-1 {
			sep = ""
		}
		fmt.Fprintf(&sb, "  (%s, %s, %s)%s\n", mbLeanStr(c.where), mbLeanStr(c.kind), mbLeanStrList(c.pats), sep)
	}
	sb.WriteString("]\n\n")
	sb.WriteString("/-- `return nil, nil` sites (a nil element without an error) in pkg/value, pkg/common, stdlib/json, stdlib/file,\n    exec/globals.go, exec/exec_varinput.go: (file, function, line) -/\n")
	sb.WriteString("def nilReturnSites : List (String × String × Nat) := [\n")
	for i, s := range nilSites {
		sep := ","
		if i == len(nilSites)-1 {
			sep = ""
		}
		fmt.Fprintf(&sb, "  (%s, %s, %d)%s\n", mbLeanStr(s.file), mbLeanStr(s.fn), s.line, sep)
	}
	sb.WriteString("]\n\n")
	sb.WriteString("/-- shape of the `golang:` branch of validateOneParam: \"unguarded\" = `v.(*GoValue).GetTag()` is evaluated even\n    after the type test failed (a Go panic for a non-GoValue argument), \"guarded\" = only after a successful test,\n    \"absent\" = the branch is gone -/\n")
	fmt.Fprintf(&sb, "def golangCastShape : String := %s\n", mbLeanStr(castGuard))
	sb.WriteString(footer(T))
	writeIfChanged(filepath.Join(*outDir, "Members.lean"), sb.String())
}

// golangCastShape looks at the body of `if strings.HasPrefix(typeStr, "golang:") {…}`.
// unguarded: some statement of the body evaluates `v.(*GoValue)` in single-value form outside an
// else/successful-test region.
func golangCastShape(body *ast.BlockStmt) string {
	shape := "guarded"
	for _, st := range body.List {
		ifs, ok := st.(*ast.IfStmt)
		if !ok {
			continue
		}
		// `if _, ok := v.(*GoValue); !ok { … }` is the test itself
		if ifs.Init != nil {
			if as, ok := ifs.Init.(*ast.AssignStmt); ok && len(as.Lhs) == 2 {
				// a cast used in the else branch or after `ok` is fine
				continue
			}
		}
		found := false
		ast.Inspect(ifs.Cond, func(n ast.Node) bool {
			if ta, ok := n.(*ast.TypeAssertExpr); ok && ta.Type != nil {
				found = true
			}
			return true
		})
		if found {
			shape = "unguarded"
		}
	}
	return shape
}

type classChainInfo struct {
	name  string
	props []string
	ctor  string
}

// classChain recognises value.NewClassModel("N").DefineProperty("p", …)….SetConstructor(fn)
func classChain(e ast.Expr) (classChainInfo, bool) {
	var info classChainInfo
	cur := e
	for {
		ce, ok := cur.(*ast.CallExpr)
		if !ok {
			return info, false
		}
		sel, ok := ce.Fun.(*ast.SelectorExpr)
		if !ok {
			return info, false
		}
		switch sel.Sel.Name {
		case "NewClassModel":
			if len(ce.Args) == 1 {
				if s, ok := mbStrLit(ce.Args[0]); ok {
					info.name = s
					// props were collected outermost-first
					for i, j := 0, len(info.props)-1; i < j; i, j = i+1, j-1 {
						info.props[i], info.props[j] = info.props[j], info.props[i]
					}
					return info, true
				}
			}
			return info, false
		case "DefineProperty":
			if len(ce.Args) == 2 {
				if s, ok := mbStrLit(ce.Args[0]); ok {
					info.props = append(info.props, s)
				}
			}
		case "SetConstructor":
			if len(ce.Args) == 1 {
				if id, ok := ce.Args[0].(*ast.Ident); ok {
					info.ctor = id.Name
				}
			}
		case "DefineMethod", "DefineCompProperty":
		default:
			return info, false
		}
		cur = sel.X
	}
}
