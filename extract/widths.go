package main

import (
	"fmt"
	"go/ast"
	"go/token"
	"strings"
)

// ---------------------------------------------------------------------------------------------
// display widths: the two composite literals and the `getOffset` closure of calcCursorOffset
//
//	widthBorders := []int32{ … }          →  widthBorders : List Nat
//	widths := []int{ … }                  →  widths : List Nat
//	getOffset := func(t rune) int {
//	    if t == 0xE || t == 0xF { return 0 }   →  zeroWidthSpecials : List Nat, zeroWidth : Nat
//	    for idx, b := range widthBorders { if t <= b { return widths[idx] } }
//	    return 1 }                        →  widthDefault : Nat
//
// Only the data is translated; the shape of the lookup (first border ≥ t, `<=`) is checked and a
// different shape is an EXTRACT-FAIL.

func genWidths() {
	const T = "widths"
	f := parseFile("pkg/exec/error_printer.go")
	if f == nil {
		return
	}
	fn := findFunc(f, "calcCursorOffset")
	if fn == nil || fn.Body == nil {
		fail(T, "func calcCursorOffset not found in pkg/exec/error_printer.go")
		return
	}
	consts := collectConsts(f)

	// local `name := <expr>` directly in the function body (not nested)
	local := func(name string) ast.Expr {
		var found ast.Expr
		n := 0
		for _, st := range fn.Body.List {
			as, ok := st.(*ast.AssignStmt)
			if !ok || as.Tok != token.DEFINE || len(as.Lhs) != 1 || len(as.Rhs) != 1 {
				continue
			}
			if id, ok := as.Lhs[0].(*ast.Ident); ok && id.Name == name {
				found = as.Rhs[0]
				n++
			}
		}
		if n != 1 {
			return nil
		}
		return found
	}
	sliceLit := func(name string, elemTypes ...string) []int64 {
		e := local(name)
		cl, ok := e.(*ast.CompositeLit)
		if !ok {
			fail(T, "`%s := []T{…}` not found exactly once in calcCursorOffset", name)
			return nil
		}
		at, ok := cl.Type.(*ast.ArrayType)
		if !ok || at.Len != nil {
			fail(T, "%s is not a slice literal", name)
			return nil
		}
		et, ok := at.Elt.(*ast.Ident)
		okType := false
		if ok {
			for _, t := range elemTypes {
				okType = okType || et.Name == t
			}
		}
		if !okType {
			fail(T, "%s: element type is not one of %v", name, elemTypes)
			return nil
		}
		for _, el := range cl.Elts {
			if _, isKV := el.(*ast.KeyValueExpr); isKV {
				fail(T, "%s: keyed element at %s", name, fset.Position(el.Pos()))
				return nil
			}
		}
		vals := consts.evalList(T, cl)
		if len(vals) != len(cl.Elts) {
			return nil // evalList already failed
		}
		for _, v := range vals {
			if v < 0 {
				fail(T, "%s: negative entry", name)
				return nil
			}
		}
		return vals
	}
	borders := sliceLit("widthBorders", "int32", "rune")
	widths := sliceLit("widths", "int")
	if borders == nil || widths == nil {
		return
	}
	if len(borders) != len(widths) {
		fail(T, "len(widthBorders)=%d ≠ len(widths)=%d", len(borders), len(widths))
		return
	}
	for i := 1; i < len(borders); i++ {
		if borders[i-1] >= borders[i] {
			fail(T, "widthBorders not strictly increasing at entry %d", i)
			return
		}
	}

	// the closure
	fl, ok := local("getOffset").(*ast.FuncLit)
	if !ok || len(fl.Type.Params.List) != 1 || len(fl.Type.Params.List[0].Names) != 1 || len(fl.Body.List) != 3 {
		fail(T, "`getOffset := func(t rune) int { if…; for…; return… }` not recognised")
		return
	}
	tName := fl.Type.Params.List[0].Names[0].Name
	isT := func(e ast.Expr) bool { id, ok := e.(*ast.Ident); return ok && id.Name == tName }
	retLit := func(st ast.Stmt) (int64, bool) {
		rs, ok := st.(*ast.ReturnStmt)
		if !ok || len(rs.Results) != 1 {
			return 0, false
		}
		return litValue(rs.Results[0])
	}
	// 1. if t == A || t == B { return Z }
	var specials []int64
	var collect func(e ast.Expr) bool
	collect = func(e ast.Expr) bool {
		be, ok := e.(*ast.BinaryExpr)
		if !ok {
			return false
		}
		switch be.Op {
		case token.LOR:
			return collect(be.X) && collect(be.Y)
		case token.EQL:
			if !isT(be.X) {
				return false
			}
			v, ok := litValue(be.Y)
			if ok {
				specials = append(specials, v)
			}
			return ok
		}
		return false
	}
	ifs, ok := fl.Body.List[0].(*ast.IfStmt)
	if !ok || ifs.Init != nil || ifs.Else != nil || len(ifs.Body.List) != 1 || !collect(ifs.Cond) {
		fail(T, "getOffset: first statement is not `if t == A || t == B { return Z }`")
		return
	}
	zero, ok := retLit(ifs.Body.List[0])
	if !ok {
		fail(T, "getOffset: special-case branch does not return a literal")
		return
	}
	// 2. for idx, b := range widthBorders { if t <= b { return widths[idx] } }
	okLoop := false
	if rs, ok := fl.Body.List[1].(*ast.RangeStmt); ok && rs.Tok == token.DEFINE && len(rs.Body.List) == 1 {
		k, ok1 := rs.Key.(*ast.Ident)
		v, ok2 := rs.Value.(*ast.Ident)
		x, ok3 := rs.X.(*ast.Ident)
		if ok1 && ok2 && ok3 && x.Name == "widthBorders" {
			if is, ok := rs.Body.List[0].(*ast.IfStmt); ok && is.Init == nil && is.Else == nil && len(is.Body.List) == 1 {
				if be, ok := is.Cond.(*ast.BinaryExpr); ok && be.Op == token.LEQ && isT(be.X) {
					if y, ok := be.Y.(*ast.Ident); ok && y.Name == v.Name {
						if ret, ok := is.Body.List[0].(*ast.ReturnStmt); ok && len(ret.Results) == 1 {
							if ix, ok := ret.Results[0].(*ast.IndexExpr); ok {
								a, okA := ix.X.(*ast.Ident)
								i, okI := ix.Index.(*ast.Ident)
								okLoop = okA && okI && a.Name == "widths" && i.Name == k.Name
							}
						}
					}
				}
			}
		}
	}
	if !okLoop {
		fail(T, "getOffset: lookup is not `for idx, b := range widthBorders { if t <= b { return widths[idx] } }`")
		return
	}
	// 3. return D
	def, ok := retLit(fl.Body.List[2])
	if !ok {
		fail(T, "getOffset: default is not `return <literal>`")
		return
	}

	var sb strings.Builder
	sb.WriteString(header("Widths", "pkg/exec/error_printer.go (calcCursorOffset)"))
	sb.WriteString("/-- upper borders (inclusive) of the display-width classes, strictly increasing -/\n")
	fmt.Fprintf(&sb, "def widthBorders : List Nat := %s\n\n", leanDecList(borders))
	sb.WriteString("/-- display width of the class ending at the border of the same index -/\n")
	fmt.Fprintf(&sb, "def widths : List Nat := %s\n\n", leanDecList(widths))
	sb.WriteString("/-- code points tested before the table (`t == 0xE || t == 0xF`) and the width they get -/\n")
	fmt.Fprintf(&sb, "def zeroWidthSpecials : List Nat := %s\n", leanNatList(specials))
	fmt.Fprintf(&sb, "def specialWidth : Nat := %d\n\n", zero)
	sb.WriteString("/-- width of a code point above the last border -/\n")
	fmt.Fprintf(&sb, "def widthDefault : Nat := %d\n", def)
	sb.WriteString(footer("Widths"))
	writeIfChanged(*outDir+"/Widths.lean", sb.String())
}

func leanDecList(xs []int64) string {
	var sb strings.Builder
	sb.WriteString("[")
	for i, x := range xs {
		if i > 0 {
			sb.WriteString(", ")
		}
		fmt.Fprintf(&sb, "%d", x)
	}
	sb.WriteString("]")
	return sb.String()
}
