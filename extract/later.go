package main

func genWidths()    {}
func genMembers()   {}
func genFacts()     {}
