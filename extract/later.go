package main

func genWidths()    {}
