package main

func genWidths()    {}
func genMembers()   {}
