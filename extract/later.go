package main

func genFormatDFA() {}
func genWidths()    {}
func genMembers()   {}
func genFacts()     {}
